#!/usr/bin/env python3
"""Regenerate /verif/MANIFEST.json from the table below (kept in one place so it stays consistent)."""
import json
import os

VERIF = os.path.dirname(os.path.dirname(os.path.abspath(__file__)))

CHECKS = {
    "C14": dict(
        category="model_checking", design_ref="DESIGN.md §3 C14",
        technique="explicit-state BFS over join_boundaries events on the real Multipatch to closure (all orders, both "
                  "call orientations, repetition), union-find reference on every transition; exhaustive enumeration of "
                  "patch permutations/reparametrisations for interface detection and of conforming splits",
        text="All reachable gluing states of 2x1, 2x2, L, 3x2, ring-3..6 and 2x2x(1|2) complexes under every order of "
             "join calls are compared with the equivalence closure; detect_interfaces, split-domain systems and "
             "multipatch Dirichlet data are enumerated over small scopes. Bounded-exhaustive, not a proof for larger complexes.",
        note="Trusted: numpy, the union-find/geometry reference in ref/mpatch.py; patch geometries are multilinear "
             "(boxes, sectors), degrees 1-3, 1-2 spans per direction; predefined assemblers for the system comparison."),
}

CHECKS["C02"] = dict(
    category="model_checking", design_ref="DESIGN.md §3 C02",
    technique="bounded-exhaustive enumeration of knot-vector shapes (degree x breakpoint pattern x all interior multiplicity "
              "vectors) x point sets (breakpoints, adjacent floats, Gauss nodes) x derivative orders x routes, against an "
              "exact Cox-de Boor reference in rational arithmetic",
    text="Every knot vector of the shape alphabet (p 0..4 quick, 0..6 + 7..12 on three patterns thorough) is evaluated at every "
         "point of its point set through every evaluation/collocation/spline/tensor-product route and compared with exact "
         "rational Cox-de Boor values; linear routes are decided on every unit coefficient vector.",
    note="Trusted: fractions.Fraction arithmetic, ref/bsp.py; breakpoints from a finite alphabet spanning 6 decades; "
         "norm-wise tolerance 1e-10 per derivative row (observed <= 1e-12).")
CHECKS["C19"] = dict(
    category="model_checking", design_ref="DESIGN.md §3 C19",
    technique="literally exhaustive enumeration of constructor arguments (all p<=6, n<=N, mult, 24 intervals), of all "
              "breakpoints +-1 ulp for span lookup, of all subsets of candidate knots for refine and of all ordered pairs "
              "of an equality alphabet, with exact rational reference values",
    text="make_knots is run for every (p, n, mult) up to n=600 (quick) / 2000 (thorough) on [0,1] and n<=100/300 on 24 "
         "intervals; queries (mesh, supports, span indices, Greville, findspan at every breakpoint and adjacent floats), "
         "refine, __eq__ and Spline.derivative are enumerated over finite alphabets.",
    note="Trusted: fractions.Fraction, numpy; intervals from a fixed grid, not all floats; spacing tolerance 4 eps * max(|a|,|b|).")

CHECKS["C04"] = dict(
    category="model_checking", design_ref="DESIGN.md §3 C04",
    technique="explicit-state BFS of the real HSpace under refine() events (every non-empty subset of active cells below a "
              "level bound, all levels at once) to closure; declarative activation model on every transition, state "
              "invariants on every distinct state",
    text="All refinement forests of the rows 1D k=3/L=2, 1D k=2/L=3, 2D 2x1/L=2, 2D 2x2/L=1 (quick) plus 1D k=4/L=2, 1D k=3/L=3, "
         "2D 2x2/L=2, 3D octree (thorough) are reached by BFS for degrees 1-4, disparity 1,2,3,inf and both marking "
         "variants; every transition is compared with the declarative model and every state with tiling, activation, "
         "ordering, independence, (T)HB representation, transform, disparity and incidence/support oracles.",
    note="Trusted: ref/hmodel.py (declarative cell/function model, exact knot insertion), numpy rank; uniform dyadic meshes "
         "with <=4 coarse cells per axis; big rows restrict marks to subsets of size <=1-2 plus whole levels (stated in evidence).")
CHECKS["C10"] = dict(
    category="model_checking", design_ref="DESIGN.md §3 C10",
    technique="bounded-exhaustive enumeration of all ordered index subsets (n<=4/5) x value/rhs/matrix forms x elim_rows with "
              "integer payloads and an exact rational dictionary-model solve; all faces x data kinds x geometries for the "
              "boundary-condition routines",
    text="RestrictedLinearSystem is checked on every ordered subset of dofs with exact Fraction solves (prescribed values, kept "
         "equations, restrict/extend/restrict_matrix consistency on unit vectors); compute_dirichlet_bc(s), combine_bcs, "
         "slice/boundary index helpers and compute_initial_condition_01 are enumerated over all faces of 1D-3D spaces, data "
         "kinds and geometries against an independent B-spline evaluation.",
    note="Trusted: fractions.Fraction Gaussian elimination, ref/dirichlet.py Cox-de Boor; geometry evaluation (geo.grid_eval) is "
         "input data here and decided by C07; n<=5 dofs, 6 knot vectors, 4 geometries.")
CHECKS["C12"] = dict(
    category="model_checking", design_ref="DESIGN.md §3 C12",
    technique="complete enumeration of rooted-tree order conditions (order<=4) for all 12 shipped tableaux; stage equations on "
              "a finite (M, L, c, tau) alphabet with unit start vectors against exact rational stage solves; drivers explored "
              "as state machines under every scripted error-ratio / residual sequence up to depth 3-4",
    text="All 168 order conditions, ~16k-29k real dirk_step/rosenbrock_step calls compared with exact Fraction stage solutions, "
         "and every scripted answer sequence over {0,0.5,1,1+1e-12,10,1e6,NoConvergence}^k (k<=3 quick, 4 thorough) for the "
         "adaptive controller, all (t0,t_end,tau) grid points for the constant-step driver and scripted residual sequences "
         "for newton.",
    note="Trusted: ref/rk.py order conditions (self-tested against empirical convergence orders in the thorough tier), Fraction "
         "arithmetic; coefficient tolerance 1e-9 (tableaux carry 10-16 digits); known findings: dirk34 tableau, dirk_step Newton atol.")

CHECKS["C05"] = dict(
    category="model_checking", design_ref="DESIGN.md §3 C05",
    technique="bounded-exhaustive enumeration of nested knot-vector pairs (all sub-multisets of a candidate insertion set) against "
              "exact Boehm insertion in rationals; explicit-state enumeration of all hierarchical states of the C04 rows and of "
              "ancestor/descendant pairs (all edges of the state graph plus 2-3 call chains) with matrix identities on unit vectors",
    text="prolongation/knot_insertion are compared entrywise with exact knot insertion for every knot vector of the alphabet and "
         "every set of <=2 (quick) / 3 (thorough) insertions; for every reachable hierarchical state represent_fine(lv), HB/THB "
         "virtual-hierarchy prolongators, level-wise evaluation (values, gradients, Hessians, points) on every unit vector and "
         "boundary maps are checked, and prolongate_to on every refinement edge.",
    note="Trusted: ref/bsp.py exact insertion, ref/hmodel.py; uniform dyadic hierarchical meshes (C04 rows), degrees 1-3; "
         "known finding: THB virtual-hierarchy prolongators on >=3 levels.")
CHECKS["C16"] = dict(
    category="model_checking", design_ref="DESIGN.md §3 C16",
    technique="bounded-exhaustive enumeration of operand kind x shape tuples x argument forms x transposes/adjoints with small "
              "distinct integer payloads; exact == comparison with dense numpy definitions on every unit vector",
    text="Kronecker, block, block-diagonal, diagonal, identity, null and subspace operators, apply_tprod/modek_tprod/"
         "apply_kronecker (None placeholders, trailing axes), CSR row views and the solver factories are enumerated over all "
         "small operand tuples (1-3 factors quick, 4 thorough) and compared exactly with np.kron/np.block definitions; "
         "solvers: B @ solve(e_j) == e_j for every unit vector.",
    note="Trusted: numpy dense algebra (ref/linops.py); integer payloads make float arithmetic exact; pyMKL absent so sparse "
         "make_solver runs through SuperLU only; operand shapes in {1,2,3}^2.")

CHECKS["C06"] = dict(
    category="model_checking", design_ref="DESIGN.md §3 C06",
    technique="the middle end explored as a transition system: every program of a bounded vform grammar x both scheduling modes, "
              "the value invariant evaluated after EVERY pass of finalize against an independent 2-jet denotational semantics; "
              "def-before-use abstract machine on the emitted order; operator identities on the full 0/1 entry grid",
    text="For ~700 (quick) / ~1100 (thorough) programs x {precompute, on-demand} the expression DAG after each of the 10-20 passes "
         "of VForm.finalize is evaluated in three generic jet environments and compared with the program's denotation computed "
         "by ref/vsem.py (own forward-mode differentiation and chain rule); the final precompute/kernel schedule is executed "
         "with uninitialised-read detection; det/inv/cross/products/traces/transposes are checked on every 0/1 assignment of "
         "their entries, which proves the multilinear identities.",
    note="Trusted: ref/vsem.py, ref/vgen.py; non-polynomial subterms are decided on the finite environment set only; "
         "programs limited to the generator's families (node bound ~12), derivative order <= 2.")

CHECKS["C13"] = dict(
    category="model_checking", design_ref="DESIGN.md §3 C13 (amended: semantic instead of textual code comparison)",
    technique="explicit-state exploration of the in-process assembler cache: all forms of the bounded grammar plus every "
              "one-token mutant x on_demand; all unordered pairs decided by grouping on the real cache key; all ordered "
              "request sequences of length 2-3 per neighbourhood on the real cache with the compiler stubbed; freshness of "
              "shipped generated files under several PYTHONHASHSEED values",
    text="~14k forms: equal cache key must imply the same assembler (same interface and same integrand value under the "
         "independent semantics in fixed environments); ~12k request sequences on the real cache must serve each request with an "
         "assembler generated from an equivalent form; assemblers.pyx/genericasm.pxi are regenerated in fresh processes and "
         "compared with the shipped files.",
    note="Trusted: ref/vsem.py semantics as the meaning of 'identical code' (the generator's statement order and temporary names "
         "are not deterministic between two generations of the same form, so text cannot be compared); compiler stubbed.")
CHECKS["C17"] = dict(
    category="model_checking", design_ref="DESIGN.md §3 C17",
    technique="bounded-exhaustive enumeration of spline spaces (knot-vector alphabet, dims 1-3) x geometries x node grids x data "
              "forms with the projection property decided on EVERY basis function (linearity), plus all states of small C04 "
              "rows for hierarchical spaces",
    text="interpolate and project_L2 must return the unit vector for every basis function of every enumerated space (exact "
         "reference evaluation), match data at the nodes, have an L2-orthogonal residual for monomials outside the space, treat "
         "vector/matrix data componentwise and physical data like their pull-backs; hierarchical: every (T)HB function of every "
         "reachable state of the rows 1D-k3-L2, 1D-k1-L3 (thorough: 1D-k2-L3, 2D-2x1-L2).",
    note="Trusted: ref/bsp.py, ref/l2ref.py quadrature; acceptance scaled by conditioning (cond*eps*100); NURBS geometry and "
         "degree p+2 monomials compared against the library's own Gauss rule; known finding: hierarchical load vector quadrature.")

CHECKS["C01"] = dict(
    category="model_checking", design_ref="DESIGN.md §3 C01",
    technique="bounded-exhaustive enumeration of vform programs (grammar families x operator pairs x coefficient atoms; quick: fixed "
              "strides) compiled by the real generator and C compiler, every assembled entry compared with the Gauss sum of an "
              "independent denotational semantics evaluated for all (test, trial) pairs",
    text="~240 (quick) / ~900 (thorough) programs incl. vector bases with non-square blocks, Petrov-Galerkin, surface, boundary "
         "(all faces), space-time, predefined forms, string front end and on-demand sub-boxes are built, loaded and assembled on "
         "spaces with mixed degrees, unequal dof counts, a repeated knot and curved B-spline/NURBS geometries; every entry (and "
         "entry(i,j) for all pairs incl. structural zeros, multi_entries) must equal the reference to 1e-10 relative.",
    note="Trusted: ref/vsem.py semantics, ref/bsp.py basis values; geometry/field values at Gauss nodes come from the library's "
         "evaluators (C02/C07); one fixed payload set; cold compile dominates the run time.")
CHECKS["C07"] = dict(
    category="model_checking", design_ref="DESIGN.md §3 C07",
    technique="bounded-exhaustive enumeration of function kinds x sdim x degrees x knot patterns x output shapes x weights x routes x "
              "point sets against a reference tensor-product evaluator; explicit enumeration of ALL operation histories to depth "
              "2 (3) over 12 seed geometries without state merging, with closure models and snapshot immutability",
    text="B-spline routes are decided on every unit coefficient tensor; NURBS by own quotient rules; user/composed/boundary functions "
         "on all routes; ~19k (quick) / ~435k (thorough) operation histories each compared with a pure closure model and every "
         "pre-existing object compared byte-wise with its snapshot; arcs/circles/disks/annuli on exact circles for the documented "
         "angle ranges.",
    note="Trusted: ref/tp.py + ref/bsp.py; degrees 1-3, four knot patterns; tolerance 1e-10 norm-wise per derivative column.")
CHECKS["C15"] = dict(
    category="model_checking", design_ref="DESIGN.md §3 C15",
    technique="exhaustive enumeration of per-level 0/1 sparsity patterns (all 2x2, 2x3/3x2, 3x3) x level tuples (L<=6) x queries x "
              "level permutations, exact integer comparison with the dense Kronecker definition; rectangular products in forked "
              "sandbox children",
    text="nonzero (incl. order), lower_tri, per-row/column queries, transpose/join/slice/reorder, MLMatrix asmatrix/dot/reorder on "
         "unit vectors, from_kvs for all knot-vector pairs of an alphabet (incl. nested meshes), kron_partial and the index maps "
         "are compared with numpy.kron-based references over ~20k (quick) / ~150k (thorough) structures.",
    note="Trusted: ref/mlref.py (numpy.kron); integer payloads => exact equality; order inside derived structures' index lists is "
         "not demanded (undocumented).")

CHECKS["C03"] = dict(
    category="model_checking", design_ref="DESIGN.md §3 C03",
    technique="explicit-state enumeration of ALL reachable hierarchical spaces of the C04 rows x forms x geometries x {HB,THB} x "
              "symmetric flag x bdspecs; every assembled entry compared with the level-wise Galerkin oracle built from reference "
              "representation matrices and tensor-product level assemblies",
    text="For each of the 730 (quick) / ~2500 (thorough) states the hierarchical matrix/vector of mass, stiffness (predefined and "
         "string), non-symmetric convection with a parameter, reaction with a field and physical/parametric functionals is "
         "compared entrywise (1e-11 relative) with (R_l^T A_l R_l)[i,j], l = finer level; polynomial integrands additionally with "
         "I^T A_fine I; THB via the transform congruence; symmetric vs general assembly.",
    note="Trusted: ref/hmodel.py representation matrices, tensor-product assembly of each level (C01/C09), thb_to_hb (C04); "
         "1D/2D, degrees 1-3, scalar forms (the library marks vector-valued hierarchical forms TODO).")
CHECKS["C11"] = dict(
    category="model_checking", design_ref="DESIGN.md §3 C11",
    technique="exhaustive enumeration of all off-diagonal sparsity patterns (n<=4) x value sets x formats x sweeps x iterations x "
              "ordered index lists against exact rational Gauss-Seidel; all states of C04 rows x strategies x smoothers x bases "
              "with set invariants, fixed-point and energy-contraction (A - E^T A E >= 0 on the assembled iteration operator); "
              "drivers under every scripted residual pattern",
    text="~1.1M (quick) / 8.9M (thorough) gauss_seidel calls compared with Fraction references; local multigrid on every reachable "
         "hierarchical state (1679 / 5942 states) for 4 strategies x 5 smoothers x HB/THB x bdspecs; iterative_solve under all "
         "{>=tol,<tol}^k patterns, solve_hmultigrid and twogrid termination contracts.",
    note="Trusted: ref/gs.py (Fractions), ref/hmodel.py; systems are I^T(K+M)I from Kronecker tensor-product matrices; energy "
         "tolerance 1e-9 ||A||.")

CHECKS["C08"] = dict(
    category="model_checking", design_ref="DESIGN.md §2.4, §3 C08",
    technique="complete enumeration of the configuration lattice (forms x symmetric x format x layout) and of entry/row/block "
              "subsets; stateless exploration of ALL orders of the assembly chunk tasks under a controlled executor for every "
              "thread count 2..16 with poisoned foreign output slices (dynamic independence check = partial-order reduction); "
              "explicit-state enumeration of update/assemble event sequences to depth 3",
    text="15-18 compiled forms (scalar 1-3D, non-symmetric, vector forms with (2,2),(2,1),(1,2),(2,3) blocks, functionals): every "
         "configuration vs the reference configuration; every single entry/row; ~3300 chunk-task schedules executed on the real "
         "multi_entries/multi_blocks with bitwise comparison against one thread and footprint checks; real pool and OpenMP runs in "
         "fresh processes for n in 1..16; ~600 update/assemble sequences vs fresh construction.",
    note="Instruction-level interleavings inside nogil C code are not driven by the scheduler; they are covered by the dynamically "
         "checked independence of tasks (disjoint footprints, order-independent bitwise results) plus free-running real-thread "
         "runs (supplementary, not deciding). Reference configuration is tied to the semantics by C01.")

CHECKS["C18"] = dict(
    category="model_checking", design_ref="DESIGN.md §3 C18",
    technique="explicit enumeration of ALL operation sequences to depth 2 (3 in thorough) over five tensor formats x all small shapes "
              "x all per-axis index expressions WITHOUT state merging, each step compared exactly with a dense ndarray model "
              "(integer payloads) plus operand immutability; enumerated families for the approximation clauses",
    text="~2.9M (quick) / 44M (thorough) transitions over canonical, Tucker, sum, product tensors and Kronecker-rank operators: "
         "arithmetic, indexing/slicing, squeeze, mode products, norms, orthogonalisation, conversion, joining, padding, operator "
         "application/composition/transposition/kron/slice commute with expansion to a full array; compress/truncate tolerances over "
         "10 decades, HOSVD, ACA (exact Fraction cross model), ACA-3D, ALS, greedy approximations and entry generators.",
    note="Trusted: ref/tensor_model.py dense model; np.random reseeded per case; index expressions where numpy semantics differ from "
         "per-axis indexing are not generated; ALS from random starts only held to what is documented.")

CHECKS["C09"] = dict(
    category="model_checking", design_ref="DESIGN.md §3 C09",
    technique="bounded-exhaustive enumeration of knot-vector shapes x derivative orders x pairs of spaces x quadrature grids x weight "
              "monomials against exact rational integrals; Kronecker/generic/predefined/string routes compared for all small "
              "tensor-product spaces; closed-form identities; fast assembler over a tolerance alphabet in pristine-rand() children",
    text="1D mixed-derivative forms and two-space (asym) forms equal exact piecewise-polynomial integrals (Fractions) for every knot "
         "vector of the alphabet; mass/stiffness via Kronecker, identity-geometry, predefined and string routes agree with Kronecker "
         "products of exact 1D matrices in 1-3D; symmetry, sum(M)=measure, K1=0, kernel=constants, SPD/SPSD; load vectors/inner "
         "products/integrals of polynomial data exact under polynomial-Jacobian maps; mass_fast/stiffness_fast within 10*tol for tol in "
         "{1e-4..1e-10}; determinant/inverse helpers on integer grids.",
    note="Trusted: ref/galerkin.py exact rational integration; the fast assembler uses C rand(): every case runs from srand(1) in a "
         "fresh child (deterministic); known findings: ACA stop heuristics (skipstop/tolstop) on 16 listed cases.")
CHECKS["C20"] = dict(
    category="fault_enumeration", design_ref="DESIGN.md §2.4, §3 C20",
    technique="fault enumeration over the recorded write history of a real build (every prefix x truncation class, single damages, a "
              "second fault after recovery, SIGKILL at inotify event indices) with recovery in fresh processes; stateless exploration "
              "of all stage-boundary interleavings of two real compiling processes with <=1 preemption (thorough: all 252) under a "
              "baton scheduler, with a content-hash watch on published modules",
    text="Every crash/damage state of the on-disk module cache is handed to a fresh process that must obtain a correct assembler "
         "without dying from a signal; two processes compiling the same or distinct forms are sequenced through every interleaving of "
         "their stages and must both obtain correct assemblers while a published module is never replaced by different bytes.",
    note="Process death (not power loss): only prefixes of the write history are reachable; free-running races of 2..16 processes are "
         "supplementary evidence (reported, not deciding); no TLA+ model was built (the direct enumeration decides the property).")

NOT_YET = {}


# additions made after the seeded-change waves (DESIGN.md Appendix C.6); appended to the level text
ADDENDA = {
    "C01": "Coefficient atoms that only the compiled route decides (product divisors, negative powers, x-(-y), literals near 0/1/-1, both orientations of -,/) are always part of the quick selection.",
    "C02": "Extreme breakpoint patterns (tiny/huge/half-ulp spans); results of earlier scalar calls are compared again after later calls (no aliasing); scattered tensor-product evaluation with 2-axis coordinate arrays in C, Fortran and transposed-view layouts.",
    "C03": "Rows with THB-admissible marking (refine(..., truncate=True)); warm-object variants (assemble, refine the same object in one or two calls, assemble) and a retry after a failing assemble_matrix() vs fresh objects. ~1050 states in the quick tier.",
    "C04": "Rows with repeated coarse knots, graded (non-uniform, per-direction different) coarse breakpoints, chains of single-cell marks to depth 6, warm-object cache queries; the big thorough rows are explored breadth-first up to a state cap that is reported in the evidence.",
    "C05": "Rows with THB-admissible marking and graded breakpoints; boundary spaces (knot vectors, represent_fine); prolongate_to also on warm objects and across 2-3 refinement calls. Evaluation with every combination of the space's truncate flag and the explicit truncate argument (True/False/None).",
    "C06": "Atoms with mirrored non-commutative operands, product divisors, literals close to the folding constants.",
    "C07": "Scattered-point routes also with Fortran-ordered and strided coordinate arrays.",
    "C08": "3D vector forms with non-square and symmetric blocks (stokesB3D, stokesBT3D, divdiv3D) and 'twin' spaces (equal sizes, different sparsity patterns per direction) in the quick lattice; the updatable form uses the field and its derivative; an 'mlb' result is also applied to every unit vector, all results kept until the end, and compared with the reference matrix.",
    "C09": "3D fast-assembler spaces with ascending degrees.",
    "C11": "A row with THB-admissible marking; adaptive loops are replayed call by call with index queries in between.",
    "C12": "An end-to-end subset (all 12 public methods, dense mass matrix, coarse step/tolerance) is part of the quick tier.",
    "C13": "Mutant 'same term added once more'; sequences add / hash() / add / compile on one form object.",
    "C14": "ring6 in the quick tier; grids whose patches carry different tensor-product spaces; Dirichlet condition lists in grouped, interleaved, reversed and alternating order.",
    "C15": "Arrays returned by nonzero() are shifted in place by the caller and the query repeated; product / assignment of new data / product on one MLMatrix; the results of all products dot(e_j) are kept and compared again after the last one (no aliasing).",
    "C16": "Integer and float32 arguments (on half-integer operands), column-major operands, operands unchanged after the factory call, second solver from the same object, Kronecker solver with one object as several factors; results of earlier applications of an operator are kept and compared again after later ones (no aliasing).",
    "C17": "Orientation-reversing affine map, annulus shrunk by 1e-3, per-axis different node schemes, physical data vs pull-back on hierarchical spaces with a geometry.",
    "C19": "derivative() called again after the coefficients changed (assignment, in place, through the caller's array).",
    "C20": "Every pair of artefacts damaged at once; the same-form two-process schedules also on a cache whose entry is damaged.",
}


def main():
    props = [json.loads(l) for l in open(os.path.join(VERIF, "properties.jsonl"))]
    checks, na = [], []
    for p in props:
        pid = p["id"]
        c = CHECKS.get(pid)
        if c is None:
            na.append({"property_id": pid, "reason": NOT_YET.get(
                pid, "no check is registered for this property in this revision of /verif (driver not built yet; "
                     "design in DESIGN.md §3); nothing is claimed for it")})
            continue
        checks.append({
            "property_id": pid,
            "quick_cmd": "./vcheck %s --tier quick" % pid,
            "thorough_cmd": "./vcheck %s --tier thorough" % pid,
            "evidence_file": "/verif/evidence/%s.json" % pid,
            "replay_cmd_template": "./vcheck %s --replay {path}" % pid,
            "engine": "vcheck",
            "level_claimed": {"category": c["category"], "text": c["text"] + ((" " + ADDENDA[pid]) if pid in ADDENDA else ""), "design_ref": c["design_ref"]},
            "level_note": c["note"],
            "technique": c["technique"],
        })
    man = {
        "version": 1,
        "setup_cmd": "./vcheck --setup",
        "hooks": {
            "guard": "PYIGA_VERIF",
            "enable": "no source hooks are needed: all seams are reached by the drivers through module globals "
                      "(monkeypatching from /verif); checks rebuild /repo in place with `setup.py build_ext -i`",
            "baseline_off_cmd": "cd /repo && /venv/bin/python -m pytest -ra -q -p no:cacheprovider --timeout=900 "
                                "--continue-on-collection-errors",
            "source_commits": [],
            "add_only": True,
        },
        "engines": [
            {"name": "vcheck", "path": "/verif/vcheck", "serves_properties": sorted(CHECKS),
             "kind_free_text": "hand-written bounded-exhaustive explorers in Python running the real pyiga: explicit-state "
                               "BFS over real transition functions (mc/explore.py), shape/program enumerators, controlled "
                               "task scheduler and crash-state enumerator; reference models in ref/"},
        ],
        "checks": checks,
        "not_applicable": na,
        "notes": "All checks: cd /verif && ./vcheck <ID> --tier quick|thorough; VERIF_SEED/VERIF_TIER honoured. "
                 "Known findings: /verif/known_findings.json (never written at run time).",
    }
    with open(os.path.join(VERIF, "MANIFEST.json"), "w") as f:
        json.dump(man, f, indent=1)
        f.write("\n")
    print("checks:", [c["property_id"] for c in checks], "not_applicable:", len(na))


if __name__ == "__main__":
    main()
