#!/usr/bin/env python3
"""Regenerate /verif/MANIFEST.json from the table below (kept in one place so it stays consistent)."""
import json
import os

VERIF = os.path.dirname(os.path.dirname(os.path.abspath(__file__)))

CHECKS = {
    "C14": dict(
        category="model_checking", design_ref="DESIGN.md §3 C14",
        technique="explicit-state BFS over join_boundaries events on the real Multipatch to closure (all orders, both "
                  "call orientations, repetition), union-find reference on every transition; exhaustive enumeration of "
                  "patch permutations/reparametrisations for interface detection and of conforming splits",
        text="All reachable gluing states of 2x1, 2x2, L, 3x2, ring-3..6 and 2x2x(1|2) complexes under every order of "
             "join calls are compared with the equivalence closure; detect_interfaces, split-domain systems and "
             "multipatch Dirichlet data are enumerated over small scopes. Bounded-exhaustive, not a proof for larger complexes.",
        note="Trusted: numpy, the union-find/geometry reference in ref/mpatch.py; patch geometries are multilinear "
             "(boxes, sectors), degrees 1-3, 1-2 spans per direction; predefined assemblers for the system comparison."),
}

CHECKS["C02"] = dict(
    category="model_checking", design_ref="DESIGN.md §3 C02",
    technique="bounded-exhaustive enumeration of knot-vector shapes (degree x breakpoint pattern x all interior multiplicity "
              "vectors) x point sets (breakpoints, adjacent floats, Gauss nodes) x derivative orders x routes, against an "
              "exact Cox-de Boor reference in rational arithmetic",
    text="Every knot vector of the shape alphabet (p 0..4 quick, 0..6 + 7..12 on three patterns thorough) is evaluated at every "
         "point of its point set through every evaluation/collocation/spline/tensor-product route and compared with exact "
         "rational Cox-de Boor values; linear routes are decided on every unit coefficient vector.",
    note="Trusted: fractions.Fraction arithmetic, ref/bsp.py; breakpoints from a finite alphabet spanning 6 decades; "
         "norm-wise tolerance 1e-10 per derivative row (observed <= 1e-12).")
CHECKS["C19"] = dict(
    category="model_checking", design_ref="DESIGN.md §3 C19",
    technique="literally exhaustive enumeration of constructor arguments (all p<=6, n<=N, mult, 24 intervals), of all "
              "breakpoints +-1 ulp for span lookup, of all subsets of candidate knots for refine and of all ordered pairs "
              "of an equality alphabet, with exact rational reference values",
    text="make_knots is run for every (p, n, mult) up to n=600 (quick) / 2000 (thorough) on [0,1] and n<=100/300 on 24 "
         "intervals; queries (mesh, supports, span indices, Greville, findspan at every breakpoint and adjacent floats), "
         "refine, __eq__ and Spline.derivative are enumerated over finite alphabets.",
    note="Trusted: fractions.Fraction, numpy; intervals from a fixed grid, not all floats; spacing tolerance 4 eps * max(|a|,|b|).")

NOT_YET = {}


def main():
    props = [json.loads(l) for l in open(os.path.join(VERIF, "properties.jsonl"))]
    checks, na = [], []
    for p in props:
        pid = p["id"]
        c = CHECKS.get(pid)
        if c is None:
            na.append({"property_id": pid, "reason": NOT_YET.get(
                pid, "no check is registered for this property in this revision of /verif (driver not built yet; "
                     "design in DESIGN.md §3); nothing is claimed for it")})
            continue
        checks.append({
            "property_id": pid,
            "quick_cmd": "./vcheck %s --tier quick" % pid,
            "thorough_cmd": "./vcheck %s --tier thorough" % pid,
            "evidence_file": "/verif/evidence/%s.json" % pid,
            "replay_cmd_template": "./vcheck %s --replay {path}" % pid,
            "engine": "vcheck",
            "level_claimed": {"category": c["category"], "text": c["text"], "design_ref": c["design_ref"]},
            "level_note": c["note"],
            "technique": c["technique"],
        })
    man = {
        "version": 1,
        "setup_cmd": "./vcheck --setup",
        "hooks": {
            "guard": "PYIGA_VERIF",
            "enable": "no source hooks are needed: all seams are reached by the drivers through module globals "
                      "(monkeypatching from /verif); checks rebuild /repo in place with `setup.py build_ext -i`",
            "baseline_off_cmd": "cd /repo && /venv/bin/python -m pytest -ra -q -p no:cacheprovider --timeout=900 "
                                "--continue-on-collection-errors",
            "source_commits": [],
            "add_only": True,
        },
        "engines": [
            {"name": "vcheck", "path": "/verif/vcheck", "serves_properties": sorted(CHECKS),
             "kind_free_text": "hand-written bounded-exhaustive explorers in Python running the real pyiga: explicit-state "
                               "BFS over real transition functions (mc/explore.py), shape/program enumerators, controlled "
                               "task scheduler and crash-state enumerator; reference models in ref/"},
        ],
        "checks": checks,
        "not_applicable": na,
        "notes": "All checks: cd /verif && ./vcheck <ID> --tier quick|thorough; VERIF_SEED/VERIF_TIER honoured. "
                 "Known findings: /verif/known_findings.json (never written at run time).",
    }
    with open(os.path.join(VERIF, "MANIFEST.json"), "w") as f:
        json.dump(man, f, indent=1)
        f.write("\n")
    print("checks:", [c["property_id"] for c in checks], "not_applicable:", len(na))


if __name__ == "__main__":
    main()
