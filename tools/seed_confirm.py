#!/usr/bin/env python3
"""Confirm a seeded change independently of the agent that wrote it, in a scratch worktree outside /repo and /verif:
 (a) the patch applies and the package builds/imports, (b) the existing test suite still passes (191 passed),
 (c) the demonstration fails with the change and passes on the unchanged /repo.
Writes /verif/seeded/<name>/confirm.json.

usage: seed_confirm.py <name> [--no-tests]
"""
import json
import os
import re
import shutil
import subprocess
import sys
import time

VERIF = os.path.dirname(os.path.dirname(os.path.abspath(__file__)))
PY = "/venv/bin/python"


def run(cmd, cwd, env, timeout=3600):
    t0 = time.time()
    try:
        r = subprocess.run(cmd, cwd=cwd, env=env, capture_output=True, text=True, timeout=timeout)
        return r.returncode, (r.stdout + r.stderr)[-3000:], time.time() - t0
    except subprocess.TimeoutExpired:
        return 124, "timeout", time.time() - t0


def main():
    name = sys.argv[1]
    sd = os.path.join(VERIF, "seeded", name)
    patch, demo = os.path.join(sd, "patch.diff"), os.path.join(sd, "demo.py")
    wt = "/tmp/seedeval/confirm-%s" % name
    cache = wt + "-cache"
    subprocess.run(["git", "-C", "/repo", "worktree", "remove", "--force", wt], capture_output=True)
    shutil.rmtree(wt, ignore_errors=True)
    shutil.rmtree(cache, ignore_errors=True)
    os.makedirs("/tmp/seedeval", exist_ok=True)
    subprocess.run(["git", "-C", "/repo", "worktree", "add", "-q", "--detach", wt, "HEAD"], check=True)
    res = {"name": name, "repo_head": subprocess.run(["git", "-C", "/repo", "rev-parse", "--short", "HEAD"], capture_output=True, text=True).stdout.strip()}
    try:
        r = subprocess.run(["git", "-C", wt, "apply", patch], capture_output=True, text=True)
        res["patch_applies"] = r.returncode == 0
        if r.returncode != 0:
            res["error"] = r.stderr[-500:]
            return finish(sd, res)
        for f in os.listdir("/repo/pyiga"):
            if f.endswith(".so"):
                shutil.copy2(os.path.join("/repo/pyiga", f), os.path.join(wt, "pyiga", f))
        changed = subprocess.run(["git", "-C", wt, "diff", "--name-only"], capture_output=True, text=True).stdout.split()
        res["files_changed"] = changed
        env = dict(os.environ, XDG_CACHE_HOME=cache, PYTHONPATH=wt, OMP_NUM_THREADS="1", PYTHONDONTWRITEBYTECODE="1")
        if any(c.endswith((".pyx", ".pxi", ".pxd", ".cc", ".h")) for c in changed):
            now = time.time() + 2
            for c in changed:
                os.utime(os.path.join(wt, c), (now, now))
            rc, out, dt = run([PY, "setup.py", "build_ext", "-i", "-j", "8"], wt, env)
            res["rebuild"] = {"exit": rc, "seconds": round(dt)}
            if rc != 0:
                res["error"] = out[-800:]
                return finish(sd, res)
        rc, out, dt = run([PY, "-c", "import pyiga, pyiga.assemble, pyiga.hierarchical; print(pyiga.__file__)"], wt, env)
        res["imports_from"] = out.strip().splitlines()[-1] if out.strip() else ""
        shutil.copy2(demo, os.path.join(wt, "_demo.py"))
        rc, out, dt = run([PY, "_demo.py"], wt, env, timeout=1800)
        res["demo_with_change"] = {"exit": rc, "seconds": round(dt), "tail": out.strip().splitlines()[-2:]}
        # demo on the unchanged tree
        env0 = dict(os.environ, XDG_CACHE_HOME=cache + "-clean", PYTHONPATH="/repo", OMP_NUM_THREADS="1", PYTHONDONTWRITEBYTECODE="1")
        shutil.copy2(demo, "/tmp/seedeval/_demo_%s.py" % name)
        rc, out, dt = run([PY, "/tmp/seedeval/_demo_%s.py" % name], "/repo", env0, timeout=1800)
        os.remove("/tmp/seedeval/_demo_%s.py" % name)
        res["demo_unchanged"] = {"exit": rc, "seconds": round(dt), "tail": out.strip().splitlines()[-2:]}
        if "--no-tests" not in sys.argv:
            rc, out, dt = run([PY, "-m", "pytest", "-q", "-p", "no:cacheprovider", "-n", "6", "--timeout=900"], wt, env, timeout=5400)
            m = re.findall(r"(\d+) passed", out)
            f = re.findall(r"(\d+) failed", out)
            res["tests_with_change"] = {"exit": rc, "passed": int(m[-1]) if m else 0, "failed": int(f[-1]) if f else 0, "seconds": round(dt),
                                        "summary": [l for l in out.strip().splitlines() if " passed" in l or " failed" in l][-1:]}
    finally:
        subprocess.run(["git", "-C", "/repo", "worktree", "remove", "--force", wt], capture_output=True)
        shutil.rmtree(wt, ignore_errors=True)
        shutil.rmtree(cache, ignore_errors=True)
        shutil.rmtree(cache + "-clean", ignore_errors=True)
    return finish(sd, res)


def finish(sd, res):
    ok = (res.get("patch_applies") and res.get("demo_with_change", {}).get("exit", 0) != 0 and res.get("demo_unchanged", {}).get("exit", 1) == 0
          and ("tests_with_change" not in res or (res["tests_with_change"]["passed"] == 191 and res["tests_with_change"]["failed"] == 0)))
    res["confirmed"] = bool(ok)
    with open(os.path.join(sd, "confirm.json"), "w") as f:
        json.dump(res, f, indent=1)
    print(json.dumps(res)[:1500])
    return 0


if __name__ == "__main__":
    sys.exit(main())
