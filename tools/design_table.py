#!/usr/bin/env python3
"""regenerate the seed table in DESIGN.md (between the SEED-TABLE markers) from seeded/*/{eval,confirm}.json"""
import os, re, subprocess, sys
V = os.path.dirname(os.path.dirname(os.path.abspath(__file__)))
tab = subprocess.run([sys.executable, os.path.join(V, "tools", "seed_meta.py"), "--table"], capture_output=True, text=True, check=True).stdout
p = os.path.join(V, "DESIGN.md")
s = open(p).read()
s2 = re.sub(r"<!-- SEED-TABLE-BEGIN -->.*?<!-- SEED-TABLE-END -->", lambda m: "<!-- SEED-TABLE-BEGIN -->\n" + tab + "<!-- SEED-TABLE-END -->", s, flags=re.S)
open(p, "w").write(s2)
print("table rows:", tab.count("\n") - 2)
