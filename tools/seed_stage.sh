#!/bin/bash
# stage the output of a seeding agent: tools/seed_stage.sh <ID>   (reads /tmp/seed/<ID>/_out, removes the worktree)
id=$1
for k in 1 2; do
  o=/tmp/seed/$id/_out
  if [ -f $o/change$k.diff ] && [ -f $o/demo$k.py ]; then
    mkdir -p /verif/seeded/$id-$k
    cp $o/change$k.diff /verif/seeded/$id-$k/patch.diff
    cp $o/demo$k.py /verif/seeded/$id-$k/demo.py
    [ -f $o/notes$k.md ] && cp $o/notes$k.md /verif/seeded/$id-$k/notes.md
    echo staged $id-$k
  fi
done
git -C /repo worktree remove --force /tmp/seed/$id && rm -rf /tmp/seed/$id /tmp/seed/$id-cache && git -C /repo worktree prune
