#!/bin/bash
# stage the output of a seeding agent: tools/seed_stage.sh <ID> [basedir=/tmp/seed] [offset=0]
id=$1; base=${2:-/tmp/seed}; off=${3:-0}
for k in 1 2; do
  o=$base/$id/_out; n=$((k+off))
  if [ -f $o/change$k.diff ] && [ -f $o/demo$k.py ]; then
    mkdir -p /verif/seeded/$id-$n
    cp $o/change$k.diff /verif/seeded/$id-$n/patch.diff
    cp $o/demo$k.py /verif/seeded/$id-$n/demo.py
    [ -f $o/notes$k.md ] && cp $o/notes$k.md /verif/seeded/$id-$n/notes.md
    echo staged $id-$n
  fi
done
git -C /repo worktree remove --force $base/$id && rm -rf $base/$id $base/$id-cache && git -C /repo worktree prune
