#!/bin/bash
# prepare a second-round seeding worktree + prompt for property $1 under /tmp/seed5/<ID>
id=$1
mkdir -p /tmp/seed5
wt=/tmp/seed5/$id
git -C /repo worktree add -q --detach $wt HEAD || exit 1
cp /repo/pyiga/*.so $wt/pyiga/
mkdir -p $wt-cache
sed "s#/tmp/seed/$id#/tmp/seed5/$id#g" /tmp/seed/$id.prompt.txt > /tmp/seed5/$id.prompt.txt
python3 - "$id" <<'PY'
import sys, os
sys.path.insert(0, "/verif/tools")
import seed_meta
id = sys.argv[1]
prev = [v[1] for k, v in sorted(seed_meta.SEEDS.items()) if k.startswith(id + "-")]
p = "/tmp/seed5/%s.prompt.txt" % id
s = open(p).read()
extra = ("\n\nIMPORTANT ADDITIONAL CONSTRAINT: earlier contributors have already delivered the following changes for this property; "
         "yours must be in DIFFERENT functions and use DIFFERENT mechanisms (do not vary these ideas):\n"
         + "".join("  - %s\n" % t for t in prev)
         + "Aim for clauses of the property statement that these do not touch, and for changes that only manifest after a specific "
           "sequence of operations, in a rarely used configuration, or through the interaction of two code sites.\n")
s = s.replace("\nTHE PROPERTY:", extra + "\nTHE PROPERTY:", 1)
open(p, "w").write(s)
PY
echo prepared $wt
