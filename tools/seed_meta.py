#!/usr/bin/env python3
"""Write /verif/seeded/<name>/meta.json from the hand-written table below plus the machine-produced eval.json
(which checks reported the change: tools/seed_eval.py) and confirm.json (demonstration fails with / passes
without the change, test suite still 191 passed: tools/seed_confirm.py).  Prints the catch table (markdown).

usage: seed_meta.py [--table]
"""
import json
import os
import sys

VERIF = os.path.dirname(os.path.dirname(os.path.abspath(__file__)))

# name -> (property, one-line description of the change, what it needs to manifest)
SEEDS = {
    "C01-1": ("C01", "vform._geo_hess_trf memoisation key drops the second derivative index",
              "a form with two different second physical derivatives (e.g. full Hessian) on a geometry with non-zero second derivatives, dim >= 2"),
    "C01-2": ("C01", "number of Gauss nodes taken from the trial space only",
              "Petrov-Galerkin form whose test space has a higher degree than the trial space"),
    "C02-1": ("C02", "dropped terms in the derivative recursion of the C kernel",
              "derivative order >= 3 (degree >= 3) through the array (active_deriv) route"),
    "C02-2": ("C02", "absolute rounding tolerance in the right-end special case of the span search",
              "knot vector with a tiny last span (length < tolerance) and an evaluation point inside it"),
    "C03-1": ("C03", "coarse neighbour sets computed from active cells instead of supports of active functions",
              "hierarchical mesh where an active coarse function overlaps refined cells without owning an active coarse cell there"),
    "C03-2": ("C03", "HSpace index caches invalidated only when a level is added",
              "query an index cache, then refine inside the existing levels, then assemble with the same object"),
    "C04-1": ("C04", "closed-form table of functions supported in a span",
              "repeated interior knots (multiplicity >= 2) in a hierarchical level"),
    "C04-2": ("C04", "recursion step of the disparity-preserving marking",
              "a chain of >= 4 levels where the marked cell's support extension reaches two levels down"),
    "C05-1": ("C05", "HSpace.refine keeps stale index caches when no function was deactivated",
              "warm caches, then a refinement that only splits cells (deactivates no function), then prolongation/representation"),
    "C05-2": ("C05", "HSpace.boundary drops the knot vector of the mirrored axis",
              "2D space with different knot vectors per axis; boundary of side (0, *)"),
    "C06-1": ("C06", "order-independent hash for all scalar binary operators (CSE merges a-b with b-a)",
              "one form containing both a-b and b-a (or p/q and q/p) of the same operands"),
    "C06-2": ("C06", "cache key of the geometry-Hessian correction term uses i+j",
              "dim 3, a form using both d2/dx0dx2 and d2/dx1^2 (full Hessian), non-affine geometry"),
    "C07-1": ("C07", "NURBS Hessian linearised with tril_indices instead of triu_indices",
              "3D NurbsFunc with non-constant weights, grid_hessian components xz / yy"),
    "C07-2": ("C07", "scattered points flattened with ravel(order='K')",
              "coordinate arrays with >= 2 axes that are not C-ordered (Fortran order, transposed views)"),
    "C08-1": ("C08", "ml_nonzero_nd ravels the column multi-index with the row block sizes",
              "3D vector-valued bilinear form with numcomp_u != numcomp_v in layout 'packed' (any format but bsr)"),
    "C08-2": ("C08", "generated update() refreshes only one array per updatable input field",
              "updatable field used through two derivative orders (f and grad f), then update to a different field"),
    "C09-1": ("C09", "floor instead of ceil in the default Gauss order of the asymmetric 1D assembler",
              "asymmetric 1D routine, default nqp, p1+p2-du-dv even and >= 2, entrywise comparison"),
    "C09-2": ("C09", "3D fast assembler uses the bandwidth of axis 1 for the sparsity pattern of axis 2",
              "3D fast assembler with a geometry and kvs[2].p > kvs[1].p"),
    "C10-1": ("C10", "scatter instead of gather when sorting the Dirichlet values",
              "per-dof values, index list whose sorting permutation has a cycle of length >= 3"),
    "C10-2": ("C10", "late-binding closure when wrapping constant boundary data",
              "compute_dirichlet_bcs with >= 2 conditions, a non-last one a plain scalar differing from the last"),
    "C11-1": ("C11", "HSpace index caches only invalidated when a level is added",
              "adaptive loop: query dirichlet/smoothing indices, refine within existing levels, query again"),
    "C11-2": ("C11", "indexed sparse Gauss-Seidel kernel skips rows with a negative diagonal",
              "gauss_seidel with an index subset on a sparse matrix with a negative diagonal entry"),
    "C12-1": ("C12", "stale FSAL derivative after a rejected step of the adaptive controller",
              "adaptive ESDIRK run with at least one rejected step"),
    "C12-2": ("C12", "Rosenbrock system-matrix factorisation cached with a key that forgets the state",
              "nonlinear right-hand side (state-dependent Jacobian), >= 2 consecutive steps of equal size"),
    "C13-1": ("C13", "space index / component count of basis functions dropped from the form hash",
              "two forms differing only in the space index or the number of components of a basis function, compiled in one process/cache"),
    "C13-2": ("C13", "transposed inverse Jacobian in the space-time branch of the generator; shipped assemblers stale",
              "regenerating the shipped space-time assemblers (or a custom 3D space-time form) on a non-symmetric Jacobian"),
    "C14-1": ("C14", "merged shared dof forgets the members it absorbed",
              ">= 6 patches around a vertex joined in an order that merges three independently created classes"),
    "C14-2": ("C14", "interface detection reports the in-face flips in reversed axis order",
              "3D patches whose common face is mirrored in exactly one in-face direction"),
    "C15-1": ("C15", "compute_sparsity_ij uses the degree of the first space for both supports",
              "MLStructure.from_kvs with different degrees in the two spaces"),
    "C15-2": ("C15", "ml_nonzero_3d(lower_tri=True) skips outer blocks above the diagonal",
              "3-level structure with rectangular blocks and lower_tri=True"),
    "C16-1": ("C16", "apply_tprod: identity placeholder cycles the last axis",
              "ops containing None together with trailing axes"),
    "C16-2": ("C16", "_apply_kronecker_linops: scratch buffers take the dtype of the argument",
              "column-major path (non-dense square factor or Kronecker solver), >= 2 factors, non-float64 argument and non-integer results"),
    "C17-1": ("C17", "load vector of inner_products loses abs() of the Jacobian determinant",
              "geometry with negative Jacobian determinant"),
    "C17-2": ("C17", "approx.interpolate reuses the collocation solver of an axis with an equal knot vector",
              "dim >= 2, two axes with equal knot vectors and different custom node arrays"),
    "C18-1": ("C18", "find_truncation_rank forgets the error already discarded",
              "gradually decaying core spectrum and a tolerance between the single-slice and the accumulated error"),
    "C18-2": ("C18", "gta no longer skips directions that are already in the basis",
              "a mode saturated before the greedy loop ends (short axis, unequal ranks, R above the exact rank)"),
    "C19-1": ("C19", "findspan exact-knot shortcut handles double knots only",
              "degree >= 3, interior knot of multiplicity >= 3, u bit-exactly on the knot"),
    "C19-2": ("C19", "refine() merges new knots with searchsorted/insert",
              "two new knots in the same old span listed in decreasing order"),
    "C20-1": ("C20", "cache entries without a checksum file are trusted",
              "two faults on one entry: checksum file missing AND shared object damaged in its loaded part"),
    "C20-2": ("C20", "loser of a publishing race checks the wrong file and overwrites the completed entry",
              "two processes building the same uncached form concurrently"),
    # ---- second round (the seeding agents were told which mechanisms the first round had used) -----------------------------
    "C01-3": ("C01", "generated code drops the parentheses around products (x/(a*b) emitted as x/a*b)",
              "a quotient whose divisor is a product after finalize(), or a negative integer power < -1"),
    "C01-4": ("C01", "constant folding of x - (-y) keeps the minus sign",
              "a binary minus whose right operand folds to a negation (x - (-1)*y, y/-1)"),
    "C02-3": ("C02", "scalar form of active_deriv returns a shared module-level result table",
              "keep the table of one scalar call, make another scalar call with the same degree/numderiv, read the first table again"),
    "C02-4": ("C02", "BSplineFunc.grid_hessian reads the grid shape from the reversed axis list",
              "tensor grid with different numbers of points per axis"),
    "C03-3": ("C03", "HMesh.function_children memoised per index, forgetting the axis",
              "anisotropic space (different degree or span count per direction) and interlevel blocks"),
    "C03-4": ("C03", "HDiscretization.assemble_matrix no longer restores the truncate flag when the nested assembly raises",
              "THB space, a first assemble_matrix() that raises, then a retry on the same object"),
    "C04-3": ("C04", "HSpace.refine activates candidates by looking at the corner cells of their support only",
              "degree >= 3 and a non-convex refinement region (gap narrower than a support)"),
    "C04-4": ("C04", "truncate_one_level returns the identity when level k has no active functions",
              "an intermediate level without active functions while coarser functions overlap level k+1"),
    "C05-3": ("C05", "HMesh.add_level shares 1D prolongators under a key that forgets the knots",
              "dim >= 2, directions with equal degree and dof count but different breakpoints"),
    "C05-4": ("C05", "HSpace.prolongate_to stops as soon as nothing lands on active functions of a level",
              "fine space >= 2 levels deeper with an intermediate level that has no active functions in the replaced region"),
    "C06-3": ("C06", "swapped loop bounds in vector-component substitution",
              "bilinear form whose trial and test functions have different numbers of components"),
    "C06-4": ("C06", "ConstExpr.is_constant uses np.isclose",
              "literal coefficients within 1e-5 of +-1 or below 1e-8 in magnitude"),
    "C07-3": ("C07", "_BoundaryFunction.eval inserts the fixed coordinate one slot too far",
              "boundary of a UserFunction / restricted spline, single-point evaluation, boundary axis != 0"),
    "C07-4": ("C07", "_prepare_for_outer pads the value shape on the wrong side",
              "outer_sum/outer_product of factors with non-scalar value shapes of different rank"),
    "C08-3": ("C08", "transpose-index cache keyed on (rows, nnz) only",
              "symmetric vector-valued assembly with two different 1D sparsity patterns of equal size and nnz in one process"),
    "C08-4": ("C08", "symmetric vector kernel's skip test checks only the preceding level",
              "3D vector-valued bilinear form with symmetric=True"),
    "C09-3": ("C09", "make_iterated_quadrature memoised without copying; the weighted 1D assembler scales the weights in place",
              "a 1D assembly with weightfunc followed by any assembly on the same mesh and nqp in the same process"),
    "C09-4": ("C09", "inner_products uses det J instead of |det J|",
              "orientation-reversing geometry"),
    "C10-3": ("C10", "Multipatch.compute_dirichlet_bcs reuses the previous patch's index map on a cache hit",
              "condition list in which a patch re-appears after a different patch"),
    "C10-4": ("C10", "compute_initial_condition_01 stores the two coefficient rows in swapped slices on the upper face",
              "bdspec (time axis, 1)"),
    "C11-3": ("C11", "gauss_seidel treats a CSC matrix as CSR of the transpose",
              "non-symmetric matrix passed in CSC format"),
    "C11-4": ("C11", "iterative_solve drops active_dofs from the starting residual when x0 is None",
              "x0=None, active_dofs given, right-hand side with weight on the excluded dofs"),
    "C12-3": ("C12", "dirk_step decides stiff accuracy from row -2 of the tableau",
              "user tableau with an embedded row that is not stiffly accurate"),
    "C12-4": ("C12", "constant-step driver appends the time before the step is attempted",
              "a constant-step run in which Newton fails in some step"),
    "C13-3": ("C13", "VForm.hash combines the term hashes as a frozenset (multiplicity lost)",
              "the same term added twice vs once, both requested in one process (or one of them predefined)"),
    "C13-4": ("C13", "VForm.add only refuses modification once the form is finalized, hash() stays memoised",
              "add, hash(), add, compile on one VForm"),
    "C14-3": ("C14", "Multipatch.compute_dirichlet_bcs reuses the previous patch's index map on a cache hit",
              "condition list in which a patch re-appears after a different patch"),
    "C14-4": ("C14", "join_boundaries computes the second face's dofs in the first patch's space",
              "patches with different tensor-product spaces, second face not 'bottom'"),
    "C15-3": ("C15", "MLStructure.nonzero returns views into the structure's pattern for one level",
              "L == 1 and a caller that shifts the returned arrays in place, then uses the structure again"),
    "C15-4": ("C15", "generic MLMatrix._matvec caches its CSR matrix and the data setter never invalidates it",
              "L in {1, >=4}: product, assign new data, product again"),
    "C16-3": ("C16", "make_solver factorises with overwrite_a=True",
              "column-major dense matrix, spd=False, the matrix object used again (second solver, Kronecker solver with the same factor twice)"),
    "C16-4": ("C16", "BaseBlockOperator._adjoint keeps the block positions",
              ".H / rmatvec of a block operator with an off-diagonal block"),
    "C17-3": ("C17", "project_L2 drops f_physical on the hierarchical path",
              "HSpace, non-identity geometry and f_physical=True together"),
    "C17-4": ("C17", "absolute tolerance 1e-12 in the CG solve of the geometry branch of project_L2",
              "non-affine geometry on a small physical domain (|det J| << 1)"),
    "C18-3": ("C18", "aca3d_update takes the innermost loop bound from the wrong axis",
              "3D tensor with shape[2] != shape[1]"),
    "C18-4": ("C18", "TuckerTensor.squeeze squeezes all singleton core axes",
              "Tucker tensor with multilinear rank 1 on a kept mode, scalar index on another mode"),
    "C19-3": ("C19", "make_knots no longer pins the last breakpoint to b",
              "particular (a, b, n), e.g. [0,1] with n = 49, 98, 103"),
    "C19-4": ("C19", "Spline.derivative() caches its result",
              "derivative(), change the coefficients, derivative() again on the same object"),
    "C20-3": ("C20", "stale-build cleanup removes the build directories of concurrent live builds",
              "a damaged cache entry and two processes rebuilding it concurrently"),
    "C20-4": ("C20", "checksum computed through mmap (fails on empty files with ValueError)",
              "zero-length shared object whose checksum file still exists"),
    # ---- third round (one change per agent) ----
    "C02-5": ("C02", "tp_bsp_eval_pointwise flattens the coordinate arrays with ravel(order='K')",
              "scattered evaluation of a tensor-product spline with coordinate arrays of >= 2 axes that are not C-ordered"),
    "C12-5": ("C12", "two digits transposed in one Gamma coefficient (g32) of the ROSI2P1 tableau",
              "method rosi2p1 on a problem with non-zero Jacobian; only the Gamma-dependent order conditions / the convergence rate see it"),
    "C14-5": ("C14", "Multipatch.finalize no longer stores the compacted list of shared dofs (dead local assignment)",
              "a join order that merges two existing classes (interior cross point, 8 of 24 orders on 2x2), then finalize / numdofs / a second finalize"),
    "C15-5": ("C15", "nonzeros_for_rows(renumber_rows=True) numbers the rows by counting changes of the row index",
              "a requested row without nonzeros (level pattern with an empty row) followed by a non-empty one; kron_partial(restrict=True)"),
    "C16-5": ("C16", "modek_tprod puts the new axis back with swapaxes instead of moveaxis on the operator path",
              "sparse matrix or LinearOperator factor, mode k >= 2 (tensor of order >= 3)"),
    "C17-5": ("C17", "bspline.load_vector uses p instead of p+1 Gauss nodes per span",
              "1D bspline.project_L2 / load_vector of a non-constant spline of the space, checked to rounding accuracy"),
    "C18-5": ("C18", "modek_tprod puts the new axis back with swapaxes instead of moveaxis on the operator path",
              "sparse matrix or LinearOperator factor, mode k >= 2 (tensor of order >= 3)"),
    "C19-5": ("C19", "greville() sums first and divides afterwards, clamp to the domain removed",
              "degree 3, 5 or 6 and an interval end whose p-fold sum divided by p does not round back (e.g. [0.1,0.7], p=6)"),
    "C07-5": ("C07", "NurbsFunc.as_vector of a scalar NURBS reuses the premultiplied coefficient array as plain coefficients",
              "scalar NurbsFunc with non-constant weights, as_vector() and everything built on it"),
    "C08-5": ("C08", "MLMatrix._matvec (2/3 levels) returns a per-object output buffer that the next product overwrites",
              "format='mlb' (vector-valued form, 1D/2D), two products with the same operator while the first result is still held"),
    "C03-5": ("C03", "HSpace.ravel_indices flattens multi-indices with the per-level dof counts in reversed axis order",
              "anisotropic level spaces (different numbers of dofs per direction) in dim >= 2"),
    "C05-5": ("C05", "coeffs_to_levelwise_funcs treats an explicit truncate=False like 'not given' (truncate or self.truncate)",
              "THB space (hs.truncate=True) evaluated with an explicit truncate=False (HSplineFunc / grid_eval of HB coefficients)"),
    "C06-5": ("C06", "quotient rule drops the parametric-derivative flag for the numerator",
              "parametric derivative (Dx(..., parametric=True)) of a quotient whose numerator depends on the position, non-identity geometry"),
    "C09-5": ("C09", "inner_products takes the number of Gauss nodes from the last knot vector only",
              "dim >= 2 and a last knot vector of lower degree than another axis, e.g. p=(4,1)"),
    "C10-5": ("C10", "RestrictedLinearSystem.restrict_matrix swaps the row and column selection operators",
              "elim_rows given and different (as a set) from the constrained dof indices"),
    "C11-5": ("C11", "local_mg_step 'exact' smoother computes the residual from the local block only",
              "local multigrid with smoother='exact' and a non-zero iterate outside the smoothing set (second level / second cycle)"),
}


def main():
    rows = []
    for name, (prop, change, needs) in sorted(SEEDS.items()):
        sd = os.path.join(VERIF, "seeded", name)
        if not os.path.isdir(sd):
            continue
        ev, cf = {}, {}
        try:
            ev = json.load(open(os.path.join(sd, "eval.json")))
        except Exception:
            pass
        try:
            cf = json.load(open(os.path.join(sd, "confirm.json")))
        except Exception:
            pass
        checks = ev.get("checks", ev) if isinstance(ev, dict) else {}
        caught = sorted(k for k, v in checks.items() if isinstance(v, dict) and v.get("violations", 0) > 0 and v.get("exit") == 1)
        missed = sorted(k for k, v in checks.items() if isinstance(v, dict) and v.get("exit") == 0)
        broken = sorted(k for k, v in checks.items() if isinstance(v, dict) and v.get("exit") not in (0, 1))
        meta = {
            "name": name,
            "breaks_property": prop,
            "change": change,
            "needs_to_manifest": needs,
            "files": {"patch": "patch.diff", "demonstration": "demo.py", "author_notes": "notes.md"},
            "confirmed": bool(cf.get("confirmed")),
            "what_i_ran": {
                "confirmation": "tools/seed_confirm.py %s: scratch worktree of /repo HEAD %s under /tmp/seedeval, git apply patch.diff, "
                                "rebuild if native sources changed, demo.py with the change (exit %s), demo.py on unchanged /repo (exit %s), "
                                "pytest -n 6 with the change (%s passed, %s failed)"
                                % (name, cf.get("repo_head"), cf.get("demo_with_change", {}).get("exit"), cf.get("demo_unchanged", {}).get("exit"),
                                   cf.get("tests_with_change", {}).get("passed"), cf.get("tests_with_change", {}).get("failed")),
                "evaluation": "tools/seed_eval.py: ./vcheck <ID> (quick tier unless noted) with VERIF_REPO pointing at a scratch worktree carrying the patch",
            },
            "checks_reporting_it": caught,
            "checks_silent": missed,
            "checks_harness_error": broken,
            "first_messages": {k: (v.get("what") or [])[:1] for k, v in checks.items() if isinstance(v, dict) and v.get("what")},
        }
        with open(os.path.join(sd, "meta.json"), "w") as f:
            json.dump(meta, f, indent=1)
            f.write("\n")
        rows.append((name, prop, change, needs, caught, missed, broken, meta["confirmed"]))
    if "--table" in sys.argv:
        print("| seed | breaks | change | needs | reported by | silent | confirmed |")
        print("|---|---|---|---|---|---|---|")
        for name, prop, change, needs, caught, missed, broken, conf in rows:
            print("| %s | %s | %s | %s | %s | %s | %s |" % (name, prop, change, needs, ", ".join(caught) or "-",
                                                             ", ".join(missed + ["%s(error)" % b for b in broken]) or "-", "yes" if conf else "NO"))
    else:
        for r in rows:
            print(r[0], "caught_by=%s" % r[4], "silent=%s" % r[5], "err=%s" % r[6], "confirmed=%s" % r[7])


if __name__ == "__main__":
    main()
