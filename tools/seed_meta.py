#!/usr/bin/env python3
"""Write /verif/seeded/<name>/meta.json from the hand-written table below plus the machine-produced eval.json
(which checks reported the change: tools/seed_eval.py) and confirm.json (demonstration fails with / passes
without the change, test suite still 191 passed: tools/seed_confirm.py).  Prints the catch table (markdown).

usage: seed_meta.py [--table]
"""
import json
import os
import sys

VERIF = os.path.dirname(os.path.dirname(os.path.abspath(__file__)))

# name -> (property, one-line description of the change, what it needs to manifest)
SEEDS = {
    "C01-1": ("C01", "vform._geo_hess_trf memoisation key drops the second derivative index",
              "a form with two different second physical derivatives (e.g. full Hessian) on a geometry with non-zero second derivatives, dim >= 2"),
    "C01-2": ("C01", "number of Gauss nodes taken from the trial space only",
              "Petrov-Galerkin form whose test space has a higher degree than the trial space"),
    "C02-1": ("C02", "dropped terms in the derivative recursion of the C kernel",
              "derivative order >= 3 (degree >= 3) through the array (active_deriv) route"),
    "C02-2": ("C02", "absolute rounding tolerance in the right-end special case of the span search",
              "knot vector with a tiny last span (length < tolerance) and an evaluation point inside it"),
    "C03-1": ("C03", "coarse neighbour sets computed from active cells instead of supports of active functions",
              "hierarchical mesh where an active coarse function overlaps refined cells without owning an active coarse cell there"),
    "C03-2": ("C03", "HSpace index caches invalidated only when a level is added",
              "query an index cache, then refine inside the existing levels, then assemble with the same object"),
    "C04-1": ("C04", "closed-form table of functions supported in a span",
              "repeated interior knots (multiplicity >= 2) in a hierarchical level"),
    "C04-2": ("C04", "recursion step of the disparity-preserving marking",
              "a chain of >= 4 levels where the marked cell's support extension reaches two levels down"),
    "C05-1": ("C05", "HSpace.refine keeps stale index caches when no function was deactivated",
              "warm caches, then a refinement that only splits cells (deactivates no function), then prolongation/representation"),
    "C05-2": ("C05", "HSpace.boundary drops the knot vector of the mirrored axis",
              "2D space with different knot vectors per axis; boundary of side (0, *)"),
    "C06-1": ("C06", "order-independent hash for all scalar binary operators (CSE merges a-b with b-a)",
              "one form containing both a-b and b-a (or p/q and q/p) of the same operands"),
    "C06-2": ("C06", "cache key of the geometry-Hessian correction term uses i+j",
              "dim 3, a form using both d2/dx0dx2 and d2/dx1^2 (full Hessian), non-affine geometry"),
    "C07-1": ("C07", "NURBS Hessian linearised with tril_indices instead of triu_indices",
              "3D NurbsFunc with non-constant weights, grid_hessian components xz / yy"),
    "C07-2": ("C07", "scattered points flattened with ravel(order='K')",
              "coordinate arrays with >= 2 axes that are not C-ordered (Fortran order, transposed views)"),
    "C08-1": ("C08", "ml_nonzero_nd ravels the column multi-index with the row block sizes",
              "3D vector-valued bilinear form with numcomp_u != numcomp_v in layout 'packed' (any format but bsr)"),
    "C08-2": ("C08", "generated update() refreshes only one array per updatable input field",
              "updatable field used through two derivative orders (f and grad f), then update to a different field"),
    "C09-1": ("C09", "floor instead of ceil in the default Gauss order of the asymmetric 1D assembler",
              "asymmetric 1D routine, default nqp, p1+p2-du-dv even and >= 2, entrywise comparison"),
    "C09-2": ("C09", "3D fast assembler uses the bandwidth of axis 1 for the sparsity pattern of axis 2",
              "3D fast assembler with a geometry and kvs[2].p > kvs[1].p"),
    "C10-1": ("C10", "scatter instead of gather when sorting the Dirichlet values",
              "per-dof values, index list whose sorting permutation has a cycle of length >= 3"),
    "C10-2": ("C10", "late-binding closure when wrapping constant boundary data",
              "compute_dirichlet_bcs with >= 2 conditions, a non-last one a plain scalar differing from the last"),
    "C11-1": ("C11", "HSpace index caches only invalidated when a level is added",
              "adaptive loop: query dirichlet/smoothing indices, refine within existing levels, query again"),
    "C11-2": ("C11", "indexed sparse Gauss-Seidel kernel skips rows with a negative diagonal",
              "gauss_seidel with an index subset on a sparse matrix with a negative diagonal entry"),
    "C12-1": ("C12", "stale FSAL derivative after a rejected step of the adaptive controller",
              "adaptive ESDIRK run with at least one rejected step"),
    "C12-2": ("C12", "Rosenbrock system-matrix factorisation cached with a key that forgets the state",
              "nonlinear right-hand side (state-dependent Jacobian), >= 2 consecutive steps of equal size"),
    "C13-1": ("C13", "space index / component count of basis functions dropped from the form hash",
              "two forms differing only in the space index or the number of components of a basis function, compiled in one process/cache"),
    "C13-2": ("C13", "transposed inverse Jacobian in the space-time branch of the generator; shipped assemblers stale",
              "regenerating the shipped space-time assemblers (or a custom 3D space-time form) on a non-symmetric Jacobian"),
    "C14-1": ("C14", "merged shared dof forgets the members it absorbed",
              ">= 6 patches around a vertex joined in an order that merges three independently created classes"),
    "C14-2": ("C14", "interface detection reports the in-face flips in reversed axis order",
              "3D patches whose common face is mirrored in exactly one in-face direction"),
    "C15-1": ("C15", "compute_sparsity_ij uses the degree of the first space for both supports",
              "MLStructure.from_kvs with different degrees in the two spaces"),
    "C15-2": ("C15", "ml_nonzero_3d(lower_tri=True) skips outer blocks above the diagonal",
              "3-level structure with rectangular blocks and lower_tri=True"),
    "C16-1": ("C16", "apply_tprod: identity placeholder cycles the last axis",
              "ops containing None together with trailing axes"),
    "C16-2": ("C16", "_apply_kronecker_linops: scratch buffers take the dtype of the argument",
              "column-major path (non-dense square factor or Kronecker solver), >= 2 factors, non-float64 argument and non-integer results"),
    "C17-1": ("C17", "load vector of inner_products loses abs() of the Jacobian determinant",
              "geometry with negative Jacobian determinant"),
    "C17-2": ("C17", "approx.interpolate reuses the collocation solver of an axis with an equal knot vector",
              "dim >= 2, two axes with equal knot vectors and different custom node arrays"),
    "C18-1": ("C18", "find_truncation_rank forgets the error already discarded",
              "gradually decaying core spectrum and a tolerance between the single-slice and the accumulated error"),
    "C18-2": ("C18", "gta no longer skips directions that are already in the basis",
              "a mode saturated before the greedy loop ends (short axis, unequal ranks, R above the exact rank)"),
    "C19-1": ("C19", "findspan exact-knot shortcut handles double knots only",
              "degree >= 3, interior knot of multiplicity >= 3, u bit-exactly on the knot"),
    "C19-2": ("C19", "refine() merges new knots with searchsorted/insert",
              "two new knots in the same old span listed in decreasing order"),
    "C20-1": ("C20", "cache entries without a checksum file are trusted",
              "two faults on one entry: checksum file missing AND shared object damaged in its loaded part"),
    "C20-2": ("C20", "loser of a publishing race checks the wrong file and overwrites the completed entry",
              "two processes building the same uncached form concurrently"),
}


def main():
    rows = []
    for name, (prop, change, needs) in sorted(SEEDS.items()):
        sd = os.path.join(VERIF, "seeded", name)
        if not os.path.isdir(sd):
            continue
        ev, cf = {}, {}
        try:
            ev = json.load(open(os.path.join(sd, "eval.json")))
        except Exception:
            pass
        try:
            cf = json.load(open(os.path.join(sd, "confirm.json")))
        except Exception:
            pass
        checks = ev.get("checks", ev) if isinstance(ev, dict) else {}
        caught = sorted(k for k, v in checks.items() if isinstance(v, dict) and v.get("violations", 0) > 0 and v.get("exit") == 1)
        missed = sorted(k for k, v in checks.items() if isinstance(v, dict) and v.get("exit") == 0)
        broken = sorted(k for k, v in checks.items() if isinstance(v, dict) and v.get("exit") not in (0, 1))
        meta = {
            "name": name,
            "breaks_property": prop,
            "change": change,
            "needs_to_manifest": needs,
            "files": {"patch": "patch.diff", "demonstration": "demo.py", "author_notes": "notes.md"},
            "confirmed": bool(cf.get("confirmed")),
            "what_i_ran": {
                "confirmation": "tools/seed_confirm.py %s: scratch worktree of /repo HEAD %s under /tmp/seedeval, git apply patch.diff, "
                                "rebuild if native sources changed, demo.py with the change (exit %s), demo.py on unchanged /repo (exit %s), "
                                "pytest -n 6 with the change (%s passed, %s failed)"
                                % (name, cf.get("repo_head"), cf.get("demo_with_change", {}).get("exit"), cf.get("demo_unchanged", {}).get("exit"),
                                   cf.get("tests_with_change", {}).get("passed"), cf.get("tests_with_change", {}).get("failed")),
                "evaluation": "tools/seed_eval.py: ./vcheck <ID> (quick tier unless noted) with VERIF_REPO pointing at a scratch worktree carrying the patch",
            },
            "checks_reporting_it": caught,
            "checks_silent": missed,
            "checks_harness_error": broken,
            "first_messages": {k: (v.get("what") or [])[:1] for k, v in checks.items() if isinstance(v, dict) and v.get("what")},
        }
        with open(os.path.join(sd, "meta.json"), "w") as f:
            json.dump(meta, f, indent=1)
            f.write("\n")
        rows.append((name, prop, change, needs, caught, missed, broken, meta["confirmed"]))
    if "--table" in sys.argv:
        print("| seed | breaks | change | needs | reported by | silent | confirmed |")
        print("|---|---|---|---|---|---|---|")
        for name, prop, change, needs, caught, missed, broken, conf in rows:
            print("| %s | %s | %s | %s | %s | %s | %s |" % (name, prop, change, needs, ", ".join(caught) or "-",
                                                             ", ".join(missed + ["%s(error)" % b for b in broken]) or "-", "yes" if conf else "NO"))
    else:
        for r in rows:
            print(r[0], "caught_by=%s" % r[4], "silent=%s" % r[5], "err=%s" % r[6], "confirmed=%s" % r[7])


if __name__ == "__main__":
    main()
