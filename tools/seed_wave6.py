#!/usr/bin/env python3
"""prepare a third-round seeding worktree + prompt for property <ID> under /tmp/seed6/<ID> (ONE change per agent)."""
import json, os, subprocess, sys, shutil
sys.path.insert(0, os.path.dirname(os.path.abspath(__file__)))
import seed_meta
VERIF = os.path.dirname(os.path.dirname(os.path.abspath(__file__)))
id = sys.argv[1]
wt = "/tmp/seed6/%s" % id
os.makedirs("/tmp/seed6", exist_ok=True)
subprocess.run(["git", "-C", "/repo", "worktree", "add", "-q", "--detach", wt, "HEAD"], check=True)
for f in os.listdir("/repo/pyiga"):
    if f.endswith(".so"):
        shutil.copy2("/repo/pyiga/" + f, wt + "/pyiga/" + f)
os.makedirs(wt + "-cache", exist_ok=True)
prop = None
for l in open(os.path.join(VERIF, "properties.jsonl")):
    d = json.loads(l)
    if d["id"] == id:
        prop = d
ex = open(os.path.join(VERIF, "seeded/_prompts/round1_example_C16.txt")).read()
head = ex.split("THE PROPERTY:")[0].replace("/tmp/seed/C16", wt)
head = head.replace("produce TWO different, independent, realistic changes (\"seeded defects\") to the library source, each of which BREAKS",
                    "produce ONE realistic change (a \"seeded defect\") to the library source which BREAKS")
head = head.replace("For each change k in {1,2} deliver", "For the change (k = 1) deliver")
assert "produce ONE" in head and "(k = 1)" in head
prev = [v[1] for k, v in sorted(seed_meta.SEEDS.items()) if k.startswith(id + "-")]
extra = ("\nIMPORTANT ADDITIONAL CONSTRAINT: earlier contributors have already delivered the following changes for this property; "
         "yours must be in a DIFFERENT function and use a DIFFERENT mechanism (do not vary these ideas):\n"
         + "".join("  - %s\n" % t for t in prev)
         + "Aim for a clause of the property statement that these do not touch, and for a change that only manifests after a specific "
           "sequence of operations, in a rarely used configuration, or through the interaction of two code sites. "
           "You have about 15 minutes in total: pick the idea within the first 3 minutes, write the demo next, and run the full test suite only once, on your final change (it takes 2-6 minutes).\n\n")
keys = [k for k in prop if k not in ("id", "title", "statement", "added_in_round", "source")]
body = "ID: %s\nTitle: %s\n\nStatement: %s\n\n" % (prop["id"], prop["title"], prop["statement"])
for k in keys:
    body += "%s: %s\n\n" % (k, prop[k] if isinstance(prop[k], str) else json.dumps(prop[k]))
p = "/tmp/seed6/%s.prompt.txt" % id
open(p, "w").write(head + extra + "THE PROPERTY:\n" + body + "\nFinal answer: a short summary of the change (file, what was changed, what it needs to manifest) and confirmation of the three command results.\n")
print("prepared", wt, p)
