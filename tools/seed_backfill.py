#!/usr/bin/env python3
"""merge RESULT lines of .cache/eval*_<name>.log into seeded/<name>/eval.json (older logs first)"""
import glob, json, os, re
V = os.path.dirname(os.path.dirname(os.path.abspath(__file__)))
logs = sorted(glob.glob(os.path.join(V, ".cache", "eval*_*.log")), key=os.path.getmtime)
for lg in logs:
    name = re.sub(r"^eval\d*_", "", os.path.basename(lg))[:-4]
    sd = os.path.join(V, "seeded", name)
    if not os.path.isdir(sd):
        continue
    for line in open(lg, errors="replace"):
        if line.startswith("RESULT "):
            r = json.loads(line[7:])
            p = os.path.join(sd, "eval.json")
            try:
                cur = json.load(open(p))
            except Exception:
                cur = {}
            for k, v in r["checks"].items():
                v = dict(v, tier=r.get("tier", "quick"), command="VERIF_REPO=<scratch worktree with patch.diff applied> ./vcheck %s --tier %s" % (k, r.get("tier", "quick")))
                if k not in cur or cur[k].get("_log_mtime", 0) <= os.path.getmtime(lg):
                    v["_log_mtime"] = os.path.getmtime(lg)
                    cur[k] = v
            json.dump(cur, open(p, "w"), indent=1)
