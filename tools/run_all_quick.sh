#!/bin/bash
# run every registered quick check against /repo (evidence is rewritten by the checks themselves); summary on stdout
cd "$(dirname "$0")/.."
mkdir -p .cache/final
rc=0
for id in ${@:-C01 C02 C03 C04 C05 C06 C07 C08 C09 C10 C11 C12 C13 C14 C15 C16 C17 C18 C19 C20}; do
  s=$(date +%s)
  ./vcheck $id --tier quick > .cache/final/$id.log 2>&1
  e=$?
  echo "$id exit=$e wall=$(( $(date +%s) - s ))s $(grep -c '^VIOLATION' .cache/final/$id.log) violations $(grep -c '^KNOWN-FINDING' .cache/final/$id.log) known"
  [ $e -ne 0 ] && rc=1
done
exit $rc
