#!/usr/bin/env python3
"""Evaluate checks against a seeded change without touching /repo: the patch is applied in a scratch worktree of
/repo (outside /repo and /verif), the checks run with VERIF_REPO pointing at it (same code path as for /repo:
rebuild from that working tree, tree-hash keyed compile cache), evidence/replays are redirected, and the
worktree is removed afterwards.

usage: seed_eval.py <patch.diff> <name> <PROP> [<PROP> ...] [--tier quick|thorough] [--keep]
"""
import json
import os
import shutil
import subprocess
import sys
import time

VERIF = os.path.dirname(os.path.dirname(os.path.abspath(__file__)))


def main():
    args = [a for a in sys.argv[1:] if not a.startswith("--")]
    tier = "quick"
    if "--tier" in sys.argv:
        tier = sys.argv[sys.argv.index("--tier") + 1]
        args.remove(tier)
    keep = "--keep" in sys.argv
    patch, name, props = os.path.abspath(args[0]), args[1], args[2:]
    wt = "/tmp/seedeval/%s" % name
    subprocess.run(["git", "-C", "/repo", "worktree", "remove", "--force", wt], capture_output=True)
    shutil.rmtree(wt, ignore_errors=True)
    os.makedirs("/tmp/seedeval", exist_ok=True)
    subprocess.run(["git", "-C", "/repo", "worktree", "add", "-q", "--detach", wt, "HEAD"], check=True)
    results = {"patch": patch, "tier": tier, "checks": {}}
    try:
        r = subprocess.run(["git", "-C", wt, "apply", patch], capture_output=True, text=True)
        if r.returncode != 0:
            print("PATCH DOES NOT APPLY:", r.stderr)
            return 3
        for f in os.listdir("/repo/pyiga"):
            if f.endswith(".so"):
                shutil.copy2(os.path.join("/repo/pyiga", f), os.path.join(wt, "pyiga", f))
        # compiled sources touched by the patch must be rebuilt: make them newer than the copied .so files
        changed = subprocess.run(["git", "-C", wt, "diff", "--name-only"], capture_output=True, text=True).stdout.split()
        now = time.time() + 2
        for c in changed:
            if c.endswith((".pyx", ".pxi", ".pxd", ".cc", ".h")):
                os.utime(os.path.join(wt, c), (now, now))
        env = dict(os.environ, VERIF_REPO=wt, VERIF_EVIDENCE_DIR=os.path.join(wt, "_evidence"),
                   VERIF_REPLAY_DIR=os.path.join(wt, "_replays"))
        for prop in props:
            t0 = time.time()
            r = subprocess.run([os.path.join(VERIF, "vcheck"), prop, "--tier", tier], capture_output=True, text=True, env=env, cwd=VERIF)
            lines = [l for l in r.stdout.splitlines() if l.startswith("VIOLATION") or l.strip().startswith("what:") or l.startswith("KNOWN-FINDING")]
            viol = [l for l in r.stdout.splitlines() if l.startswith("VIOLATION")]
            whats = [l.strip()[:400] for l in r.stdout.splitlines() if l.strip().startswith("what:")]
            results["checks"][prop] = {"exit": r.returncode, "violations": len(viol), "what": whats[:6], "wall_s": round(time.time() - t0, 1),
                                       "tail": r.stdout.splitlines()[-1:] + r.stderr.splitlines()[-3:]}
            print("%s exit=%d violations=%d (%.0fs)" % (prop, r.returncode, len(viol), time.time() - t0))
            for w in whats[:3]:
                print("   ", w[:300])
    finally:
        if not keep:
            subprocess.run(["git", "-C", "/repo", "worktree", "remove", "--force", wt], capture_output=True)
            shutil.rmtree(wt, ignore_errors=True)
    print("RESULT " + json.dumps(results))
    sd = os.path.join(VERIF, "seeded", name)
    if os.path.isdir(sd):
        path = os.path.join(sd, "eval.json")
        try:
            with open(path) as f:
                allres = json.load(f)
        except Exception:
            allres = {}
        head = subprocess.run(["git", "-C", VERIF, "rev-parse", "--short", "HEAD"], capture_output=True, text=True).stdout.strip()
        for prop, r in results["checks"].items():
            allres[prop] = dict(r, tier=tier, verif_commit=head, command="VERIF_REPO=<scratch worktree with patch.diff applied> ./vcheck %s --tier %s" % (prop, tier))
        with open(path, "w") as f:
            json.dump(allres, f, indent=1)
    return 0


if __name__ == "__main__":
    sys.exit(main())
