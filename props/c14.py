"""C14 -- multipatch gluing is the equivalence closure of the joins, in any order.

Part A (E1): explicit-state exploration of the real Multipatch under join_boundaries events (all
interfaces, both call orientations, repetition allowed) to closure; every transition is compared with a
union-find closure of the declared identifications.
Part B: detect_interfaces against a geometric reference for all patch-list permutations / reparametrisations.
Part C: conforming decompositions of a single patch give the same system as the undivided domain.
Part D: multipatch Dirichlet data address the glued dofs.
"""
import itertools

import numpy as np

from mc import explore, par
from mc.outcome import Outcome
from ref import mpatch as R

ID = "C14"
LEVEL = "model_checking"


# ------------------------------------------------------------------------------------------------
# configurations
# ------------------------------------------------------------------------------------------------

def reparam_apply(P, code):
    """code: string over {'f0','f1','f2','s'} separated by '+'; '' = identity"""
    if not code:
        return P
    for op in code.split("+"):
        if op == "s":
            P = P.swapped(0, 1)
        else:
            P = P.flipped(int(op[1]))
    return P


def make_complex(cfg):
    name, p, nsp = cfg["complex"], cfg["p"], cfg["nsp"]
    if name.startswith("grid"):
        shape = tuple(int(c) for c in name[4:].split("x"))
        patches = R.grid_complex(shape, nsp, p)
        if cfg.get("nsp_axes"):
            # spans per box column/row: nsp_axes[c][i] = spans along physical direction c of the boxes with index i in
            # that direction (conforming by construction, but the patches carry different tensor-product spaces)
            ax = cfg["nsp_axes"]
            k = 0
            for idx in itertools.product(*(range(n) for n in reversed(shape))):
                cell = tuple(reversed(idx))
                patches[k] = R.box_patch([float(c) for c in cell], [float(c + 1) for c in cell],
                                         [ax[c][cell[c]] for c in range(len(shape))], p)
                k += 1
    elif name.startswith("ring"):
        patches = R.ring_complex(int(name[4:]), nsp[0], p)
    elif name == "lshape":
        patches = R.lshape_complex(nsp, p)
    else:
        raise ValueError(name)
    rep = cfg.get("reparam") or [""] * len(patches)
    return [reparam_apply(P, code) for P, code in zip(patches, rep)]


def to_pyiga(patches):
    from pyiga import bspline
    out = []
    for P in patches:
        kv1 = bspline.make_knots(1, 0.0, 1.0, 1)
        geo = bspline.BSplineFunc((kv1,) * P.d, P.corners.copy())
        kvs = tuple(bspline.make_knots(P.p, 0.0, 1.0, n) for n in P.nsp)
        out.append((kvs, geo))
    return out


def events_for(patches):
    """every reference interface in both call orientations (the flip refers to the second patch's face
    axes; for flip-only matches the same flip tuple is valid in both orientations)"""
    intfs, unrep = R.reference_interfaces(patches)
    evs = []
    for (p1, bd1, p2, bd2, flip) in intfs:
        evs.append((p1, bd1, p2, bd2, flip))
    if len(intfs) <= 7:
        for (p1, bd1, p2, bd2, flip) in intfs:
            evs.append((p2, bd2, p1, bd1, flip))
    else:
        # large complexes: one call orientation per interface, alternating, to keep the menu at |interfaces|
        evs = [e if k % 2 == 0 else (e[2], e[3], e[0], e[1], e[4]) for k, e in enumerate(evs)]
    return evs, unrep


def configs(tier):
    cfgs = []
    def add(complex, p, nsp, reparam=None, nsp_axes=None):
        cfgs.append({"complex": complex, "p": p, "nsp": list(nsp), "reparam": reparam, "nsp_axes": nsp_axes})
    quick = tier == "quick"
    # 2D grids: all single-patch reparametrisations from D4 for the 2x2 complex
    d4 = ["", "f0", "f1", "f0+f1", "s", "s+f0", "s+f1", "s+f0+f1"]
    for p in (1, 2):
        add("grid2x1", p, (1, 1))
        add("grid2x2", p, (1, 2))
        add("lshape", p, (2, 1))
    # patches with different tensor-product spaces (different numbers of spans normal to the interfaces)
    add("grid2x1", 1, (1, 1), nsp_axes=[[1, 3], [2]])
    add("grid2x1", 2, (1, 1), nsp_axes=[[2, 1], [1]])
    add("grid2x2", 1, (1, 1), nsp_axes=[[1, 2], [3, 1]])
    add("grid2x2", 2, (1, 1), ["", "s", "f0", ""], nsp_axes=[[1, 2], [2, 1]])
    for k in range(4):
        for code in d4[1:]:
            rep = [""] * 4
            rep[k] = code
            if quick and (k, code) not in ((0, "f0"), (1, "s"), (2, "f0+f1"), (3, "s+f1")):
                continue
            add("grid2x2", 1, (1, 1), rep)
    add("grid2x2", 1, (1, 1), ["f0", "s", "f1", "s+f0+f1"])
    add("grid3x2", 1, (1, 1))
    for k in (3, 4, 5, 6):
        add("ring%d" % k, 1, (1, 1))      # six patches around a vertex: three independently created classes can meet
        if not quick or k <= 4:
            add("ring%d" % k, 2, (1, 1), ["f0" if j % 2 else "" for j in range(k)] if k % 2 == 0 else None)
    if not quick:
        add("grid3x2", 2, (2, 1))
        add("grid3x2", 1, (1, 1), ["f0", "", "s", "f1", "s+f0", ""])
        add("grid2x2x2", 1, (1, 1, 1))
        for k in range(8):
            rep = [""] * 8
            rep[k] = ("f0", "f1", "f2", "f0+f1", "f1+f2", "f0+f2", "f0+f1+f2", "f2")[k]
            add("grid2x2x2", 1, (1, 1, 1), rep)
    else:
        add("grid2x2x1", 1, (1, 1, 1), ["f0", "f1+f2", "", "f2"])
    return cfgs


# ------------------------------------------------------------------------------------------------
# Part A: gluing
# ------------------------------------------------------------------------------------------------

_G = {}


def _setup(cfg):
    from pyiga import assemble
    patches = make_complex(cfg)
    evs, unrep = events_for(patches)
    _G.clear()
    _G.update(cfg=cfg, patches=patches, py=to_pyiga(patches), events=evs, assemble=assemble,
              ndofs=[int(np.prod(P.ndofs)) for P in patches])
    return patches, evs, unrep


class _Failed:
    """a history on which a join call itself raised (the exception is the observation)"""
    def __init__(self, at, exc):
        self.at, self.exc = at, exc


def _build(history):
    mp = _G["assemble"].Multipatch(_G["py"], automatch=False)
    for k, e in enumerate(history):
        p1, bd1, p2, bd2, flip = _G["events"][e]
        try:
            mp.join_boundaries(p1, bd1, p2, bd2, flip)
        except Exception as exc:        # a legal join call must not raise
            return _Failed(k, exc)
    return mp


def _enabled(mp):
    if isinstance(mp, _Failed):
        return []
    return list(range(len(_G["events"])))


def _step(mp, ev, history):
    return _build(list(history) + [ev])


def _canon(mp):
    if isinstance(mp, _Failed):
        return ("failed", mp.at, type(mp.exc).__name__)
    cls = [tuple(sorted(s)) for s in mp.shared_dofs]
    order = sorted(range(len(cls)), key=lambda i: (cls[i] == (), cls[i]))
    ren = {old: new for new, old in enumerate(order)}
    return (tuple(cls[i] for i in order),
            # (a dangling class index -- possible only if the structure is already inconsistent -- is kept as it is)
            tuple(tuple(sorted((int(i), ren.get(sd, -1 - abs(int(sd)))) for i, sd in spp.items())) for spp in mp.shared_per_patch))


def glue_problems(mp, history):
    """compare the finalized real structure with the union-find closure of the joins in `history`"""
    patches, ndofs = _G["patches"], _G["ndofs"]
    probs = []
    if isinstance(mp, _Failed):
        return [("exception:%s" % type(mp.exc).__name__, "join_boundaries call %d of the history raised %r" % (mp.at, mp.exc))]
    try:
        mp.finalize()
        nd = int(mp.numdofs)
        idx = [np.asarray(mp.patch_to_global_idx(p)) for p in range(len(patches))]
    except Exception as e:  # any exception here is a failure of the documented API on a legal history
        return [("exception:%s" % type(e).__name__, "finalize/numdofs/patch_to_global_idx raised %r" % (e,))]
    ref = R.closure_partition(patches, [_G["events"][e] for e in history])
    impl = {}
    for p, ix in enumerate(idx):
        if ix.shape != (ndofs[p],):
            probs.append(("idx-shape", "patch_to_global_idx(%d) has shape %s" % (p, ix.shape)))
            return probs
        for i, g in enumerate(ix.tolist()):
            impl.setdefault(g, set()).add((p, i))
    impl_part = frozenset(frozenset(c) for c in impl.values())
    if impl_part != ref:
        # under-merged: every impl class is inside a reference class
        refof = {x: c for c in ref for x in c}
        under = all(c <= refof[next(iter(c))] for c in impl_part)
        over = all(any(rc <= c for c in impl_part) for rc in ref)
        kind = "undermerged" if under else ("overmerged" if over else "mismerged")
        probs.append((kind, "global numbering induces %d classes, the closure of the joins has %d"
                      % (len(impl_part), len(ref))))
    if nd != len(ref):
        probs.append(("numdofs", "numdofs=%d but the closure has %d classes" % (nd, len(ref))))
    if sorted(impl) != list(range(len(impl))) or (len(impl) != nd):
        probs.append(("numbering-gap", "global indices used %s.. are not a gap-free bijection onto 0..numdofs-1=%d"
                      % (sorted(impl)[:4], nd - 1)))
    if probs:
        return probs
    # patch-to-global matrices
    try:
        for p in range(len(patches)):
            for jg in (False, True):
                X = mp.patch_to_global(p, j_global=jg)
                Xd = np.asarray(X.todense())
                ncols = sum(ndofs) if jg else ndofs[p]
                if Xd.shape != (nd, ncols):
                    probs.append(("p2g-shape", "patch_to_global(%d,j_global=%s) shape %s" % (p, jg, Xd.shape)))
                    continue
                ofs = sum(ndofs[:p]) if jg else 0
                E = np.zeros_like(Xd)
                E[idx[p], ofs + np.arange(ndofs[p])] = 1.0
                if not np.array_equal(Xd, E):
                    probs.append(("p2g-entries", "patch_to_global(%d,j_global=%s) is not the 0/1 matrix of the index map" % (p, jg)))
            X = np.asarray(mp.patch_to_global(p).todense())
            G = np.asarray(mp.global_to_patch(p).todense())
            if not np.array_equal(G @ X, np.eye(ndofs[p])):
                probs.append(("p2g-leftinverse", "global_to_patch(%d) @ patch_to_global(%d) != I" % (p, p)))
    except Exception as e:
        probs.append(("exception:%s" % type(e).__name__, "patch_to_global raised %r" % (e,)))
    return probs


def _on_transition(s, ev, s2, history):
    return glue_problems(s2, list(history) + [ev])


def _on_state(s, history):
    if history:
        return []
    return glue_problems(_build([]), [])     # the empty join sequence (no interface declared yet)


def cfg_name(cfg):
    rep = cfg.get("reparam")
    nsp = "x".join(map(str, cfg["nsp"])) if not cfg.get("nsp_axes") else "|".join("".join(map(str, a)) for a in cfg["nsp_axes"])
    return "%s:p%d:n%s:%s" % (cfg["complex"], cfg["p"], nsp, "id" if not rep or not any(rep) else ",".join(rep))


def explore_glue(cfg, out, cap):
    patches, evs, unrep = _setup(cfg)
    if not evs:
        raise RuntimeError("harness: complex %s has no interfaces" % cfg_name(cfg))
    g = explore.explore([[]], _build, _enabled, _step, _canon, _on_transition, _on_state,
                        cap_states=cap)
    out.states += g.states
    out.transitions += g.transitions
    out.traces += g.states          # every state's representative history was executed on the real code
    out.part("glue", configs=1, states=g.states, transitions=g.transitions)
    n_intf = len({frozenset(((e[0], e[1]), (e[2], e[3]))) for e in evs})
    if g.states > 2 ** n_intf or not g.closed:
        out.part("glue", configs_with_order_dependent_states=1)
    if not g.closed:
        out.caps_hit.append("glue %s: state cap %d hit at depth %d" % (cfg_name(cfg), cap, g.max_depth))
    out.nontrivial.add(("glue", cfg_name(cfg)))
    out.outcomes.add(("glue-states", g.states))
    for kind, hist, ev, (sym, msg) in g.problems:
        h = list(hist) + ([ev] if ev is not None else [])
        case = {"part": "glue", "cfg": cfg, "history": h, "calls": [list(map(str, evs[e])) for e in h]}
        out.add_violation("glue:%s" % sym, "%s after joins %s: %s" % (cfg_name(cfg), [evs[e] for e in h], msg), case)
    return g


# ------------------------------------------------------------------------------------------------
# Part B: detect_interfaces
# ------------------------------------------------------------------------------------------------

def detect_problems(cfg, perm):
    from pyiga import assemble
    patches = make_complex(cfg)
    patches = [patches[i] for i in perm]
    ref, unrep = R.reference_interfaces(patches)
    if unrep:
        return []   # faces that would need an axis swap: outside what join_boundaries can express
    py = to_pyiga(patches)
    try:
        connected, intfs = assemble.detect_interfaces(py)
    except Exception as e:
        return [("detect:exception:%s" % type(e).__name__, "detect_interfaces raised %r" % (e,))]
    probs = []
    # compare as sets of declared identifications (orientation-free): each detected interface must
    # declare exactly the pairs the geometric reference declares
    def norm(intf):
        p1, bd1, p2, bd2, flip = intf
        return (int(p1), (int(bd1[0]), int(bd1[1])), int(p2), (int(bd2[0]), int(bd2[1])),
                tuple(bool(f) for f in (flip or ())))
    try:
        got = {frozenset(map(frozenset, R.declared_pairs(patches, norm(i)))) for i in intfs}
    except Exception as e:
        return [("detect:malformed", "detected interface list not usable: %r (%r)" % (intfs, e))]
    want = {frozenset(map(frozenset, R.declared_pairs(patches, i))) for i in ref}
    if got != want:
        probs.append(("detect:set", "detect_interfaces found %d interfaces %s, geometric reference has %d %s"
                      % (len(intfs), [norm(i) for i in intfs], len(ref), ref)))
    import networkx as nx
    G = nx.Graph()
    G.add_nodes_from(range(len(patches)))
    G.add_edges_from((i[0], i[2]) for i in ref)
    if bool(connected) != nx.is_connected(G):
        probs.append(("detect:connected", "connected flag %s, reference %s" % (connected, nx.is_connected(G))))
    # automatch constructor = joins + finalize
    if not probs:
        try:
            mp = assemble.Multipatch(py, automatch=True)
            nd = int(mp.numdofs)
            refp = R.closure_partition(patches, ref)
            if nd != len(refp):
                probs.append(("detect:automatch-numdofs", "Multipatch(automatch=True).numdofs=%d, closure has %d classes" % (nd, len(refp))))
        except Exception as e:
            probs.append(("detect:automatch-exception:%s" % type(e).__name__, "Multipatch(automatch=True) raised %r" % (e,)))
    return probs


# ------------------------------------------------------------------------------------------------
# check_case / run
# ------------------------------------------------------------------------------------------------

def check_case(case):
    if case["part"] == "glue":
        _setup(case["cfg"])
        return [("glue:%s" % sym, msg) for sym, msg in glue_problems(_build(case["history"]), case["history"])]
    if case["part"] == "detect":
        return detect_problems(case["cfg"], case["perm"])
    if case["part"] == "split":
        from props import c14_system
        return c14_system.split_problems(case)
    if case["part"] == "bc":
        from props import c14_system
        return c14_system.bc_problems(case)
    raise ValueError(case["part"])


def _detect_worker(args):
    cfg, perm = args
    return cfg, perm, detect_problems(cfg, perm)


def run(ctx):
    out = Outcome()
    cfgs = configs(ctx.tier)
    cap = 3000 if ctx.tier == "quick" else 40000
    for cfg in cfgs:
        g = explore_glue(cfg, out, cap)
        ctx.log("glue %-40s events=%d states=%d transitions=%d closed=%s problems=%d"
                % (cfg_name(cfg), len(_G["events"]), g.states, g.transitions, g.closed, len(g.problems)))
        out.sample({"complex": cfg_name(cfg), "events": [str(e) for e in _G["events"][:3]], "states": g.states,
                    "transitions": g.transitions}, limit=3)
    # Part B
    dcases = []
    for cfg in cfgs:
        n = len(make_complex(cfg))
        perms = list(itertools.permutations(range(n))) if n <= 4 else [tuple(range(n)), tuple(reversed(range(n)))]
        if ctx.tier == "quick" and n == 4:
            perms = perms[::5]
        for perm in perms:
            dcases.append((cfg, list(perm)))
    for cfg, perm, probs in par.pmap(_detect_worker, dcases):
        out.evaluations += 1
        out.transitions += 1
        out.part("detect", cases=1)
        out.nontrivial.add(("detect", cfg_name(cfg), tuple(perm)))
        for key, msg in probs:
            out.add_violation(key, "%s perm=%s: %s" % (cfg_name(cfg), perm, msg),
                              {"part": "detect", "cfg": cfg, "perm": perm})
    ctx.log("detect_interfaces cases=%d" % len(dcases))
    # Parts C, D
    from props import c14_system
    c14_system.run(ctx, out)
    out.evaluations += out.transitions
    out.rule = ("Part A: BFS to closure over join_boundaries events (every geometric interface of the complex in both "
                "call orientations, repetition allowed) on the real Multipatch; one state = canonical partition "
                "structure; every transition checked against a union-find closure. Non-trivial = distinct "
                "(complex, degree, spans, reparametrisation) configurations / detect cases / split cases.")
    out.assumptions += [
        "patch geometries are multilinear images of the unit cube (boxes, sectors around a vertex); degrees 1-2, 1-2 spans",
        "3D reparametrisations are axis reversals only (join_boundaries cannot express face-axis swaps)",
    ]
    return out
