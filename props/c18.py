"""C18 -- low-rank tensor formats are faithful to the full tensor they represent.

Part A (E1, props/c18_core.py): explicit-state exploration of CanonicalTensor / TuckerTensor / TensorSum /
  TensorProd / ndarray.  State = (real object, dense model).  ALL event sequences to the depth bound, no state
  merging; after every event  asarray(result) == op_dense(asarray(operand))  exactly, attributes agree,
  no operand on the history changed.
Part B (props/c18_ops.py): the same for CanonicalOperator (.T, neg, + -, @, kron, slice; asmatrix, apply on
  every unit tensor and on every tensor format).
Part C (props/c18_approx.py): compress / truncate within tolerance over ten decades, hosvd exact and
  orthonormal, aca / aca_lr / aca_3d on every exact-rank-r integer input of an enumerated family (aca runs
  validated against an exact Fraction model of the crosses they requested), grou / gta error histories,
  als, TensorGenerator for every index expression.

Index expressions: per axis {0, -1, :, ::2, ::-1, [-1, 0]} (first event of a history additionally 1:, -1:0:-2,
1, [1,2,0]), every product over the axes and every proper prefix (omitted trailing axes); only expressions
on which numpy's own result coincides with per-axis indexing are generated (an index list together with a
second list, or with an integer across a slice, means something else in numpy: not promised).
"""
import itertools

import numpy as np

from mc import par
from mc.outcome import Outcome

ID = "C18"
LEVEL = "model_checking"


def _mods():
    from props import c18_core as K, c18_ops as O, c18_approx as A
    return K, O, A


# ------------------------------------------------------------------------------------------------
# seeds of part A
# ------------------------------------------------------------------------------------------------

def kinds_for(d):
    ks = [("C", 0, 0), ("C", 1, 0), ("C", 2, 0), ("T", 0, 0), ("T", 1, 0), ("T", 2, 0), ("A", 1, 0),
          ("S", 1, 0), ("S", 1, 1), ("S", 1, 2), ("P", 1, 0), ("P", 2, 1)]
    if d >= 2:
        ks += [("T", 2, 1), ("P", 1, 2)]
    return ks


def spec_of(kind, rank, var, shape):
    return {"kind": kind, "shape": list(shape), "rank": rank, "var": var, "salt": 0}


def e1_plan(tier):
    """list of (spec, depth, ext) walks.  ext walks use the extended index alphabet and have depth 1."""
    plan = []
    thorough = tier == "thorough"

    def add(shapes, depth, ext=False, kinds=None):
        for shape in shapes:
            for (k, r, v) in (kinds or kinds_for(len(shape))):
                plan.append((spec_of(k, r, v, shape), depth, ext))

    all_shapes = lambda d: list(itertools.product((1, 2, 3), repeat=d))
    if thorough:
        # depth 3: every order-1 seed; order 2: every shape for ten format/rank variants (the other four
        # variants only differ in rank 1 vs 2 / number of terms and are explored to depth 2); order 3: every
        # shape to depth 2 for the same ten variants, one Tucker seed to depth 3
        deep2 = [("C", 0, 0), ("C", 2, 0), ("T", 0, 0), ("T", 2, 0), ("T", 2, 1), ("A", 1, 0), ("S", 1, 0),
                 ("S", 1, 1), ("P", 1, 0), ("P", 1, 2)]
        add(all_shapes(1), 3)
        add(all_shapes(2), 3, kinds=deep2)
        add(all_shapes(2), 2, kinds=[k for k in kinds_for(2) if k not in deep2])
        add(all_shapes(3), 2, kinds=deep2)
        add([(2, 1, 2)], 3, kinds=[("T", 2, 0)])
        add([(2, 1, 3, 2)], 2, kinds=[("C", 2, 0), ("T", 2, 1)])
    else:
        add(all_shapes(1), 2)
        add(all_shapes(2), 2)
        add([(2, 3, 1), (1, 2, 2), (2, 1, 2)], 2)
    # every shape with the extended index alphabet, one event
    for d in (1, 2, 3):
        add(all_shapes(d), 1, ext=True)
    o4 = [s4 for s4 in all_shapes(4) if sum(s4) <= 7] if thorough else [(2, 1, 3, 2), (1, 1, 2, 1), (3, 2, 1, 1)]
    add(o4, 1, ext=True, kinds=[("C", 2, 0), ("C", 0, 0), ("T", 2, 0), ("T", 2, 1), ("A", 1, 0), ("S", 1, 0), ("P", 1, 0), ("P", 1, 2)])
    return plan


def e1_tasks(plan, seed):
    K, O, A = _mods()
    tasks = []
    for wi, (spec, depth, ext) in enumerate(plan):
        d = len(spec["shape"])
        split = depth >= 3 or (depth == 2 and d >= 3)
        if split:
            nmenu = len(K.menu(spec["kind"], tuple(spec["shape"]), ext, True))
            for fi in range(nmenu):
                tasks.append((wi, spec, depth, ext, fi, seed))
        else:
            tasks.append((wi, spec, depth, ext, None, seed))
    return tasks


def _e1_worker(task):
    K, O, A = _mods()
    wi, spec, depth, ext, fi, seed = task
    cnt = K.Counters()
    K.reset_caches()
    probs = K.seed_problems(spec, seed)
    if probs:
        if fi in (None, 0):
            for key, msg in probs:
                cnt.problem(key, [], msg)
            cnt.states += 1
        return _compact(wi, fi, cnt)
    st = K.seed_state(spec, seed)
    if fi in (None, 0):
        for key, msg in K.check_seed(st, spec):
            cnt.problem(key, [], msg)
    K.walk(st, depth, seed, ext, True, [], (), [], cnt, first_only=fi)
    if fi not in (None, 0):
        cnt.states -= 1          # the seed state is counted by the first task of its walk
    return _compact(wi, fi, cnt)


def _compact(wi, fi, cnt):
    outcomes = set()
    for o in cnt.outcomes:
        if isinstance(o, tuple):
            outcomes.add((o[0], o[1], len(o[2]), o[3]))       # (family, result format, result order, exact)
        else:
            outcomes.add(o)
    return (wi, fi, cnt.states, cnt.transitions, cnt.traces, cnt.fams, outcomes, cnt.nontrivial_traces,
            {k: (v[0], v[1][0], v[1][1]) for k, v in cnt.problems.items()}, cnt.sample_path)


# ------------------------------------------------------------------------------------------------
# check_case
# ------------------------------------------------------------------------------------------------

def check_case(case):
    K, O, A = _mods()
    part = case["part"]
    if part == "seq":
        return K.replay(case["spec"], case["path"], case["seed"])
    if part == "op":
        return O.op_replay(case["spec"], case["path"], case["seed"])
    if part == "approx":
        probs, _ = A.check(case)
        return [(_canon_key(k), m) for k, m in probs]
    raise ValueError(part)


def _canon_key(k):
    # one defect: als1 never terminates on a zero (or NaN) tensor, whichever greedy driver calls it
    if k in ("grou:zero-tensor:hang", "gta:zero-tensor:hang"):
        return "greedy:zero-tensor:hang"
    return k


def _approx_worker(case):
    K, O, A = _mods()
    probs, info = A.check(case)
    if any(k.endswith("hang") for k, _ in probs):
        # a CPU-time guard fired: believed only if it fires again (a deterministic non-termination always does;
        # a collector pause or an accounting glitch of an overloaded machine does not)
        probs, info = A.check(case)
    return case, [(_canon_key(k), m) for k, m in probs], info


# ------------------------------------------------------------------------------------------------
# run
# ------------------------------------------------------------------------------------------------

def run(ctx):
    K, O, A = _mods()
    # import everything the workers need before forking
    import pyiga.tensor, pyiga.lowrank, scipy.linalg, scipy.sparse, scipy.sparse.linalg  # noqa: F401,E401
    out = Outcome()
    seed = int(ctx.seed)
    thorough = ctx.tier == "thorough"
    found = []       # (order key, violation key, message, case)

    # ---------------- part A --------------------------------------------------------------------
    plan = e1_plan(ctx.tier)
    tasks = e1_tasks(plan, seed)
    # long tasks first inside pmap's contiguous chunks would unbalance the pool; interleave by cost instead
    ctx.log("part A: %d walks, %d tasks" % (len(plan), len(tasks)))
    # the forked workers inherit the parent's heap: keep the collector from traversing (and un-sharing) it
    import gc
    gc.collect()
    gc.freeze()
    res = par.pmap(_e1_worker, tasks, chunk=4 if len(tasks) < 20000 else 16)
    fams = {}
    per_walk = {}
    skipped_amb = 0
    histories = {}
    for (wi, fi, states, trans, traces, fm, outcomes, nontriv, problems, spath) in res:
        spec, depth, ext = plan[wi]
        if spath and len(spath) >= len(histories.get(wi, [])):
            histories[wi] = spath
        out.states += states
        out.transitions += trans
        out.traces += traces
        out.nontrivial_extra += nontriv
        for f, n in fm.items():
            fams[f] = fams.get(f, 0) + n
        out.outcomes |= {("A",) + (o if isinstance(o, tuple) else (o,)) for o in outcomes}
        w = per_walk.setdefault(wi, [0, 0])
        w[0] += states
        w[1] += trans
        for key, (n, path, msg) in problems.items():
            case = {"part": "seq", "spec": spec, "seed": seed, "path": path, "history": [K.describe(e) for e in path]}
            what = "%s %s rank %s: after %s: %s (%d occurrences in this subtree)" % (
                K.KNAME[spec["kind"]], tuple(spec["shape"]), spec["rank"], [K.describe(e) for e in path[:-1]], msg, n)
            found.append(((0, len(path), len(spec["shape"]), wi), key, what, case))
    for wi, (spec, depth, ext) in enumerate(plan):
        out.part("A:order%d:depth%d%s" % (len(spec["shape"]), depth, ":ext" if ext else ""), walks=1,
                 states=per_walk.get(wi, [0, 0])[0], transitions=per_walk.get(wi, [0, 0])[1])
    out.part("A:events", **fams)
    for d in (1, 2, 3, 4):
        for shape in itertools.product((1, 2, 3), repeat=d) if d < 4 else [(2, 1, 3, 2)]:
            skipped_amb += K.index_exprs(shape, True)[1]
    out.part("A:index-expressions", not_generated_because_numpy_semantics_differ=skipped_amb)
    deepw = [wi for wi in sorted(per_walk) if plan[wi][1] >= 2 and histories.get(wi)]
    for wi in (deepw[:2] + deepw[len(deepw) // 2:len(deepw) // 2 + 1] + deepw[-2:]) or sorted(per_walk)[:3]:
        spec, depth, ext = plan[wi]
        out.sample({"part": "A", "seed_tensor": spec, "depth": depth, "extended_index_alphabet": ext,
                    "states": per_walk[wi][0], "transitions": per_walk[wi][1],
                    "one_checked_history": [K.describe(e) for e in histories.get(wi, [])]}, limit=5)
    ctx.log("part A done: states=%d transitions=%d traces=%d problems=%d"
            % (out.states, out.transitions, out.traces, len(found)))

    # ---------------- part B --------------------------------------------------------------------
    odepth = 3 if thorough else 2
    otasks = [(spec, odepth, seed, 24, True) for spec in O.op_specs(ctx.tier)]
    ores = par.pmap(O.op_task, otasks, chunk=1, min_parallel=4)
    ofams = {}
    for spec, cnt in ores:
        out.states += cnt["states"]
        out.transitions += cnt["transitions"]
        out.traces += cnt["traces"]
        out.nontrivial_extra += cnt["nontrivial"]
        out.outcomes |= {("B",) + o for o in cnt["outcomes"]}
        out.part("B:operators", seeds=1, states=cnt["states"], transitions=cnt["transitions"])
        for f, n in cnt["fams"].items():
            ofams[f] = ofams.get(f, 0) + n
        for key, (n, (path, msg)) in cnt["problems"].items():
            case = {"part": "op", "spec": spec, "seed": seed, "path": path, "history": [O.op_describe(e) for e in path]}
            what = "CanonicalOperator(%s factors %s, R=%d): after %s: %s" % (
                spec["fmt"], spec["shapes"], spec["R"], [O.op_describe(e) for e in path[:-1]], msg)
            found.append(((1, len(path), len(spec["shapes"]), 0), key, what, case))
    out.part("B:events", **ofams)
    out.sample({"part": "B", "operator": otasks[0][0], "depth": odepth}, limit=6)
    ctx.log("part B done: %d operator seeds, depth %d" % (len(otasks), odepth))

    # ---------------- part C --------------------------------------------------------------------
    cases = A.cases(ctx.tier, seed)
    # the zero-tensor cases may burn their CPU guard: start them first
    slow = [c for c in cases if c.get("fam") == "zero" and c["what"] == "greedy"]
    rest = [c for c in cases if not (c.get("fam") == "zero" and c["what"] == "greedy")]
    cases, k = [], 0
    while k < len(rest):                     # one slow case at the head of each of the first chunks of 8
        take = 7 if slow else 8
        if slow:
            cases.append(slow.pop(0))
        cases += rest[k:k + take]
        k += take
    cases += slow
    cres = par.pmap(_approx_worker, cases, chunk=8)
    for case, probs, info in cres:
        out.evaluations += 1
        out.transitions += (info if case["what"] in ("tgen", "dense") and isinstance(info, int) else 1)
        out.states += 1
        out.traces += 1
        out.part("C:" + case["what"], cases=1)
        if info is not None and case["what"] not in ("tgen", "dense"):
            out.outcomes.add(("C",) + tuple(info))
        if case["what"] in ("aca2d", "aca3d", "greedy", "als") and case.get("r", 0) >= 1:
            out.nontrivial_extra += 1
        elif case["what"] in ("compress", "truncate") or (case["what"] in ("hosvd", "tgen") and max(case["shape"]) > 1):
            out.nontrivial_extra += 1
        for key, msg in probs:
            found.append(((2, 0, 0, case["cid"]), key, "%s: %s" % (case["what"], msg), case))
    for c in [c for c in cases if c["what"] in ("aca2d", "greedy")][:2]:
        out.sample({k: v for k, v in c.items() if k != "part"}, limit=8)
    ctx.log("part C done: %d cases" % len(cases))

    # ---------------- violations -------------------------------------------------------------------
    found.sort(key=lambda t: t[0])
    found = _canonical_idx_keys(found)
    for _, key, what, case in found:
        out.add_violation(key, what, case)

    out.evaluations += out.transitions
    out.rule = ("non-trivial = maximal event histories of length >= 2 that contain at least two different event "
                "families (e.g. index-then-add, squeeze-then-mode-product), counted in the workers (every history of "
                "the unmerged event tree is distinct by construction), plus approximation cases with rank >= 1 / "
                "non-degenerate shape")
    out.assumptions += [
        "payloads are small distinct integers (exact float arithmetic, comparison with ==); VERIF_SEED permutes them",
        "states behind orthogonalize/compress/hosvd are compared with 1e-12 * magnitude bound of the representation",
        "depth bound: all sequences to depth %d for orders 1-2%s; deeper histories are not covered"
        % (3 if thorough else 2, ", depth 2 for order 3 (depth 3 for one order-3 Tucker seed), depth 2 for two order-4 seeds, "
           "depth 1 (extended index alphabet) for every shape of order 1-3 and the 31 order-4 shapes with sum <= 7" if thorough else
           ", depth 2 for three order-3 shapes, depth 1 (extended index alphabet) for every shape of order 1-3"),
        "left operand of + and - is always a tensor class; CanonicalTensor/TuckerTensor + TensorSum/TensorProd may answer "
        "with their documented TypeError('cannot add ...')",
        "index expressions with two index lists, or with an index list and an integer separated by a slice, are not "
        "generated (numpy's own semantics differ from per-axis indexing there)",
        "aca/aca_lr may give up after `skipcount` zero rows (documented heuristic): accepted only when every skipped "
        "row is zero in the exact residual; aca_3d is run with skipcount=500 so that giving up has probability < 1e-13",
        "als: only rank-one inputs, exact fixed points and 'not worse than the zero tensor' are demanded (the tests "
        "of the repository disable their own als accuracy asserts)",
    ]
    return out


def _canonical_idx_keys(found):
    """keys of indexing violations end in the set of item kinds of the failing expression; map every
    signature to its smallest failing subset so that one defect gives one key"""
    groups = {}
    for _, key, _, case in found:
        if case.get("part") == "seq" and case["path"] and case["path"][-1][0] == "idx" and key.count(":") >= 1:
            base, sig = key.rsplit(":", 1)
            groups.setdefault(base, set()).add(frozenset(sig.split("+")))
    if not groups:
        return found
    out = []
    for order, key, what, case in found:
        if case.get("part") == "seq" and case["path"] and case["path"][-1][0] == "idx":
            base, sig = key.rsplit(":", 1)
            sig = frozenset(sig.split("+"))
            mins = sorted((s for s in groups.get(base, ()) if s <= sig), key=lambda s: (len(s), sorted(s)))
            if mins:
                key = base + ":" + "+".join(sorted(mins[0]))
        out.append((order, key, what, case))
    return out
