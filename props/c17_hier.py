"""C17, hierarchical part: approx.project_L2 on an HSpace reproduces every (T)HB basis function, every coarse
tensor-product function, and leaves a residual orthogonal to the space for out-of-space polynomials -- on every
refinement state of small C04 rows, HB and THB.

Reference: ref/hmodel.py representation matrices R (fine tensor-product coefficients of every active function),
exact fine-level B-splines, own Gauss quadrature on the finest mesh:  M_ref = R^T M_fine R,  b_ref = R^T b_fine.
"""
import importlib
import os
import sys

import numpy as np

from ref import l2ref as L
from props import c17_tp as T

TOL_DIRECT = 1e-12       # * cond(M_ref): max-norm error of the sparse direct solve
TOL_ROW = 1e-10          # rows of b_lib - b_ref relative to max |b_ref|


def row_cfg(row, p):
    k, Lv = {"1D-k3-L2": ((3,), 2), "1D-k2-L3": ((2,), 3), "1D-k1-L3": ((1,), 3), "2D-2x1-L2": ((2, 1), 2),
             "2D-2x2-L1": ((2, 2), 1)}[row]
    return {"row": row, "k": list(k), "L": Lv, "p": [p] * len(k), "disparity": "inf", "mark_truncate": False, "maxmark": None}


def rows(tier):
    """(row configuration, geometries, mode of the alternative data forms)"""
    if tier == "quick":
        return [(row_cfg("1D-k3-L2", 1), ["none"], "per-level"), (row_cfg("1D-k3-L2", 2), ["none"], "per-level"),
                (row_cfg("1D-k1-L3", 2), ["none"], "all"),
                # a two-dimensional row with geometry maps (physical data, orientation-reversing map)
                (row_cfg("2D-2x2-L1", 2), ["affine", "mirror"], "per-level")]
    return [(row_cfg("2D-2x2-L1", 2), ["affine", "mirror"], "per-level"),(row_cfg("1D-k3-L2", 1), ["none"], "all"), (row_cfg("1D-k3-L2", 2), ["none"], "all"),
            (row_cfg("1D-k1-L3", 2), ["none"], "all"), (row_cfg("1D-k3-L2", 3), ["none"], "per-level"),
            (row_cfg("1D-k2-L3", 2), ["none"], "per-level"), (row_cfg("2D-2x1-L2", 2), ["none", "affine"], "per-level")]


def _graph_worker(cfg):
    from props import c04
    g = c04.state_graph(cfg, check=False, workers=1)
    hists = sorted(g.rep.values(), key=lambda h: (len(h), repr(h)))
    return [[[[int(lv), [int(x) for x in c]] for lv, c in ev] for ev in h] for h in hists], bool(g.closed)


def cases(tier, seed):
    from mc import par
    rs = rows(tier)
    out, info = [], []
    for (cfg, geos, alt), (hists, closed) in zip(rs, par.pmap(_graph_worker, [r[0] for r in rs], min_parallel=2, chunk=1)):
        info.append((cfg, len(hists), closed))
        for h in hists:
            for tr in (False, True):
                for g in geos:
                    out.append({"part": "hier", "cfg": cfg, "history": h, "truncate": tr, "geo": g, "alt": alt, "seed": seed})
    return out, info


def vforms_needed(dims):
    """factories (a VForm can be code-generated only once)"""
    from pyiga import vform
    out = []
    for d in dims:
        out += [lambda d=d: vform.mass_vf(d), lambda d=d: vform.L2functional_vf(d, physical=False),
                lambda d=d: vform.L2functional_vf(d, physical=True)]
    return out


def warm_compile(dims, log=None):
    """HDiscretization compiles its assemblers with on_demand=True (not among the predefined ones): compile the
    few modules once into the framework's private cache, one forked child per module (distinct module files),
    compiler chatter silenced; afterwards load them in this process so that forked workers inherit them."""
    from pyiga import compile as pc
    vfs = vforms_needed(dims)
    todo = []
    os.makedirs(pc.MODDIR, exist_ok=True)
    import hashlib
    for mk in vfs:
        src = pc.generate(mk(), on_demand=True)
        modname = "mod" + hashlib.shake_128(src.encode()).hexdigest(8)
        if not any(f.startswith(modname) and f.endswith(".so") for f in os.listdir(pc.MODDIR)):
            todo.append(mk)
    if todo and log:
        log("compiling %d on-demand assemblers for the hierarchical path (one time per source tree)" % len(todo))
    pids = []
    for mk in todo:
        sys.stdout.flush()
        sys.stderr.flush()
        pid = os.fork()
        if pid == 0:
            code = 0
            try:
                dn = os.open(os.devnull, os.O_WRONLY)
                os.dup2(dn, 1)
                os.dup2(dn, 2)
                pc.compile_vform(mk(), on_demand=True)
            except BaseException:      # noqa: BLE001
                code = 3
            os._exit(code)
        pids.append(pid)
    for pid in pids:
        os.waitpid(pid, 0)
    importlib.invalidate_caches()
    for mk in vfs:
        pc.compile_vform(mk(), on_demand=True)    # loads from the cache (or compiles if a child failed)


def build_spaces(case):
    """(HB state from c04.build, the space with the requested truncate flag, model, refined)"""
    from props import c04
    cfg = case["cfg"]
    c04.setup(cfg)
    hist = [tuple((int(lv), tuple(int(x) for x in c)) for lv, c in ev) for ev in case["history"]]
    st = c04.build(hist)
    if st.error:
        return st, None, None
    hs = c04.new_space(truncate=bool(case["truncate"]))
    for ev in hist:
        marks, _ = c04.marks_of(ev)
        hs.refine(marks)
    return st, hs, c04._G["model"]


def piece_levels(M, refined, Lv, truncate):
    """per active function (canonical order): the finest level of mesh cells on which the function is piecewise
    polynomial (its own level for HB; for THB the finest level at which a coefficient was truncated)"""
    actf, deactf = M.functions(refined, Lv)
    lev, own = [], []
    for l in range(Lv):
        fs = sorted(actf[l])
        if not fs:
            continue
        n_l = int(np.prod(M.nfun_tp(l)))
        C = np.zeros((n_l, len(fs)))
        for k, f in enumerate(fs):
            C[M.ravel_fun(l, f), k] = 1.0
        pl = [l] * len(fs)
        if truncate:
            for m in range(l + 1, Lv):
                C = M.Ptp(m - 1) @ C
                kill = [M.ravel_fun(m, f) for f in (actf[m] | deactf[m])]
                if kill:
                    hit = np.abs(C[kill, :]).max(axis=0) > 0
                    for k in np.nonzero(hit)[0]:
                        pl[k] = m
                    C[kill, :] = 0.0
        lev += pl
        own += [l] * len(fs)
    return np.array(own), np.array(lev)


def hier_problems(case):
    from pyiga import approx, hierarchical
    rec = T.Rec()
    st, hs, M = build_spaces(case)
    if st.error:
        rec.add("hier:refine:" + st.error.split(" raised ")[-1].split(":")[0], st.error)
        return rec
    refined = st.refined
    truncate = bool(case["truncate"])
    seed = int(case.get("seed", 0))
    gname = case.get("geo", "none")
    Lv = hs.numlevels
    d = M.dim
    try:
        R = M.rep_thb(refined, Lv) if truncate else M.rep_hb(refined, Lv)
    except ValueError as e:
        rec.add("hier:state:inconsistent", "model cannot represent the state: %s" % e)
        return rec
    n = R.shape[1]
    if int(hs.numdofs) != n:
        rec.add("hier:numdofs", "numdofs=%d, model has %d active functions" % (hs.numdofs, n))
        return rec
    own, plev = piece_levels(M, refined, Lv, truncate)

    # fine-level tensor-product basis and reference quadrature on the finest mesh
    class _Ax:
        pass
    sp = []
    for ax in range(d):
        a = _Ax()
        kn = np.array(M.knots(Lv - 1, ax), dtype=float)
        a.p = M.degs[ax]
        a.E = L.AxisEval(kn, a.p)
        a.n = a.E.n
        a.br = a.E.breaks()
        a.ext = (a.br[0], a.br[-1])
        sp.append(a)
    B = T.Basis(sp)
    geo = None
    if gname != "none":
        geo = T.make_geo(gname, sp)
    gp, Bq, w = T.ref_quadrature(sp, geo)
    BR = Bq @ R                                    # active functions at the Gauss grid
    Mref = BR.T @ (w[:, None] * BR)
    cond = float(np.linalg.cond(Mref))
    qmesh = T._grid(gp)
    gshape = tuple(len(t) for t in gp)

    def load(f):
        return BR.T @ (w * np.broadcast_to(f(*qmesh), gshape).ravel())

    def fun(coef_fine):
        return lambda *X: B.all(*X) @ coef_fine

    kw_geo = {} if geo is None else {"geo": geo}

    def project(key, f, **kw):
        kw.update(kw_geo)
        x, warn = T._l2_call(rec, key, approx.project_L2, hs, f, **kw)
        if x is not None and x.shape != (n,):
            rec.add(key + ":shape", "result shape %s, expected (%d,)" % (x.shape, n))
            return None
        return x

    kind = "THB" if truncate else "HB"
    E = np.eye(n)
    forms = [("callable", lambda j: fun(R[:, j]), {"f_physical": False})]
    if geo is None:
        forms.append(("callable:physical", lambda j: fun(R[:, j]), {"f_physical": True}))
    forms.append(("HSplineFunc", lambda j: hierarchical.HSplineFunc(hs, E[j].copy()), {}))
    alt_all = case.get("alt", "all") == "all"
    # alternative data forms differ from the first one only in how the data are evaluated at the Gauss points; in the
    # "per-level" mode they are exercised on the first and last active function of every level
    sel = sorted({int(np.nonzero(own == l)[0][k]) for l in set(own.tolist()) for k in (0, -1)})
    for fi, (fname, mk, kw) in enumerate(forms):
        for j in (range(n) if (fi == 0 or alt_all) else sel):
            try:
                f = mk(j)
            except Exception as e:      # noqa: BLE001
                rec.add("hier:%s:exception:%s" % (fname, T.exc_key(e)), "building the data raised %r" % (e,))
                break
            u = project("hier:project_L2", f, **dict(kw))
            if u is None:
                continue
            bj = Mref[:, j]
            r = Mref @ (u - E[j])
            sc = float(np.abs(bj).max())
            badrows = np.abs(r) > TOL_ROW * sc
            if not badrows.any():
                err = float(np.abs(u - E[j]).max())
                rec.note("hier/direct", err / (TOL_DIRECT * cond))
                if err > TOL_DIRECT * cond:
                    rec.add("hier:project_L2:reproduce:solve", "%s function %d (%s): coefficients deviate by %.3g although the normal "
                            "equations hold (cond %.3g)" % (kind, j, fname, err, cond))
                continue
            exact_rows = own >= plev[j]         # test functions at least as fine as the pieces of f: their quadrature is exact
            if (badrows & exact_rows).any():
                i = int(np.nonzero(badrows & exact_rows)[0][0])
                rec.add("hier:project_L2:reproduce", "%s function %d (level %d, %s) is not reproduced: max error %.3g; normal equation %d "
                        "(level %d) violated by %.3g (scale %.3g)" % (kind, j, own[j], fname, np.abs(u - E[j]).max(), i, own[i], abs(r[i]), sc))
            else:
                i = int(np.nonzero(badrows)[0][0])
                rec.add("hier:project_L2:reproduce:coarse-rhs-quadrature",
                        "%s function %d (level %d, piecewise polynomial on level-%d cells, %s) is not reproduced: max coefficient error %.3g; "
                        "only the load-vector entries of coarser test functions are off (entry %d of level %d by %.3g, scale %.3g): they are "
                        "integrated with the coarse level's Gauss rule across finer cells"
                        % (kind, j, own[j], plev[j], fname, np.abs(u - E[j]).max(), i, own[i], abs(r[i]), sc))

    # every coarse tensor-product function lies in the space and is a polynomial on every level-0 cell: exact
    P0 = M.Ptp_range(0, Lv - 1)
    for i in range(P0.shape[1]):
        for fname, kw in (("callable", {"f_physical": False}),) + ((("callable:physical", {"f_physical": True}),)
                                                                   if geo is None and (alt_all or i == 0) else ()):
            u = project("hier:project_L2", fun(P0[:, i]), **dict(kw))
            if u is None:
                continue
            err = float(np.abs(R @ u - P0[:, i]).max())
            rec.note("hier/coarse", err / (TOL_DIRECT * cond))
            if err > TOL_DIRECT * cond:
                rec.add("hier:project_L2:coarse-function", "%s space: the projection of level-0 B-spline %d (%s) is a different function "
                        "(fine coefficients deviate by %.3g, cond %.3g)" % (kind, i, fname, err, cond))

    # out-of-space polynomial of degree p+1 per axis (exactly integrated by the p+1 point rule on every level)
    gdeg = L.det_degree(gname, d)
    f, degs = T._monomials(sp, seed, 1)
    if gdeg == 0:
        for fname, kw in (("callable", {"f_physical": False}),) + ((("callable:physical", {"f_physical": True}),) if geo is None else ()):
            u = project("hier:project_L2", f, **dict(kw))
            if u is None:
                continue
            bref = load(f)
            r = bref - Mref @ u
            sc = float(np.abs(bref).max()) or 1.0
            rec.note("hier/orth", float(np.abs(r).max()) / (TOL_ROW * sc))
            if np.abs(r).max() > TOL_ROW * sc:
                rec.add("hier:project_L2:orthogonality", "%s space: residual of the degree-%s monomial (%s) is not orthogonal to the space: "
                        "max |b - M u| = %.3g (scale %.3g)" % (kind, degs, fname, np.abs(r).max(), sc))
    # data given in physical coordinates are the same data as their pull-back to the parameter domain
    if geo is not None:
        G = L.geo_map(gname, d, [a.ext for a in reversed(sp)])
        gphys = (lambda x, y: 1.0 + 0.5 * x - 0.25 * y + 0.125 * x * y) if d == 2 else (lambda x: 1.0 + 0.5 * x)
        gpull = lambda *xi: gphys(*G(*xi))
        up = project("hier:project_L2", gphys, f_physical=True)
        ub = project("hier:project_L2", gpull, f_physical=False)
        if up is not None and ub is not None:
            dv = up - ub
            en = float(np.sqrt(max(dv @ (Mref @ dv), 0.0)) / max(np.sqrt(max(ub @ (Mref @ ub), 0.0)), 1e-300))
            rec.note("hier/phys", en / (TOL_DIRECT * cond))
            if en > TOL_DIRECT * cond:
                rec.add("hier:project_L2:physical-vs-pullback", "%s space, geo=%s: f_physical=True and the pulled-back data give projections "
                        "differing by %.3g in the energy norm" % (kind, gname, en))
    return rec
