"""C14 parts C and D: conforming decompositions of one patch, multipatch Dirichlet data."""
import itertools

import numpy as np

from mc import par
from ref import mpatch as R


# ------------------------------------------------------------------------------------------------
# Part C: split a single patch along C^0 knots
# ------------------------------------------------------------------------------------------------

def _knots(p, breaks, mults):
    kn = [breaks[0]] * (p + 1)
    for b, m in zip(breaks[1:-1], mults):
        kn += [b] * m
    kn += [breaks[-1]] * (p + 1)
    return np.array(kn, float)


def _greville(kn, p):
    n = len(kn) - p - 1
    return np.array([sum(kn[i + 1:i + p + 1]) / p for i in range(n)])


def _geo(name, dim):
    from pyiga import bspline, geometry
    if name == "identity":
        return geometry.unit_square() if dim == 2 else geometry.unit_cube()
    if name == "bilinear":
        kv1 = bspline.make_knots(1, 0.0, 1.0, 1)
        if dim == 2:
            C = np.array([[[0.0, 0.0], [2.0, 0.2]], [[0.3, 1.0], [2.5, 1.7]]])
            return bspline.BSplineFunc((kv1, kv1), C)
        C = np.zeros((2, 2, 2, 3))
        for i, j, k in itertools.product((0, 1), repeat=3):
            C[i, j, k] = (k * (1.5 + 0.2 * j) + 0.1 * i, j * (1.0 + 0.3 * i), i * (1.2 + 0.1 * k) + 0.2 * j)
        return bspline.BSplineFunc((kv1,) * 3, C)
    if name == "annulus":
        return geometry.quarter_annulus()
    raise ValueError(name)


def split_cases(tier):
    cases = []
    # 1D axis descriptions: (breaks, mults) with the C^0 split knots marked
    def axes_variants(p):
        # (breaks, mults, split positions)
        return [
            ([0.0, 0.5, 1.0], [p], [0.5]),
            ([0.0, 0.25, 0.5, 1.0], [1, p], [0.5]),
            ([0.0, 0.3, 0.6, 1.0], [p, p], [0.3, 0.6]),
        ]
    whole = lambda p: ([0.0, 0.4, 1.0], [1], [])
    for p in (1, 2, 3) if tier == "thorough" else (1, 2):
        for geo in ("identity", "bilinear", "annulus"):
            for vy in [whole(p)] + axes_variants(p)[:2]:
                for vx in [whole(p)] + axes_variants(p):
                    if not vy[2] and not vx[2]:
                        continue
                    if tier == "quick" and geo == "annulus" and (len(vx[2]) + len(vy[2]) < 2):
                        continue
                    cases.append({"part": "split", "dim": 2, "p": p, "geo": geo, "axes": [vy, vx]})
    for p in (1, 2) if tier == "thorough" else (1,):
        for geo in ("identity", "bilinear"):
            ax = ([0.0, 0.5, 1.0], [p], [0.5])
            w = ([0.0, 1.0], [], [])
            for axes in ([w, w, ax], [ax, w, ax], [ax, ax, ax]) if tier == "thorough" else ([w, ax, ax],):
                cases.append({"part": "split", "dim": 3, "p": p, "geo": geo, "axes": axes})
    return cases


def split_problems(case):
    from pyiga import assemble, bspline, vform
    dim, p = case["dim"], case["p"]
    G = _geo(case["geo"], dim)
    axes = case["axes"]
    kn_full = [_knots(p, b, m) for (b, m, s) in axes]
    kvs_full = tuple(bspline.KnotVector(k, p) for k in kn_full)
    # pieces per axis
    pieces = []
    for (b, m, s), kn in zip(axes, kn_full):
        cuts = [b[0]] + list(s) + [b[-1]]
        ax_p = []
        for lo, hi in zip(cuts[:-1], cuts[1:]):
            interior = [x for x in kn[p + 1:-(p + 1)] if lo < x < hi]
            ax_p.append(np.array([lo] * (p + 1) + interior + [hi] * (p + 1)))
        pieces.append(ax_p)
    f = (lambda x, y: 1.0 + x + 2 * y * y) if dim == 2 else (lambda x, y, z: 1.0 + x + 2 * y * y - z)
    probs = []
    try:
        patches, cells = [], []
        for combo in itertools.product(*(range(len(a)) for a in pieces)):
            kvs = tuple(bspline.KnotVector(pieces[k][c], p) for k, c in enumerate(combo))
            patches.append((kvs, G))
            cells.append(combo)
        mp = assemble.Multipatch(patches, automatch=False)
        # join all neighbouring cells along every axis (order: as enumerated; cross points need merging)
        joins = []
        for a, ca in enumerate(cells):
            for b, cb in enumerate(cells):
                diff = [cb[k] - ca[k] for k in range(dim)]
                if sorted(map(abs, diff)) == [0] * (dim - 1) + [1] and sum(diff) == 1:
                    ax = [k for k in range(dim) if diff[k] == 1][0]
                    joins.append((a, (ax, 1), b, (ax, 0)))
        order = case.get("order")
        if order is not None:
            joins = [joins[i] for i in order]
        for (a, bda, b, bdb) in joins:
            mp.join_boundaries(a, bda, b, bdb, None)
        mp.finalize()
        A, rhs = mp.assemble_system(vform.stiffness_vf(dim), vform.L2functional_vf(dim, physical=True),
                                    args={"f": f})
        M, _ = mp.assemble_system(vform.mass_vf(dim), vform.L2functional_vf(dim, physical=True), args={"f": f})
        A1 = assemble.assemble(vform.stiffness_vf(dim), kvs_full, geo=G)
        M1 = assemble.assemble(vform.mass_vf(dim), kvs_full, geo=G)
        b1 = assemble.assemble(vform.L2functional_vf(dim, physical=True), kvs_full, geo=G, f=f).ravel()
        nd = int(mp.numdofs)
        idx = [np.asarray(mp.patch_to_global_idx(q)) for q in range(len(patches))]
    except Exception as e:
        return [("split:exception:%s" % type(e).__name__, "multipatch assembly raised %r" % (e,))]
    n_full = int(np.prod([kv.numdofs for kv in kvs_full]))
    if nd != n_full:
        return [("split:numdofs", "glued space has %d dofs, the undivided C^0 space has %d" % (nd, n_full))]
    # renumbering by coinciding Greville points (parameter domain)
    gfull = [_greville(k, p) for k in kn_full]
    key = lambda t: tuple(int(round(x * 1e9)) for x in t)
    pos_full = {key(tuple(g[i] for g, i in zip(gfull, mi))): int(np.ravel_multi_index(mi, [len(g) for g in gfull]))
                for mi in itertools.product(*(range(len(g)) for g in gfull))}
    perm = -np.ones(nd, dtype=int)     # global multipatch index -> single-patch index
    for q, (kvs, _) in enumerate(patches):
        gs = [_greville(np.asarray(kv.kv), p) for kv in kvs]
        shape = [len(g) for g in gs]
        for mi in itertools.product(*(range(n) for n in shape)):
            loc = int(np.ravel_multi_index(mi, shape))
            k = key(tuple(g[i] for g, i in zip(gs, mi)))
            if k not in pos_full:
                raise RuntimeError("harness: Greville point of a sub-patch dof not found in the undivided space")
            tgt = pos_full[k]
            g = int(idx[q][loc])
            if perm[g] not in (-1, tgt):
                probs.append(("split:renumber", "global dof %d is shared by dofs at different positions" % g))
            perm[g] = tgt
    if probs:
        return probs
    if sorted(perm.tolist()) != list(range(nd)):
        return [("split:renumber", "glued numbering is not a bijection onto the undivided dofs")]
    Pm = np.zeros((nd, nd))
    Pm[np.arange(nd), perm] = 1.0       # row = multipatch index, col = single index
    for name, X, X1 in (("stiffness", A, A1), ("mass", M, M1)):
        Xd = np.asarray(X.todense())
        X1d = Pm @ np.asarray(X1.todense()) @ Pm.T
        err = np.abs(Xd - X1d).max()
        if not err <= 1e-11 * np.abs(X1d).max():
            probs.append(("split:%s" % name, "multipatch %s matrix differs from the undivided one by %.3g (max entry %.3g)"
                          % (name, err, np.abs(X1d).max())))
    err = np.abs(rhs - Pm @ b1).max()
    if not err <= 1e-11 * np.abs(b1).max():
        probs.append(("split:rhs", "multipatch load vector differs from the undivided one by %.3g" % err))
    return probs


# ------------------------------------------------------------------------------------------------
# Part D: multipatch Dirichlet data
# ------------------------------------------------------------------------------------------------

def bc_cases(tier):
    from props import c14
    cases = []
    for cfg in c14.configs(tier):
        if cfg["complex"] in ("grid2x2", "grid3x2", "lshape", "grid2x1", "grid2x2x1", "grid2x2x2"):
            if cfg["complex"] == "grid2x2x2" and cfg.get("reparam"):
                continue
            cases.append({"part": "bc", "cfg": cfg})
    return cases


def bc_problems(case):
    from pyiga import assemble
    from props import c14
    cfg = case["cfg"]
    patches = c14.make_complex(cfg)
    py = c14.to_pyiga(patches)
    intfs, unrep = R.reference_interfaces(patches)
    d = patches[0].d
    g = (lambda x, y: 1.0 + 2 * x - 3 * y) if d == 2 else (lambda x, y, z: 1.0 + 2 * x - 3 * y + 0.5 * z)
    # outer faces = faces that take part in no interface
    used = {(i[0], i[1]) for i in intfs} | {(i[2], i[3]) for i in intfs}
    outer = [(q, bd) for q in range(len(patches)) for bd in itertools.product(range(d), (0, 1)) if (q, bd) not in used]
    try:
        mp = assemble.Multipatch(py, automatch=False)
        for i in intfs:
            mp.join_boundaries(*i)
        mp.finalize()
        idx = [np.asarray(mp.patch_to_global_idx(q)) for q in range(len(patches))]
        ind, val = mp.compute_dirichlet_bcs([(q, bd, g) for (q, bd) in outer])
        # the same conditions listed in other orders (a patch re-appears after other patches): same result
        alt = []
        for name, lst in (("interleaved", sorted(outer, key=lambda t: (t[1], t[0]))),
                          ("interleaved-reversed", sorted(outer, key=lambda t: (t[1], t[0]))[::-1]),
                          ("alternating", outer[0::2] + outer[1::2])):
            alt.append((name, mp.compute_dirichlet_bcs([(q, bd, g) for (q, bd) in lst])))
    except Exception as e:
        return [("bc:exception:%s" % type(e).__name__, "multipatch Dirichlet computation raised %r" % (e,))]
    want = {}
    for (q, bd) in outer:
        P = patches[q]
        pos = P.dof_positions()
        for mi in R.face_multi_indices(P.ndofs, *bd):
            want[int(idx[q][P.ravel(mi)])] = g(*pos[mi])
    ind = np.asarray(ind)
    probs = []
    if ind.tolist() != sorted(want):
        probs.append(("bc:indices", "Dirichlet indices %s.. != sorted glued boundary dofs %s.." % (ind.tolist()[:8], sorted(want)[:8])))
        return probs
    ref = np.array([want[i] for i in ind.tolist()])
    err = np.abs(np.asarray(val) - ref).max()
    if not err <= 1e-11 * max(1.0, np.abs(ref).max()):
        probs.append(("bc:values", "Dirichlet values differ from the boundary data at the dof positions by %.3g" % err))
    for name, (ind2, val2) in alt:
        ind2, val2 = np.asarray(ind2), np.asarray(val2)
        if ind2.tolist() != sorted(want):
            probs.append(("bc:order:indices", "conditions listed %s: Dirichlet indices %s.. != sorted glued boundary dofs %s.."
                          % (name, ind2.tolist()[:8], sorted(want)[:8])))
        elif not np.abs(val2 - ref).max() <= 1e-11 * max(1.0, np.abs(ref).max()):
            probs.append(("bc:order:values", "conditions listed %s: Dirichlet values differ from the boundary data by %.3g"
                          % (name, np.abs(val2 - ref).max())))
    return probs


def _w(case):
    if case["part"] == "split":
        return case, split_problems(case)
    return case, bc_problems(case)


def run(ctx, out):
    cases = split_cases(ctx.tier)
    # cross-point splits additionally with every join order (4 interfaces -> 24 orders)
    extra = []
    for c in cases:
        nsplit = [len(a[2]) for a in c["axes"]]
        if c["dim"] == 2 and nsplit == [1, 1] and c["geo"] == "bilinear":
            for order in itertools.permutations(range(4)):
                extra.append(dict(c, order=list(order)))
    cases = cases + extra + bc_cases(ctx.tier)
    for case, probs in par.pmap(_w, cases):
        out.transitions += 1
        out.part(case["part"], cases=1)
        out.nontrivial.add((case["part"], repr(sorted(case.items(), key=lambda kv: kv[0]))))
        for key, msg in probs:
            out.add_violation(key, "%s: %s" % ({k: v for k, v in case.items() if k != "cfg"} if case["part"] == "split" else case["cfg"], msg), case)
    out.sample(cases[0], limit=8)
    ctx.log("split/bc cases=%d" % len(cases))
