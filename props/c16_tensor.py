"""C16 helpers: tensor-product application routines and the CSR row views."""
import json
import os
import subprocess
import sys
import warnings

import numpy as np

from props.c16_ops import make_operand, digest, nontrivial_matrix, _excname
from ref import linops as R


def _order(A, order):
    if order == "C":
        return np.ascontiguousarray(A)
    if order == "F":
        return np.asfortranarray(A)
    if order == "V":      # non-contiguous view into a larger buffer
        big = np.zeros(tuple(2 * s for s in A.shape))
        view = big[tuple(slice(0, 2 * s, 2) for s in A.shape)]
        view[...] = A
        return view
    raise ValueError(order)


def _compare(part, label, thunk, exp, form, probs):
    """run one implementation call, compare exactly; returns False when a problem was recorded"""
    try:
        got = np.asarray(thunk())
    except Exception as e:
        probs.append(("%s:exception:%s" % (part, _excname(e)), "%s raised %r" % (label, e), None, form))
        return False
    if got.shape != exp.shape:
        probs.append(("%s:shape" % part, "%s returned shape %s, expected %s" % (label, got.shape, exp.shape), None, form))
        return False
    if not np.array_equal(got, exp):
        bad = np.argwhere(got != exp)[0].tolist()
        probs.append(("%s:value" % part, "%s differs from the dense definition, first at %s: got %r expected %r"
                      % (label, bad, got[tuple(bad)].item(), exp[tuple(bad)].item()), None, form))
        return False
    return True


def tprod_problems(case):
    """tensor.apply_tprod(ops, A): ops[i] = [m, n, kind] with kind '-' = None (identity placeholder, m == n)"""
    from pyiga import tensor
    seed = case.get("seed", 0)
    ops, mats = [], []
    for i, (m, n, k) in enumerate(case["ops"]):
        if k == "-":
            ops.append(None)
            mats.append(np.eye(n))
        else:
            obj, dn = make_operand(k, m, n, i, seed)
            ops.append(obj)
            mats.append(dn)
    shape_in = tuple(n for _, n, _ in case["ops"])
    trail = tuple(case["trail"])
    full = shape_in + trail
    N = R.prod(full)
    probs, calls = [], 0
    with warnings.catch_warnings():
        warnings.simplefilter("ignore")
        for form in case["forms"]:
            if form == "unit":          # every unit tensor: decides the (linear) map
                for flat in range(N):
                    A = np.zeros(N)
                    A[flat] = 1.0
                    A = A.reshape(full)
                    calls += 1
                    if not _compare("tprod", "apply_tprod(ops, unit tensor %d)" % flat,
                                    lambda: tensor.apply_tprod(tuple(ops), A), R.tprod_ref(mats, A), form, probs):
                        break
            elif form in ("C", "F", "V"):
                A = _order(R.payload(1, N, 3, seed).reshape(full), form)
                calls += 2
                _compare("tprod", "apply_tprod(tuple ops, %s-ordered payload)" % form,
                         lambda: tensor.apply_tprod(tuple(ops), A), R.tprod_ref(mats, A), form, probs) and \
                    _compare("tprod", "apply_tprod(list ops, %s-ordered payload)" % form,
                             lambda: tensor.apply_tprod(list(ops), A), R.tprod_ref(mats, A), form, probs)
            elif form == "eye":         # identity as one more trailing axis: the whole matrix in one call
                n_in = R.prod(shape_in)
                A = np.eye(n_in * R.prod(trail)).reshape(full + (n_in * R.prod(trail),))
                calls += 1
                _compare("tprod", "apply_tprod(ops, identity with an extra trailing axis)",
                         lambda: tensor.apply_tprod(tuple(ops), A), R.tprod_ref(mats, A), form, probs)
            else:
                raise ValueError(form)
    K = R.kron_all(mats)
    nontriv = nontrivial_matrix(K) and len(ops) >= 2 and any(o is None for o in ops) and any(o is not None for o in ops)
    return probs, {"calls": calls, "nontrivial": nontriv, "digest": digest(K)}


def modek_problems(case):
    from pyiga import tensor
    seed = case.get("seed", 0)
    xshape, k, m = tuple(case["xshape"]), case["k"], case["m"]
    B, Bd = make_operand(case["kind"], m, xshape[k], 0, seed)
    N = R.prod(xshape)
    probs, calls = [], 0
    with warnings.catch_warnings():
        warnings.simplefilter("ignore")
        for form in case["forms"]:
            if form == "unit":
                for flat in range(N):
                    X = np.zeros(N)
                    X[flat] = 1.0
                    X = X.reshape(xshape)
                    calls += 1
                    if not _compare("modek", "modek_tprod(B, %d, unit tensor %d)" % (k, flat),
                                    lambda: tensor.modek_tprod(B, k, X), R.modek_ref(Bd, k, X), form, probs):
                        break
            else:
                X = _order(R.payload(1, N, 3, seed).reshape(xshape), form)
                calls += 1
                _compare("modek", "modek_tprod(B, %d, %s-ordered payload)" % (k, form),
                         lambda: tensor.modek_tprod(B, k, X), R.modek_ref(Bd, k, X), form, probs)
    return probs, {"calls": calls, "nontrivial": nontrivial_matrix(Bd) and len(xshape) >= 2 and N > xshape[k],
                   "digest": "%s/%d/%s" % (xshape, k, digest(Bd))}


def applykron_problems(case):
    """kronecker.apply_kronecker(ops, x) for square operands"""
    from pyiga import kronecker
    from props.c16_ops import form_calls
    seed = case.get("seed", 0)
    pairs = [make_operand(k, n, n, i, seed) for i, (n, k) in enumerate(case["factors"])]
    objs = [p[0] for p in pairs]
    D = R.kron_all([p[1] for p in pairs])

    class _Q:       # adapter so that the shared argument-form generator can drive the function
        shape = D.shape

        @staticmethod
        def dot(x):
            return kronecker.apply_kronecker(tuple(objs), x)
        matvec = matmat = dot

        def __matmul__(self, x):
            return kronecker.apply_kronecker(list(objs), x)

    branch = "tensordot" if all(k == "d" for _, k in case["factors"]) else "linops"
    probs, calls = [], 0
    with warnings.catch_warnings():
        warnings.simplefilter("ignore")
        for form in case["forms"]:
            for label, thunk, exp in form_calls(_Q(), D, form, seed):
                calls += 1
                if not _compare("applykron", "apply_kronecker: " + label, thunk, exp, form, probs):
                    break
        if not probs and len(objs) >= 2:
            # half-integer factors applied to integer / float32 arguments
            objs[:] = [make_operand(k, n, n, i, seed, scale=0.5)[0] for i, (n, k) in enumerate(case["factors"])]
            D2 = D * 0.5 ** len(objs)
            for label, thunk, exp in form_calls(_Q(), D2, "d", seed):
                calls += 1
                if not _compare("applykron", "apply_kronecker (half-integer factors): " + label, thunk, exp, "d", probs):
                    break
    probs = [(key + (":" + branch if key.endswith(("value", "shape")) else ""), msg, a, f) for key, msg, a, f in probs]
    return probs, {"calls": calls, "nontrivial": nontrivial_matrix(D) and len(objs) >= 2, "digest": digest(D)}


def rowslice_problems(case):
    import scipy.sparse as sp
    from pyiga import utils
    seed = case.get("seed", 0)
    m, n = case["shape"]
    Ad = R.pattern_matrix(m, n, case["pattern"], seed)
    A = sp.csr_matrix(Ad)
    r0, r1 = case["bounds"]
    E = Ad[r0:r1]
    probs, calls = [], 0
    try:
        S = utils.CSRRowSlice(A, (r0, r1))
    except Exception as e:
        return [("rowslice:construct:exception:%s" % _excname(e), "CSRRowSlice(A,(%d,%d)) raised %r" % (r0, r1, e), None, None)], {}
    if tuple(S.shape) != E.shape:
        return [("rowslice:shape", "CSRRowSlice.shape=%s expected %s" % (tuple(S.shape), E.shape), None, None)], {}
    I = np.eye(n)
    for form in case["forms"]:
        if form == "v":
            todo = [("dot(e_%d)" % j, "dot", I[:, j].copy()) for j in range(n)] + [("* x(n,)", "mul", R.xvec(n, seed))]
        elif form == "c":
            todo = [("dot(e_%d as (n,1))" % j, "dot", I[:, j:j + 1].copy()) for j in range(n)]
        elif form == "IC":
            todo = [("dot(eye)", "dot", I), ("* X(n,2)", "mul", R.xmat(n, 2, seed))]
        elif form == "IF":
            todo = [("dot(eye F-ordered)", "dot", np.asfortranarray(I)),
                    ("dot(X(n,3) F-ordered)", "dot", np.asfortranarray(R.xmat(n, 3, seed)))]
        else:
            raise ValueError(form)
        for label, how, x in todo:
            calls += 1
            f = (lambda: S.dot(x)) if how == "dot" else (lambda: S * x)
            if not _compare("rowslice", "CSRRowSlice(A,(%d,%d)) %s" % (r0, r1, label), f, E @ x, form, probs):
                break
    # the view must not have modified the matrix it refers to
    if not np.array_equal(A.toarray(), Ad):
        probs.append(("rowslice:mutates-matrix", "applying the row slice changed the underlying CSR matrix", None, None))
    nnz_rows = (Ad != 0).sum(axis=1)
    return probs, {"calls": calls, "nontrivial": bool(0 < r0 < r1 < m or (r1 - r0 >= 1 and (nnz_rows == 0).any() and Ad.any())),
                   "digest": digest(E)}


def rowsubset_problems(case):
    import scipy.sparse as sp
    from pyiga import utils
    seed = case.get("seed", 0)
    m, n = case["shape"]
    Ad = R.pattern_matrix(m, n, case["pattern"], seed)
    A = sp.csr_matrix(Ad)
    rows = list(case["rows"])
    E = Ad[rows] if rows else np.zeros((0, n))
    probs, calls = [], 0
    for rk in case["rowkinds"]:
        rr = rows if rk == "list" else np.array(rows, dtype=int)
        try:
            S = utils.CSRRowSubset(A, rr)
        except Exception as e:
            probs.append(("rowsubset:construct:exception:%s" % _excname(e), "CSRRowSubset(A,%r) raised %r" % (rows, e), None, None))
            continue
        if tuple(S.shape) != E.shape:
            probs.append(("rowsubset:shape", "CSRRowSubset.shape=%s expected %s" % (tuple(S.shape), E.shape), None, None))
            continue
        I = np.eye(n)
        todo = [("dot(e_%d)" % j, "dot", I[:, j].copy()) for j in range(n)] + [("* x(n,)", "mul", R.xvec(n, seed))]
        for label, how, x in todo:
            calls += 1
            f = (lambda: S.dot(x)) if how == "dot" else (lambda: S * x)
            if not _compare("rowsubset", "CSRRowSubset(A,%s %r) %s" % (rk, rows, label), f, E @ x, None, probs):
                break
    return probs, {"calls": calls, "nontrivial": bool(len(rows) >= 2 and (len(set(rows)) < len(rows) or rows != sorted(rows))
                                                       and np.count_nonzero(Ad) >= 2),
                   "digest": digest(E)}


# ------------------------------------------------------------------------------------------------
# sandbox for the CSR row views: they hand raw index arrays to scipy's C kernels (no bounds checks), so a
# defect there can corrupt memory or kill the interpreter.  These cases run in a child process; a signal
# death is a problem of the case that was running.
# ------------------------------------------------------------------------------------------------

_VERIF = os.path.dirname(os.path.dirname(os.path.abspath(__file__)))
_CHILD = ("import sys; sys.path.insert(0, %r); from props import c16_tensor; c16_tensor._child_main()" % _VERIF)
_SANDBOXED = {"rowslice": rowslice_problems, "rowsubset": rowsubset_problems}


def _child_main():
    cases = json.load(sys.stdin)
    out = sys.stdout
    for case in cases:
        probs, stats = _SANDBOXED[case["part"]](case)
        out.write(json.dumps({"probs": probs, "stats": stats}) + "\n")
        out.flush()


def sandbox_eval(cases):
    """evaluate rowslice/rowsubset cases in child processes; returns [(problems, stats)] in order"""
    results = []
    todo = list(cases)
    while todo:
        r = subprocess.run([sys.executable, "-c", _CHILD], input=json.dumps(todo), capture_output=True, text=True)
        lines = [ln for ln in r.stdout.splitlines() if ln.startswith("{")]
        for ln in lines[:len(todo)]:
            d = json.loads(ln)
            results.append(([tuple(p) for p in d["probs"]], d["stats"]))
        done = min(len(lines), len(todo))
        if done == len(todo):
            break
        # the child died while running todo[done]
        case = todo[done]
        if r.returncode < 0:
            key = "%s:crash:signal%d" % (case["part"], -r.returncode)
            msg = "the interpreter was killed by signal %d while applying the row view" % (-r.returncode)
            results.append(([(key, msg, None, None)], {}))
        else:
            raise RuntimeError("harness: sandbox child failed (exit %d) on %r:\n%s" % (r.returncode, case, r.stderr[-2000:]))
        todo = todo[done + 1:]
    return results
