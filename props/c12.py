"""C12 -- time integrators realise consistent RK/Rosenbrock schemes of their stated order.

Part (i)   order:   the 8 rooted-tree order conditions (order <= 4) in exact rational arithmetic for main and
                    embedded weights of every shipped tableau, against the documented order; err_order
                    against the documented embedded order; structural claims (stiff accuracy, constant
                    Gamma diagonal).
Part (ii)  stage:   dirk_step / rosenbrock_step on an exhaustive grid (method x mass matrix kind x L alphabet
                    x c x n x tau x every unit start vector and 0) with an instrumented F; the recorded stage
                    values are replayed against the tableau's stage equations and, for affine F, compared
                    with the exact rational solution; y'=const exact; polynomial non-linear F.
Part (iii) drivers: _constant_step_method, _adaptive_step_method (scripted stepper, every error-ratio
                    sequence) and newton (scripted residual) as state machines  -> props/c12_drivers.py
"""
import itertools
import math

import numpy as np

from mc import par
from mc.outcome import Outcome
from ref import rk as R

ID = "C12"
LEVEL = "model_checking"

TOL_ORDER = 1e-9          # order conditions (coefficients are given to 10-16 digits)
TOL_STAGE = 1e-9          # norm-wise, relative to max(1, |stage values|); unchanged tree shows <= 1e-12
NEWTON_ATOL = 1e-4        # hard-coded in dirk_step:  newton(..., atol=1e-4)  (rtol: newton's default 1e-6)
NEWTON_RTOL = 1e-6

DIRK = ("crank_nicolson", "sdirk3", "sdirk3_b", "sdirk21", "dirk34", "esdirk23", "esdirk34")
ROS = ("ros3p", "ros3pw", "rowdaind2", "rodasp", "rosi2p1")
# documented orders (main, embedded): source comments / names for the DIRK family, the cited literature
# (and the embedded order the coeffs function returns) for the Rosenbrock family -- DESIGN section C12
DOC_ORDER = {
    "crank_nicolson": (2, None), "sdirk3": (3, None), "sdirk3_b": (4, None), "sdirk21": (2, 1),
    "dirk34": (3, 2), "esdirk23": (2, 3), "esdirk34": (3, 4),
    "ros3p": (3, 2), "ros3pw": (3, 2), "rowdaind2": (3, 2), "rodasp": (4, 3), "rosi2p1": (3, 2),
}
# stiff accuracy as claimed by the source comments
DOC_STIFFLY_ACCURATE = {"dirk34": True, "esdirk23": True, "esdirk34": True, "sdirk3_b": False}
COEFFS = {m: "coeffs_" + m for m in DIRK + ROS if m != "crank_nicolson"}

# rosenbrock_step has no `M is None` branch and the public docstring only says "M (matrix)"; None is
# documented for dirk_step only ("M: mass matrix or None"), so M=None is generated for the DIRK family only.
ROS_M_NONE = False

USER_DIRK = {
    "user:ieuler": [[1.0], [1.0]],
    "user:midpoint": [[0.5], [1.0]],
    "user:qz": [[0.25, 0.0], [0.5, 0.25], [0.5, 0.5]],
    # explicit first stage, distinct diagonals, not stiffly accurate, embedded weights
    "user:emb3": [[0.0, 0.0, 0.0], [0.25, 0.25, 0.0], [0.2, 0.3, 0.4], [0.3, 0.3, 0.4], [0.5, 0.25, 0.25]],
    # implicit first stage, not stiffly accurate, embedded weights
    "user:emb2": [[0.5, 0.0], [-0.25, 0.75], [0.375, 0.625], [1.0, 0.0]],
}
_G2 = 1.7071067811865475
USER_ROS = {
    "user:lieuler": ([[0.0]], [[1.0]], [1.0], None),
    "user:ros2": ([[0.0, 0.0], [1.0, 0.0]], [[_G2, 0.0], [-2 * _G2, _G2]], [0.5, 0.5], [1.0, 0.0]),
}


# ------------------------------------------------------------------------------------------------
# shipped tableaux
# ------------------------------------------------------------------------------------------------

def _closure(f):
    return dict(zip(f.__code__.co_freevars, [c.cell_contents for c in (f.__closure__ or ())]))


def shipped(name, source="method"):
    """tableau of a shipped method: source='method' = what the public function really uses (read from its
    closure), source='coeffs' = what coeffs_<name>() returns now"""
    from pyiga import solvers as S
    if name in USER_DIRK:
        return {"kind": "dirk", "T": np.array(USER_DIRK[name], dtype=float), "err_order": None}
    if name in USER_ROS:
        a, g, b, bh = USER_ROS[name]
        return {"kind": "ros", "alpha": np.array(a, float), "Gamma": np.array(g, float), "b": np.array(b, float),
                "b_hat": None if bh is None else np.array(bh, float), "err_order": None}
    if source == "coeffs":
        if name not in COEFFS:
            return None
        r = getattr(S, COEFFS[name])()
        if name in DIRK:
            if isinstance(r, tuple):
                return {"kind": "dirk", "T": np.asarray(r[0], float), "err_order": r[1]}
            return {"kind": "dirk", "T": np.asarray(r, float), "err_order": None}
        a, g, b, bh, eo = r
        return {"kind": "ros", "alpha": np.asarray(a, float), "Gamma": np.asarray(g, float),
                "b": np.asarray(b, float), "b_hat": np.asarray(bh, float), "err_order": eo}
    cl = _closure(getattr(S, name))
    st = _closure(cl["stepper"])
    if name in DIRK:
        return {"kind": "dirk", "T": np.asarray(st["A"], float), "err_order": cl.get("err_order")}
    return {"kind": "ros", "alpha": np.asarray(st["A"], float), "Gamma": np.asarray(st["Gamma"], float),
            "b": np.asarray(st["b"], float), "b_hat": None if st["b_hat"] is None else np.asarray(st["b_hat"], float),
            "err_order": cl.get("err_order")}


def _same_tableau(a, b):
    if a["kind"] != b["kind"]:
        return False
    keys = ("T",) if a["kind"] == "dirk" else ("alpha", "Gamma", "b", "b_hat")
    for k in keys:
        if (a[k] is None) != (b[k] is None):
            return False
        if a[k] is not None and not (a[k].shape == b[k].shape and np.array_equal(a[k], b[k])):
            return False
    return a["err_order"] == b["err_order"]


# ------------------------------------------------------------------------------------------------
# Part (i): order conditions
# ------------------------------------------------------------------------------------------------

def _weights(tb):
    """[(label, residuals)] for main / embedded weights"""
    out = []
    if tb["kind"] == "dirk":
        A, b, bh = R.split_dirk(tb["T"])
        out.append(("main", R.rk_residuals(A, b)))
        if bh is not None:
            out.append(("embedded", R.rk_residuals(A, bh)))
    else:
        out.append(("main", R.ros_residuals(tb["alpha"], tb["Gamma"], tb["b"])))
        if tb["b_hat"] is not None:
            out.append(("embedded", R.ros_residuals(tb["alpha"], tb["Gamma"], tb["b_hat"])))
    return out


def order_info(name):
    """attained orders of what ships: {'main': p, 'embedded': q}"""
    return {lab: R.attained_order(res, TOL_ORDER) for lab, res in _weights(shipped(name))}


def order_problems(name):
    probs = []
    try:
        tbs = [("method", shipped(name, "method"))]
        c = shipped(name, "coeffs")
        if c is not None:
            if not _same_tableau(c, tbs[0][1]):
                probs.append(("order:%s:coeffs-differ-from-method" % name,
                              "coeffs_%s() does not return the tableau the public method %s uses" % (name, name)))
                tbs.append(("coeffs", c))
    except Exception as e:
        return [("order:%s:exception:%s" % (name, type(e).__name__), "reading the tableau raised %r" % (e,))]
    doc_main, doc_emb = DOC_ORDER[name]
    seen = set()
    for src, tb in tbs:
        ws = dict(_weights(tb))
        if (doc_emb is not None) != ("embedded" in ws):
            probs.append(("order:%s:embedded-missing" % name, "documented embedded order %s, tableau has %s embedded weights"
                          % (doc_emb, "" if "embedded" in ws else "no")))
        for lab, doc in (("main", doc_main), ("embedded", doc_emb)):
            if doc is None or lab not in ws:
                continue
            for q, bad in sorted(R.failing(ws[lab], doc, TOL_ORDER).items()):
                key = "order:%s:%s:o%d" % (name, lab, q)
                if key in seen:
                    continue
                seen.add(key)
                probs.append((key, "%s %s weights (documented order %d, attained %d; tableau from %s): order-%d "
                              "condition(s) violated: %s" % (name, lab, doc, R.attained_order(ws[lab], TOL_ORDER), src, q,
                                                             ", ".join("%s residual %.3e" % tr for tr in bad))))
        if doc_emb is not None and tb["err_order"] != doc_emb and ("order:%s:err_order" % name) not in seen:
            seen.add("order:%s:err_order" % name)
            probs.append(("order:%s:err_order" % name, "err_order=%r handed to the step controller, documented embedded "
                          "order %d" % (tb["err_order"], doc_emb)))
        # structure
        if tb["kind"] == "dirk":
            A, b, bh = R.split_dirk(tb["T"])
            s = A.shape[0]
            if np.any(np.triu(A, 1) != 0) or any(A[i, i] == 0 for i in range(1, s)):
                probs.append(("structure:%s:dirk-shape" % name, "A is not lower triangular with non-zero diagonal "
                              "(only a_11 may vanish: dirk_step asserts it)"))
            if name in DOC_STIFFLY_ACCURATE:
                sa = bool(np.max(np.abs(b - A[s - 1])) <= 1e-12)
                if sa != DOC_STIFFLY_ACCURATE[name] and ("structure:%s:stiffly-accurate" % name) not in seen:
                    seen.add("structure:%s:stiffly-accurate" % name)
                    probs.append(("structure:%s:stiffly-accurate" % name, "source comment says stiffly accurate=%s, "
                                  "b == last row of A is %s" % (DOC_STIFFLY_ACCURATE[name], sa)))
        else:
            al, G = tb["alpha"], tb["Gamma"]
            if np.any(np.triu(al) != 0) or np.any(np.triu(G, 1) != 0):
                probs.append(("structure:%s:ros-shape" % name, "alpha not strictly lower / Gamma not lower triangular"))
            if np.any(np.diag(G) != G[0, 0]) and ("structure:%s:gamma-diagonal" % name) not in seen:
                seen.add("structure:%s:gamma-diagonal" % name)
                probs.append(("structure:%s:gamma-diagonal" % name, "rosenbrock_step assumes a constant Gamma diagonal, "
                              "diag = %s" % np.diag(G)))
    return probs


# ------------------------------------------------------------------------------------------------
# problems for Part (ii)
# ------------------------------------------------------------------------------------------------

M_KINDS = ("none", "eye", "dense", "sparse")
L_NAMES = ("zero", "decay", "osc", "stiff", "nonnormal", "stiffnn")
C_NAMES = ("0", "int")
TAUS = (1e-3, 1e-2, 1e-1, 1.0)


def make_M(kind, n, seed):
    """(object handed to pyiga, dense float array).  SPD by strict diagonal dominance, integer entries."""
    import scipy.sparse
    if kind == "none":
        return None, np.eye(n)
    if kind == "eye":
        return np.eye(n), np.eye(n)
    rng = np.random.RandomState(1000 + 17 * seed + n)
    B = np.zeros((n, n))
    for i in range(n):
        for j in range(i):
            if kind == "sparse" and abs(i - j) > 1:
                continue
            B[i, j] = B[j, i] = float(rng.randint(1, 3)) * (-1.0 if (i + j + seed) % 2 else 1.0)
    Md = B + np.diag(np.abs(B).sum(axis=1) + 1.0 + rng.randint(0, 3, size=n))
    if kind == "dense":
        return Md.copy(), Md
    return scipy.sparse.csr_matrix(Md), Md


def make_L(name, n):
    Z = np.zeros((n, n))
    if name == "zero":
        return Z
    tab = {
        "decay": {1: [[-1.0]], 2: [[-1.0, 0], [0, -2.0]], 3: [[-1.0, 0, 0], [0, -2.0, 0], [0, 0, -3.0]]},
        "osc": {1: [[0.5]], 2: [[0, 1.0], [-1.0, 0]], 3: [[0, 1.0, 0], [-1.0, 0, 2.0], [0, -2.0, 0]]},
        "stiff": {1: [[-1000.0]], 2: [[0, 1.0], [-1000.0, -1001.0]],
                  3: [[0, 1.0, 0], [-1000.0, -1001.0, 0], [1.0, 0, -100.0]]},
        "nonnormal": {1: [[-2.0]], 2: [[-2.0, 2.0], [0, -1.0]], 3: [[-2.0, 2.0, 1.0], [0, -1.0, 3.0], [0, 0, -3.0]]},
        "stiffnn": {1: [[-1e4]], 2: [[-1000.0, 60.0], [0, -1.0]], 3: [[-1000.0, 60.0, 0], [0, -1.0, 1.0], [0, 0, -50.0]]},
    }
    return np.array(tab[name][n], dtype=float)


def make_c(name, n, seed):
    if name == "0":
        return np.zeros(n)
    return np.array([float(((k + seed) % 4) + 1) * (-1.0 if (k + seed) % 2 else 1.0) for k in range(n)])


def start_vector(n, k):
    x = np.zeros(n)
    if k >= 0:
        x[k] = 1.0
    return x


# polynomial non-linear right-hand sides: generic in the number type (floats or Fractions)
def _nl_F(name, y, K):
    if name == "logistic":
        return [y[0] * (K(1, 1) - y[0])]
    if name == "vdp":
        return [y[1], K(1, 2) * (K(1, 1) - y[0] * y[0]) * y[1] - y[0]]
    if name == "lv3":
        return [y[0] * (K(1, 1) - y[1]), y[1] * (y[0] - K(1, 1)) - K(1, 2) * y[1] * y[2], y[0] * y[1] - y[2]]
    raise ValueError(name)


def _nl_J(name, y, K):
    o, z = K(1, 1), K(0, 1)
    if name == "logistic":
        return [[o - K(2, 1) * y[0]]]
    if name == "vdp":
        return [[z, o], [-y[0] * y[1] - o, K(1, 2) * (o - y[0] * y[0])]]
    if name == "lv3":
        return [[o - y[1], -y[0], z], [y[1], (y[0] - o) - K(1, 2) * y[2], -K(1, 2) * y[1]], [y[1], y[0], -o]]
    raise ValueError(name)


NL_STARTS = {
    "logistic": [[0.125], [0.5], [2.0]],
    "vdp": [[2.0, 0.0], [1.0, 1.0], [-0.5, 0.5]],
    "lv3": [[1.0, 2.0, 0.5], [0.5, 0.5, 0.5]],
}
_KF = lambda a, b: a / b
_KQ = lambda a, b: R.Fr(a, b)


class Rec:
    """instrumented right-hand side: records (argument copy, value copy) of every evaluation"""
    def __init__(self, f):
        self.f = f
        self.args = []
        self.vals = []

    def __call__(self, y):
        y = np.array(y, dtype=float, copy=True).ravel()
        v = np.asarray(self.f(y), dtype=float)
        self.args.append(y)
        self.vals.append(v.copy())
        return v


def build_problem(case):
    """-> dict(M=object for pyiga, Md=dense, F=Rec, J=callable, x=start, linear=(L,c) or None, nl=name or None)"""
    import scipy.sparse
    n, seed = case["n"], case.get("seed", 0)
    Mobj, Md = make_M(case["M"], n, seed)
    sparseJ = case["M"] == "sparse"
    if case.get("nl"):
        nm = case["nl"]
        f = lambda y: np.array(_nl_F(nm, list(y), _KF), dtype=float)
        jd = lambda y: np.array(_nl_J(nm, list(y), _KF), dtype=float)
        x = np.array(case["x0"], dtype=float)
        lin = None
    else:
        L = make_L(case["L"], n)
        c = make_c(case["c"], n, seed)
        f = lambda y: L @ y + c
        jd = lambda y: L.copy()
        x = start_vector(n, case["x"])
        lin = (L, c)
    J = (lambda y: scipy.sparse.csr_matrix(jd(y))) if sparseJ else jd
    return {"M": Mobj, "Md": Md, "F": Rec(f), "J": J, "x": x, "linear": lin, "nl": case.get("nl"), "f": f}


# ------------------------------------------------------------------------------------------------
# Part (ii): one step against the stage equations
# ------------------------------------------------------------------------------------------------

def _inf(v):
    v = np.asarray(v, dtype=float)
    return float(np.max(np.abs(v))) if v.size else 0.0


def dirk_replay(T, Md, x, tau, rec, Fx_given, start=0):
    """Segment the recorded evaluations (from index `start`) into stages the way a DIRK method with a Newton
    iteration of tolerance max(atol, rtol*|first residual|) produces them.
    -> (ys, Fys, info, problem or None, index after the last evaluation used)"""
    A, b, bh = R.split_dirk(T)
    s = A.shape[0]
    k = start
    ys, Fys, info = [], [], []
    for i in range(s):
        if A[i, i] == 0:
            if Fx_given is not None:
                # F(x) was handed in; an additional evaluation at x (if any) is harmlessly attributed to
                # the Newton iteration of the next stage, which starts at x as well
                ys.append(x.copy()); Fys.append(np.asarray(Fx_given, float))
            elif k < len(rec.args) and np.array_equal(rec.args[k], x):
                ys.append(rec.args[k]); Fys.append(rec.vals[k]); k += 1
            else:
                return ys, Fys, info, ("explicit-stage", "explicit first stage: F was not evaluated at x"), k
            info.append({"explicit": True})
            continue
        if k >= len(rec.args):
            return ys, Fys, info, ("stage-missing", "no evaluation of F recorded for stage %d" % i), k
        res0 = np.linalg.norm(R.dirk_stage_residual(A, i, Md, x, tau, rec.args[k], rec.vals[k], Fys))
        target = max(NEWTON_ATOL, NEWTON_RTOL * res0)
        found = None
        for q in range(k, len(rec.args)):
            r = np.linalg.norm(R.dirk_stage_residual(A, i, Md, x, tau, rec.args[q], rec.vals[q], Fys))
            if abs(r - target) <= 1e-9 * target:
                # tie with the tolerance within rounding: decided by what the recording shows next (a return
                # is followed by the next stage starting at the same point / by the end of the recording)
                if (q + 1 == len(rec.args)) if i == s - 1 else (q + 1 < len(rec.args) and np.array_equal(rec.args[q + 1], rec.args[q])):
                    found = q
                    break
            elif r < target:
                found = q
                break
        if found is None:
            return ys, Fys, info, ("newton-tolerance", "stage %d: none of the %d recorded evaluations meets the stage "
                                   "equation to the Newton tolerance %.3e" % (i, len(rec.args) - k, target)), k
        ys.append(rec.args[found]); Fys.append(rec.vals[found])
        info.append({"explicit": False, "skipped": found == k, "iters": found - k, "res": float(r), "target": target})
        k = found + 1
    return ys, Fys, info, None, k


def update_problems(pre, T, Md, x, tau, ys, Fys, info, x_new, x_est):
    """x_new / x_est against the update equations evaluated on the recorded stage derivatives"""
    A, b, bh = R.split_dirk(T)
    s = A.shape[0]
    probs = []
    scale = max(1.0, _inf(x), max(_inf(y) for y in ys), _inf(x_new))
    fscale = max(1.0, tau * max(_inf(f) for f in Fys), _inf(Md) * scale)
    sa = bool(np.array_equal(b, A[s - 1]))
    upd = Md @ (x_new - x) - tau * sum(b[i] * Fys[i] for i in range(s))
    allow = TOL_STAGE * fscale + (info[-1].get("target", 0.0) * (1 + 1e-9) if sa else 0.0)
    if np.linalg.norm(upd) > allow:
        probs.append((pre + ":x_new", "x_new violates M(x_new-x) = tau*sum b_i F(Y_i) by %.3e (allowed %.3e)"
                      % (np.linalg.norm(upd), allow)))
    if x_est is not None:
        upd = Md @ (x_est - x) - tau * sum(bh[i] * Fys[i] for i in range(s))
        if np.linalg.norm(upd) > TOL_STAGE * fscale:
            probs.append((pre + ":x_est", "x_est violates M(x_est-x) = tau*sum bhat_i F(Y_i) by %.3e" % np.linalg.norm(upd)))
    return probs


def dirk_case_problems(case, stats=None):
    from pyiga import solvers as S
    name = case["method"]
    tb = shipped(name)
    T = tb["T"]
    A, b, bh = R.split_dirk(T)
    s = A.shape[0]
    P = build_problem(case)
    x, tau, Md = P["x"], case["tau"], P["Md"]
    pre = "stage:dirk:M=%s" % case["M"]
    Fx_given = P["f"](x) if case.get("Fx") else None
    try:
        ret = S.dirk_step(T.copy(), P["M"], P["F"], P["J"], x.copy(), tau, dict(),
                          Fx=None if Fx_given is None else Fx_given.copy())
    except S.NoConvergenceError:
        if P["linear"] is None:
            if stats is not None:
                stats["outcome"] = "NoConvergenceError"
            return []        # legitimate for a non-linear problem: Newton raises instead of returning
        return [(pre + ":noconvergence-linear", "Newton did not converge on a linear stage system")]
    except Exception as e:
        return [("%s:exception:%s" % (pre, type(e).__name__), "dirk_step raised %r" % (e,))]
    probs = []
    if len(ret) != (3 if bh is not None else 2):
        return [(pre + ":return-arity", "dirk_step returned %d values" % len(ret))]
    x_new = np.asarray(ret[0], float).ravel()
    x_est = np.asarray(ret[1], float).ravel() if bh is not None else None
    F_x_new = ret[-1]
    ys, Fys, info, bad, _ = dirk_replay(T, Md, x, tau, P["F"], Fx_given)
    if bad:
        return [("%s:%s" % (pre, bad[0]), bad[1])]
    skipped = any(d.get("skipped") for d in info)
    probs += update_problems(pre, T, Md, x, tau, ys, Fys, info, x_new, x_est)
    if F_x_new is not None:
        d = _inf(np.asarray(F_x_new, float).ravel() - P["f"](x_new))
        if d > TOL_STAGE * max(1.0, _inf(P["f"](x_new))):
            probs.append((pre + ":F_x_new", "returned F(x_new) differs from F at the returned x_new by %.3e" % d))
    if stats is not None:
        stats["evals"] = len(P["F"].args)
        stats["skipped"] = skipped
        stats["outcome"] = "ok"
    if P["linear"] is None:
        return probs
    # affine F: exact rational reference
    L, c = P["linear"]
    ref = R.dirk_linear_exact(T, R.fmat(Md), R.fmat(L), R.fvec(c), R.fvec(x), R.fr(tau))
    dev = max(_inf(ys[i] - R.tofloat(ref["Y"][i])) for i in range(s))
    devn = _inf(x_new - R.tofloat(ref["x_new"]))
    deve = _inf(x_est - R.tofloat(ref["x_est"])) if bh is not None else 0.0
    rscale = max(1.0, max(_inf(R.tofloat(y)) for y in ref["Y"]), _inf(R.tofloat(ref["x_new"])))
    if stats is not None:
        stats["dev_skipped" if skipped else "dev"] = max(dev, devn, deve) / rscale
    if max(dev, devn, deve) > TOL_STAGE * rscale:
        if skipped:
            probs.append(("stage:dirk:newton-atol-skip", "the stage system is linear, but Newton (hard-coded absolute "
                          "tolerance 1e-4) accepted its starting guess without solving: stage values deviate from "
                          "the exact solution of the stage equations by %.3e, x_new by %.3e" % (dev, devn)))
        else:
            probs.append((pre + ":stage-equation", "recorded stage values deviate from the exact solution of the "
                          "stage equations by %.3e, x_new by %.3e, x_est by %.3e (scale %.1e)" % (dev, devn, deve, rscale)))
    if case.get("L") == "zero":
        ex = x + tau * np.linalg.solve(Md, c)
        tol = 1e-12 * max(1.0, _inf(ex))
        if _inf(x_new - ex) > tol and not skipped:
            probs.append(("const:%s:main" % name, "y'=const not integrated exactly: x_new - (x + tau*M^-1 c) = %.3e (tau=%g)"
                          % (_inf(x_new - ex), tau)))
        if bh is not None and _inf(x_est - ex) > tol and not skipped:
            probs.append(("const:%s:embedded" % name, "y'=const not integrated exactly by the embedded weights: %.3e"
                          % _inf(x_est - ex)))
    return probs


def ros_case_problems(case, stats=None):
    from pyiga import solvers as S
    name = case["method"]
    tb = shipped(name)
    al, G, b, bh = tb["alpha"], tb["Gamma"], tb["b"], tb["b_hat"]
    s = al.shape[0]
    P = build_problem(case)
    x, tau, Md = P["x"], case["tau"], P["Md"]
    pre = "stage:ros:M=%s" % case["M"]
    try:
        ret = S.rosenbrock_step(al.copy(), G.copy(), b.copy(), None if bh is None else bh.copy(), P["M"], P["F"],
                                P["J"], x.copy(), tau, dict())
    except Exception as e:
        return [("%s:exception:%s" % (pre, type(e).__name__), "rosenbrock_step raised %r" % (e,))]
    if len(ret) != (3 if bh is not None else 2):
        return [(pre + ":return-arity", "rosenbrock_step returned %d values" % len(ret))]
    x_new = np.asarray(ret[0], float).ravel()
    x_est = np.asarray(ret[1], float).ravel() if bh is not None else None
    fx = R.fvec(x)
    if P["linear"] is not None:
        L, c = P["linear"]
        Lq, cq = R.fmat(L), R.fvec(c)
        Fq = lambda y: R.vadd(R.matvec(Lq, y), cq)
        Jq = Lq
    else:
        Fq = lambda y: _nl_F(P["nl"], y, _KQ)
        Jq = _nl_J(P["nl"], fx, _KQ)
    ref = R.ros_exact(al, G, b, bh, R.fmat(Md), Fq, Jq, fx, R.fr(tau))
    Y = [R.tofloat(y) for y in ref["Y"]]
    rscale = max(1.0, max(_inf(y) for y in Y), _inf(R.tofloat(ref["x_new"])))
    probs = []
    # the reference stage values must occur, in order, among the recorded evaluation points
    k, dev = 0, 0.0
    for i in range(s):
        q = next((q for q in range(k, len(P["F"].args)) if _inf(P["F"].args[q] - Y[i]) <= TOL_STAGE * rscale), None)
        if q is None:
            d = min([_inf(a - Y[i]) for a in P["F"].args[k:]] or [float("inf")])
            probs.append((pre + ":stage-equation", "stage %d: F was not evaluated at the stage value of the tableau "
                          "(nearest recorded point off by %.3e, scale %.1e)" % (i, d, rscale)))
            break
        dev = max(dev, _inf(P["F"].args[q] - Y[i]))
        k = q + 1
    devn = _inf(x_new - R.tofloat(ref["x_new"]))
    deve = _inf(x_est - R.tofloat(ref["x_est"])) if bh is not None else 0.0
    if devn > TOL_STAGE * rscale:
        probs.append((pre + ":x_new", "x_new deviates from x + tau*sum b_i k_i (exact) by %.3e (scale %.1e)" % (devn, rscale)))
    if deve > TOL_STAGE * rscale:
        probs.append((pre + ":x_est", "x_est deviates from x + tau*sum bhat_i k_i (exact) by %.3e (scale %.1e)" % (deve, rscale)))
    if stats is not None:
        stats["evals"] = len(P["F"].args)
        stats["dev"] = max(dev, devn, deve) / rscale
        stats["outcome"] = "ok"
    if P["linear"] is not None and case.get("L") == "zero":
        ex = x + tau * np.linalg.solve(Md, P["linear"][1])
        tol = 1e-12 * max(1.0, _inf(ex))
        if _inf(x_new - ex) > tol:
            probs.append(("const:%s:main" % name, "y'=const not integrated exactly: x_new - (x + tau*M^-1 c) = %.3e (tau=%g)"
                          % (_inf(x_new - ex), tau)))
        if bh is not None and _inf(x_est - ex) > tol:
            probs.append(("const:%s:embedded" % name, "y'=const not integrated exactly by the embedded weights: %.3e"
                          % _inf(x_est - ex)))
    return probs


def stage_problems(case, stats=None):
    if case["family"] == "dirk":
        return dirk_case_problems(case, stats)
    return ros_case_problems(case, stats)


def stage_cases(tier, seed):
    quick = tier == "quick"
    cases = []
    ns = (1, 2) if quick else (1, 2, 3)
    for fam, methods in (("dirk", DIRK + tuple(USER_DIRK)), ("ros", ROS + tuple(USER_ROS))):
        for n in ns:
            for m in methods:
                a00 = fam == "dirk" and shipped(m)["T"][0, 0] == 0
                for Mk in M_KINDS:
                    if Mk == "none" and fam == "ros" and not ROS_M_NONE:
                        continue
                    for Ln in L_NAMES:
                        for cn in C_NAMES:
                            for tau in TAUS:
                                for k in range(-1, n):
                                    if Ln == "zero" and cn == "0" and k >= 0 and tau != TAUS[0]:
                                        continue       # F == 0: one tau is enough
                                    if cn == "0" and k < 0 and (tau != TAUS[0] or Ln != "zero"):
                                        continue       # x = 0 and c = 0: F(x) = 0, nothing happens
                                    base = {"part": "stage", "family": fam, "method": m, "M": Mk, "L": Ln, "c": cn,
                                            "n": n, "tau": tau, "x": k, "seed": seed}
                                    cases.append(base)
                                    if a00 and k == 0:
                                        cases.append(dict(base, Fx=1))
    # polynomial non-linear right-hand sides
    for fam, methods in (("dirk", DIRK + tuple(USER_DIRK)), ("ros", ROS + tuple(USER_ROS))):
        for m in methods:
            for nl in ("logistic", "vdp") + (() if quick else ("lv3",)):
                n = len(NL_STARTS[nl][0])
                for Mk in M_KINDS:
                    if Mk == "none" and fam == "ros" and not ROS_M_NONE:
                        continue
                    if quick and Mk == "eye":
                        continue
                    for tau in TAUS:
                        for x0 in NL_STARTS[nl]:
                            cases.append({"part": "stage", "family": fam, "method": m, "M": Mk, "nl": nl, "n": n,
                                          "tau": tau, "x0": x0, "seed": seed})
    return cases


# ------------------------------------------------------------------------------------------------
# check_case / run
# ------------------------------------------------------------------------------------------------

def check_case(case):
    part = case["part"]
    if part == "order":
        return order_problems(case["method"])
    if part == "stage":
        return stage_problems(case)
    from props import c12_drivers as D
    return D.check_case(case)


def _stage_worker(case):
    st = {}
    probs = stage_problems(case, st)
    return case, probs, st


def run(ctx):
    from props import c12_drivers as D
    out = Outcome()
    # ---- (i) ----
    attained = {}
    for m in DIRK + ROS:
        case = {"part": "order", "method": m}
        probs = order_problems(m)
        info = order_info(m)
        attained[m] = info
        nw = len(info)
        out.states += nw
        out.evaluations += 8 * nw
        out.transitions += 8 * nw
        out.part("order", tableaux=1, weight_vectors=nw, conditions=8 * nw)
        out.nontrivial.add(("order", m))
        out.outcomes.add(("order", m, tuple(sorted(info.items()))))
        for key, msg in probs:
            out.add_violation(key, msg, case)
        ctx.log("order %-15s documented %s attained %s err_order=%s problems=%s"
                % (m, DOC_ORDER[m], info, shipped(m)["err_order"], [k for k, _ in probs]))
    out.extra["attained_orders"] = {m: attained[m] for m in attained}
    out.sample({"part": "order", "method": "esdirk34", "attained": attained["esdirk34"]})
    # ---- (ii) ----
    cases = stage_cases(ctx.tier, ctx.seed)
    maxdev, maxdev_sk, skipped, noconv = 0.0, 0.0, 0, 0
    for case, probs, st in par.pmap(_stage_worker, cases):
        out.states += 1
        out.evaluations += 1
        out.transitions += 1 + st.get("evals", 0)
        out.traces += 1
        nl = bool(case.get("nl"))
        out.part("stage-%s-%s" % (case["family"], "nonlinear" if nl else "affine"), cases=1, F_evaluations=st.get("evals", 0))
        trivial = (not nl) and case["L"] == "zero" and case["c"] == "0"
        if not trivial:
            out.nontrivial_extra += 1
        maxdev = max(maxdev, st.get("dev", 0.0))
        maxdev_sk = max(maxdev_sk, st.get("dev_skipped", 0.0))
        skipped += bool(st.get("skipped"))
        noconv += st.get("outcome") == "NoConvergenceError"
        out.outcomes.add(("stage", case["family"], st.get("outcome"), bool(st.get("skipped")), st.get("evals", 0)))
        for key, msg in probs:
            out.add_violation(key, "%s: %s" % (_case_name(case), msg), case)
    out.extra["stage_max_relative_deviation_from_exact"] = maxdev
    out.extra["stage_newton_start_accepted"] = skipped
    out.extra["stage_max_relative_deviation_when_newton_accepted_start"] = maxdev_sk
    out.extra["stage_nonlinear_noconvergence"] = noconv
    out.sample(cases[len(cases) // 3])
    out.sample(cases[-1])
    ctx.log("stage cases=%d max rel. deviation from exact %.2e (%.2e where Newton accepted its start value: %d cases), "
            "NoConvergenceError (non-linear) %d" % (len(cases), maxdev, maxdev_sk, skipped, noconv))
    # ---- (iii) and end-to-end ----
    D.run(ctx, out)
    out.rule = ("(i) every shipped tableau x {main, embedded} x 8 rooted trees in exact rationals. (ii) full product "
                "method x mass-matrix kind x L alphabet x c x n x tau x {0, every unit vector} (+ polynomial non-linear "
                "F x start values): one real dirk_step/rosenbrock_step call each, recorded F evaluations replayed against "
                "the stage equations and the exact rational stage solution; non-trivial = F not identically 0. "
                "(iii) every (t0,t_end,tau) of the grid and every error-ratio script up to the depth for the real "
                "controllers with a scripted stepper, every residual script for newton; non-trivial = at least one "
                "stepper call / residual evaluation.")
    out.assumptions += [
        "the step maps are affine in x for affine F, so {0, e_1..e_n} decides all start vectors; the only "
        "value-dependent branch (Newton accepting its start value when the residual is below the hard-coded 1e-4) "
        "is detected per case by replaying the recorded evaluations",
        "mass matrices SPD with integer entries (None/identity/dense/CSR), n <= 3; the Jacobian is returned dense for "
        "dense M and CSR for sparse M; M=None only for the DIRK family (rosenbrock_step documents no None)",
        "order conditions are those for autonomous problems (the solvers have no time argument) and, for the "
        "Rosenbrock family, for the exact Jacobian (no W-method conditions)",
    ]
    return out


def _case_name(case):
    if case.get("nl"):
        return "%s M=%s F=%s x0=%s tau=%g" % (case["method"], case["M"], case["nl"], case["x0"], case["tau"])
    return "%s M=%s L=%s c=%s n=%d x=%s tau=%g%s" % (case["method"], case["M"], case["L"], case["c"], case["n"],
                                                     "0" if case["x"] < 0 else "e%d" % case["x"], case["tau"],
                                                     " Fx given" if case.get("Fx") else "")
