"""C09 -- tensor-product fast paths and closed-form Galerkin matrix identities hold.

E2 (bounded-exhaustive shape enumeration) with exact rational references (ref/galerkin.py, ref/bsp.py):

 1d     every knot vector of the shared alphabet KV(p) x all (du, dv) <= p x weight monomials x^0..x^3 x
        {default rule, explicit sufficient nqp, nqp+1}; wrappers; symmetry, sum(M) = length, K 1 = 0, exact rank,
        SPD / SPSD; load_vector / inner_products / integrate of monomials.
 asym   every ordered pair of knot vectors (different degree / multiplicities) on a common mesh and on nested
        meshes x all (du <= p1, dv <= p2) x quadrature grids {default, mesh, union, halved, split 1:2}.
 tpid   tensor-product spaces of dimension 1-3 over an alphabet of factor spaces with pairwise different
        dof counts (all ordered pairs / triples): Kronecker path vs generic path (identity geometry) vs
        predefined vforms vs strings vs Kronecker products of the exact 1D matrices; div-div form.
 tpgeo  the same spaces under affine (shear, reflection), bilinear, extruded and trilinear maps: exact mass
        matrices (polynomial det J), exact stiffness matrices (affine), sum(M) = measure, K 1 = 0, kernel.
 rhs    inner_products / integrate / L2functional forms of all monomials up to a degree bound, in parametric and
        physical coordinates, against exact rational integrals (only where the documented Gauss rule is sufficient).
 fast   mass_fast / stiffness_fast for tol in {1e-4,1e-6,1e-8,1e-10} on smooth geometries, in pristine-rand()
        children (twice each: determinism), entrywise <= 10 tol max(1, max|A|) vs the Gauss assembler.
 det    determinants / det_and_inv / inverses (2x2, 3x3 closed forms) on full integer grids.
"""
import itertools
import os
import sys

import numpy as np

from mc import par
from mc.outcome import Outcome
from ref import kvs as KV

ID = "C09"
LEVEL = "model_checking"


# -------------------------------------------------------------------------------------------------
# alphabets
# -------------------------------------------------------------------------------------------------

F2_QUICK = [[0, "U3", [1, 1]], [1, "U2", [1]], [1, "G3", [1, 1]], [2, "S3", [1, 2]], [3, "U2", [2]], [4, "U1", []],
            [2, "U4", [2, 1, 2]], [3, "G4", [3, 1]]]
F2_MORE = [[5, "U2", [5]], [6, "U3", [1, 6]], [4, "G3", [4, 2]], [0, "U1", []]]
F3_SMALL = [[0, "U2", [1]], [1, "U3", [1, 1]], [2, "U2", [2]], [1, "S3", [1, 1]]]
F3_MORE = [[3, "U1", []], [2, "G3", [1, 2]]]
F3_THOROUGH = [[3, "U2", [3]], [4, "U1", []]]

NESTED = [("U1", "U2"), ("U1", "U3"), ("U1", "G4"), ("U2", "U4"), ("U2", "G3")]
TOLS = [1e-4, 1e-6, 1e-8, 1e-10]


def geos2(seed):
    s1, b = seed % 3, [seed % 5, -(seed % 7)]
    return [{"type": "affine", "A": [[2, 1], [s1, 3]], "b": b},
            {"type": "affine", "A": [[1, 2], [3, 1 + s1 % 2]], "b": b},               # orientation reversing
            {"type": "corners", "corners": [[[0, 0], [0, 0]], [[0, 1], [4, 1]], [[1, 0], [1, 3]], [[1, 1], [6 + seed % 2, 5 + seed % 3]]]},
            {"type": "corners", "corners": [[[0, 0], [b[0], b[1]]], [[0, 1], [b[0] + 3, b[1]]], [[1, 0], [b[0] + 1, b[1] + 2]],
                                            [[1, 1], [b[0] + 2, b[1] + 2]]]}]         # trapezoid


def geos3(seed):
    s1, b = seed % 3, [seed % 5, -(seed % 7), seed % 2]
    ext = []
    base = {(0, 0): (0, 0), (0, 1): (4, 1), (1, 0): (1, 3), (1, 1): (6, 5 + seed % 3)}     # (j_eta, j_xi) -> (x, y)
    for jz in (0, 1):
        for (je, jx), (x, y) in sorted(base.items()):
            ext.append([[jz, je, jx], [x, y, 2 * jz]])
    tri = []
    pts = {(0, 0, 0): (0, 0, 0), (0, 0, 1): (3, 0, 0), (0, 1, 0): (0, 3, 0), (0, 1, 1): (4, 4, 0),
           (1, 0, 0): (0, 0, 2), (1, 0, 1): (3, 1, 3), (1, 1, 0): (1, 3, 3), (1, 1, 1): (5 + seed % 2, 5, 4)}
    for J, P in sorted(pts.items()):
        tri.append([list(J), list(P)])
    return [{"type": "affine", "A": [[2, 1, 0], [0, 3, 1], [1, s1, 2]], "b": b},
            {"type": "affine", "A": [[0, 2, 1], [3, 0, 1], [1, 1, 2]], "b": b},       # orientation reversing
            {"type": "corners", "corners": ext},                                        # extruded bilinear: det degree (1,1,0)
            {"type": "corners", "corners": tri}]                                        # general trilinear: det degree (2,2,2)


def _shapes(pmax, u4_maxmult=None):
    out = {}
    for p in range(pmax + 1):
        for name, br, m in KV.kv_shapes(p):
            if name == "U4" and u4_maxmult is not None and any(x > u4_maxmult for x in m):
                continue
            out.setdefault(name, []).append([p, name, m])
    return out


def cases(tier, seed=0):
    quick = tier == "quick"
    cs = []
    # ---- 1d
    pmax = 4 if quick else 6
    for p in range(pmax + 1):
        for name, br, m in KV.kv_shapes(p):
            cs.append({"kind": "1d", "p": p, "pattern": name, "mults": m})
    # ---- two spaces on a common mesh
    sh = _shapes(3 if quick else 4, u4_maxmult=2)
    for name in KV.PATTERNS:
        for a, b in itertools.product(sh[name], repeat=2):
            cs.append({"kind": "asym", "kv1": a, "kv2": b, "quads": ["default", "union", "fine", "fine3"],
                       "nqp_plus": (a[0] + b[0]) % 2 == 0})
    if not quick:
        # degrees 5 and 6 against all degrees 0..6 on two patterns, interior multiplicities from {1, 2, p} (U2) / {1, p} (G3)
        hi = {"U2": [[p, "U2", [m]] for p in (5, 6) for m in (1, 2, p)],
              "G3": [[p, "G3", [m1, m2]] for p in (5, 6) for m1 in (1, p) for m2 in (1, p)]}
        for name in ("U2", "G3"):
            lo = sh[name]
            for a, b in itertools.chain(itertools.product(hi[name], lo + hi[name]), itertools.product(lo, hi[name])):
                cs.append({"kind": "asym", "kv1": a, "kv2": b, "quads": ["default", "union", "fine", "fine3"],
                           "nqp_plus": (a[0] + b[0]) % 2 == 0})
    # ---- two spaces on nested meshes
    shn = _shapes(2 if quick else 3, u4_maxmult=2)
    for coarse, fine in NESTED:
        for a, b in itertools.product(shn[coarse], shn[fine]):
            cs.append({"kind": "asym", "kv1": b, "kv2": a, "quads": ["default", "mesh1", "fine"], "nqp_plus": False})
            cs.append({"kind": "asym", "kv1": a, "kv2": b, "quads": ["mesh2", "union", "fine3"], "nqp_plus": False})
    # ---- tensor-product spaces, identity family
    sh1 = _shapes(3 if quick else 4, u4_maxmult=2)
    for name in KV.PATTERNS:
        for a in sh1[name]:
            cs.append({"kind": "tpid", "axes": [a], "strings": True})
    F2 = F2_QUICK + ([] if quick else F2_MORE)
    for a, b in itertools.product(F2, repeat=2):
        cs.append({"kind": "tpid", "axes": [a, b], "strings": True, "divdiv": True})
    F3 = F3_SMALL + F3_MORE + ([] if quick else F3_THOROUGH)
    for t in itertools.product(F3, repeat=3):
        cs.append({"kind": "tpid", "axes": list(t), "strings": True, "divdiv": sum(x[0] for x in t) % 2 == 0})
    # ---- geometries with polynomial det J
    for g in geos2(seed):
        for a, b in itertools.product(F2, repeat=2):
            cs.append({"kind": "tpgeo", "axes": [a, b], "geo": g})
    F3g = F3_SMALL if quick else F3_SMALL + F3_MORE
    for g in geos3(seed):
        for t in itertools.product(F3g, repeat=3):
            cs.append({"kind": "tpgeo", "axes": list(t), "geo": g})
    # ---- right-hand sides / integrals
    for g in [None] + geos2(seed):
        for a, b in itertools.product(F2, repeat=2):
            cs.append({"kind": "rhs", "axes": [a, b], "geo": g, "each": 2, "total": 3})
    for g in [None] + geos3(seed):
        for t in itertools.product(F3_SMALL if quick else F3_SMALL + F3_MORE, repeat=3):
            cs.append({"kind": "rhs", "axes": list(t), "geo": g, "each": 1 if quick else 2, "total": 2 if quick else 3})
    # ---- fast assembler
    cs += fast_cases(tier, seed)
    # ---- determinants / inverses
    cs.append({"kind": "det", "d": 2, "values": [-1, 0, 1, 2]})
    cs.append({"kind": "det", "d": 3, "values": [0, 1]})
    if not quick:
        cs.append({"kind": "det", "d": 2, "values": [-3, -1, 0, 1, 2, 5]})
        cs.append({"kind": "det", "d": 3, "values": [-1, 0, 2]})
    return cs


def fast_cases(tier, seed=0):
    """(form, geometry, space, tol): smooth geometries (B-spline / NURBS quarter annulus, bilinear quadrilateral, twisted box,
    trilinear hexahedron); spaces: uniform open knot vectors with every degree pair / span-count pair from small sets
    plus spaces with repeated and graded knots from the shared alphabet"""
    quick = tier == "quick"
    cs = []
    if quick:
        sp2 = [[[1, "uniform", 3], [1, "uniform", 3]], [[2, "uniform", 4], [2, "uniform", 5]], [[3, "uniform", 6], [2, "uniform", 4]],
               [[3, "U4", [1, 2, 1]], [2, "G3", [1, 1]]], [[2, "uniform", 5], [2, "uniform", 3]]]
        # descending and ascending degree order (the band widths of the three directions are all different)
        sp3 = [[[2, "uniform", 3], [2, "uniform", 4], [1, "uniform", 3]], [[1, "uniform", 2], [2, "uniform", 3], [3, "uniform", 3]]]
    else:
        sp2 = [[[p1, "uniform", n1], [p2, "uniform", n2]] for p1 in (1, 2, 3) for p2 in (1, 2, 3)
               for n1, n2 in ((2, 2), (3, 3), (5, 5), (2, 5), (5, 3))]
        sp2 += [[[3, "uniform", 8], [3, "uniform", 8]], [[4, "uniform", 5], [1, "uniform", 7]], [[3, "U4", [1, 2, 1]], [2, "G3", [1, 1]]],
                [[1, "U3", [1, 1]], [4, "U2", [2]]], [[2, "G4", [2, 1]], [2, "U4", [1, 1, 1]]]]
        sp3 = [[[p, "uniform", n]] * 3 for p in (1, 2) for n in (2, 3)]
        sp3 += [[[2, "uniform", 3], [2, "uniform", 4], [1, "uniform", 3]], [[3, "uniform", 4], [2, "U2", [1]], [1, "U3", [1, 1]]]]
        sp3 += [[[pp, "uniform", 2 + (pp == 2)] for pp in perm] for perm in itertools.permutations((1, 2, 3))]
    g2 = ["bspline_quarter_annulus", "quarter_annulus", geos2(0)[2]]      # fixed payload: the ACA outcome depends on it
    g3 = ["twisted_box", geos3(0)[3]]
    for which in ("mass", "stiffness"):
        for g in g2:
            for k, ax in enumerate(sp2):
                c = {"kind": "fast", "which": which, "geo": g, "axes": ax, "tols": TOLS}
                if k % (4 if quick else 10) == 1:
                    c["exec"] = True       # second run in a newly exec'ed interpreter instead of a forked child
                cs.append(c)
        for g in g3:
            for k, ax in enumerate(sp3):
                c = {"kind": "fast", "which": which, "geo": g, "axes": ax, "tols": TOLS}
                if k == 0:
                    c["exec"] = True
                cs.append(c)
    return cs


# -------------------------------------------------------------------------------------------------
# oracle
# -------------------------------------------------------------------------------------------------

def _single_thread():
    """pyiga assembles with a Python thread pool of cpu_count() threads by default; the enumeration is parallel
    over cases (forked workers), so every worker assembles single-threaded (documented API)"""
    import pyiga
    pyiga.set_max_threads(1)


def _check(case, stats=None):
    kind = case["kind"]
    _single_thread()
    if kind == "1d":
        from props import c09_oned
        return c09_oned.check_1d(case, stats)
    if kind == "asym":
        from props import c09_oned
        return c09_oned.check_asym(case, stats)
    if kind in ("tpid", "tpgeo", "rhs", "det"):
        from props import c09_tp
        return getattr(c09_tp, "check_" + kind)(case, stats)
    if kind == "fast":
        from props import c09_fast
        return c09_fast.check_fast(case, stats)
    raise ValueError("unknown case kind %r" % (kind,))


def check_case(case):
    from props.c09_util import roomy
    with _quiet_compiler():
        return roomy(_check, case)[0]


class _quiet_compiler:
    """the C compiler's warnings for run-time compiled forms go to fd 2; keep them out of the log"""
    def __enter__(self):
        self.saved = None
        if os.environ.get("VERIF_C09_VERBOSE"):
            return self
        try:
            sys.stderr.flush()
            self.saved = os.dup(2)
            self.null = os.open(os.devnull, os.O_WRONLY)
            os.dup2(self.null, 2)
        except OSError:
            self.saved = None
        return self

    def __exit__(self, *a):
        if self.saved is not None:
            sys.stderr.flush()
            os.dup2(self.saved, 2)
            os.close(self.saved)
            os.close(self.null)
        return False


def _w(case):
    import time
    from props.c09_util import roomy
    stats = {}
    t0 = time.process_time()
    c0 = sum(_children_cpu())
    probs, calls = roomy(_check, case, stats)
    cpu = time.process_time() - t0 + sum(_children_cpu()) - c0
    return case, probs, calls, stats, cpu


def _warm(k):
    """compile one of the (four) run-time compiled string forms; each in its own process, in parallel"""
    from pyiga import assemble
    from props.c09_util import axis_objects, make_geo, box_of
    from props import c09_tp
    _single_thread()
    d, form = k
    axes = [[1, "U1", []]] * d
    kvs = tuple(axis_objects(a)[0] for a in axes)
    geo, _ = make_geo({"type": "identity"}, box_of(axes))
    with _quiet_compiler():
        try:
            assemble.assemble(c09_tp.MASS_STR if form == "mass" else c09_tp.STIFF_STR, kvs, geo=geo)
        except Exception as e:     # reported by the cases themselves
            return repr(e)
    return None


def _nontrivial(case):
    """rule: the case involves a repeated interior knot and non-uniform spans in some direction, or mixes degrees /
    dof counts between directions or spaces, or a non-affine geometry"""
    k = case["kind"]
    def nt(a):
        return a[1] != "uniform" and KV.is_nontrivial(KV.PATTERNS[a[1]], a[2])
    if k == "1d":
        return nt([case["p"], case["pattern"], case["mults"]])
    if k == "asym":
        return case["kv1"] != case["kv2"] and (nt(case["kv1"]) or nt(case["kv2"]) or case["kv1"][1] != case["kv2"][1])
    if k in ("tpid", "tpgeo", "rhs"):
        ax = case["axes"]
        return len(ax) > 1 and (len({a[0] for a in ax}) > 1 or any(nt(a) for a in ax))
    if k == "fast":
        return True
    return True


def _children_cpu():
    import resource
    r = resource.getrusage(resource.RUSAGE_CHILDREN)
    return r.ru_utime, r.ru_stime


def run(ctx):
    out = Outcome()
    cs = cases(ctx.tier, ctx.seed)
    # import the library once in the parent (after the build step) so that forked workers and the pristine-rand()
    # grandchildren of the fast-assembler cases inherit it; nothing is assembled in the parent (no thread pool)
    import pyiga
    from pyiga import assemble, bspline, geometry, vform, assemble_tools  # noqa: F401
    import scipy.sparse.linalg  # noqa: F401
    import ctypes  # noqa: F401
    from props import c09_util, c09_oned, c09_tp, c09_fast  # noqa: F401
    import gc
    gc.collect()
    gc.freeze()      # forked workers do not copy the inherited heap just because a collection marks it
    order = {"det": 0, "1d": 1, "asym": 2, "tpid": 3, "tpgeo": 4, "rhs": 5, "fast": 6}
    # run-time compiled forms (mass 1D; stiffness 1D, 2D, 3D): compile once, in parallel, before the workers fork
    warm = par.pmap(_warm, [(1, "mass"), (1, "stiffness"), (2, "stiffness"), (3, "stiffness")], workers=4, chunk=1, min_parallel=1)
    ctx.log("compiled string forms ready%s" % ("" if not any(warm) else " (errors: %s)" % [w for w in warm if w]))
    # two fork generations only (every forked worker pays copy-on-write for the parent's heap once): all cases
    # except the fast-assembler ones in one parallel map, dealt in small chunks; the fast-assembler cases in a
    # second map whose workers never assemble anything themselves (they fork the pristine-rand() children)
    allstats = {}
    cpu_total = [0.0, 0.0]
    main_cases = sorted((c for c in cs if c["kind"] != "fast"), key=lambda c: order[c["kind"]])
    fast = [c for c in cs if c["kind"] == "fast"]
    results = []
    for group, kw in ((main_cases, dict(min_parallel=4, chunk=4)), (fast, dict(min_parallel=4, chunk=1))):
        if not group:
            continue
        u0, s0 = _children_cpu()
        with _quiet_compiler():
            results += par.pmap(_w, group, **kw)
        u1, s1 = _children_cpu()
        cpu_total[0] += u1 - u0
        cpu_total[1] += s1 - s0
        ctx.log("%d cases (%s) done, worker cpu user=%.0fs sys=%.0fs" % (len(group), "fast assembler" if group is fast else "all other kinds",
                                                                        u1 - u0, s1 - s0))
    per = {}
    for case, probs, calls, stats, cpu in results:
        kind = case["kind"]
        d = per.setdefault(kind, {"cases": 0, "calls": 0, "problems": 0, "cpu": 0.0, "list": []})
        d["cases"] += 1
        d["calls"] += calls
        d["problems"] += len(probs)
        d["cpu"] += cpu
        d["list"].append(case)
        out.states += 1
        out.transitions += calls
        if _nontrivial(case):
            out.nontrivial.add(repr(sorted(case.items())))
        for k, v in stats.items():
            if k.startswith("eig:"):
                allstats[k] = min(allstats.get(k, 1.0), v)
            else:
                allstats[k] = max(allstats.get(k, 0.0), v)
        out.outcomes.add((kind, calls, tuple(sorted(k for k, _ in probs))))
        for key, msg in probs:
            out.add_violation(key, msg, case)
    for kind in sorted(per, key=order.get):
        d = per[kind]
        out.part(kind, cases=d["cases"], library_calls=d["calls"], problems=d["problems"], cpu_seconds=round(d["cpu"], 1))
        out.sample(d["list"][len(d["list"]) // 2], limit=12)
        ctx.log("%-6s cases=%d library calls compared=%d problems=%d cpu=%.0fs" % (kind, d["cases"], d["calls"], d["problems"], d["cpu"]))
    out.evaluations = out.transitions
    out.traces = out.states
    out.extra["cpu_seconds_workers"] = {"user": round(cpu_total[0], 1), "sys": round(cpu_total[1], 1)}
    out.extra["worst_relative_deviation"] = {k: float("%.3g" % v) for k, v in sorted(allstats.items()) if not k.startswith("eig:")}
    out.extra["min_scaled_eig"] = {k: float("%.3g" % v) for k, v in sorted(allstats.items()) if k.startswith("eig:")}
    out.rule = ("state = one enumerated shape: (degree, breakpoint pattern from %s, interior multiplicity vector) [1d], ordered "
                "pair of such knot vectors with a list of quadrature grids [asym], ordered tuple of factor spaces (x geometry "
                "x monomial set) [tpid/tpgeo/rhs], (form, geometry, space, tol) [fast], integer grid [det]; transitions = "
                "library calls compared with the reference.  Non-trivial = a repeated interior knot together with non-uniform "
                "spans in some direction, or different degrees between directions / spaces, or a fast-assembler / grid case."
                % sorted(KV.PATTERNS))
    out.assumptions += [
        "breakpoint sequences come from the finite alphabet of ref/kvs.py (uniform, graded over 6 decades, shifted); degrees 0..%d "
        "for single knot vectors, 0..%d for pairs of knot vectors (U4 multiplicities <= 2 in pairs%s)"
        % (4 if ctx.tier == "quick" else 6, 3 if ctx.tier == "quick" else 4,
           "" if ctx.tier == "quick" else "; degrees 5-6 in pairs only on U2 / G3 with multiplicities from {1, 2, p} / {1, p}"),
        "exact integrals are demanded only where the documented Gauss rule is sufficient for the polynomial degree of the integrand "
        "(default nqp of the 1D routines, max(p)+1 nodes per direction in the assemblers); a higher-degree weight denotes a Gauss sum",
        "tensor-product spaces are ordered tuples over an alphabet of factor spaces with pairwise different dof counts, not all of KV(p)^d; "
        "the 1D factors are decided exhaustively in part 1d, the d-D parts decide the Kronecker order / generic path / geometry handling",
        "geometries for exact claims are multilinear maps with integer corner data (payload chosen by VERIF_SEED); NURBS / B-spline "
        "annulus and twisted box only for fast-vs-Gauss agreement",
        "fast assembler: tol is an absolute stopping accuracy of the ACA, demanded entrywise <= 10*tol*max(1, max|A|); each case runs in "
        "children whose C rand() state is the pristine one (srand(1) == never seeded), twice",
        "linear in the weight / right-hand side: monomials decide all polynomials of the stated degree",
    ]
    return out
