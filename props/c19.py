"""C19 -- knot vectors are constructed and queried exactly.

E2, literally exhaustive over (p, n, mult, interval) for the constructor; every breakpoint +- 1 ulp for the
span lookup; all subsets of a candidate knot set for refine; all ordered pairs of an alphabet for __eq__;
every unit coefficient vector for Spline.derivative.
"""
import itertools
from fractions import Fraction

import numpy as np

from mc import par
from mc.outcome import Outcome
from ref import bsp, kvs as KV

ID = "C19"
LEVEL = "model_checking"

INTERVALS = [
    (0.0, 1.0), (0.0, 2.0), (0.0, 0.1), (0.0, 0.3), (0.0, 1e-6), (0.0, 1e6), (0.0, 3.0), (0.0, 7.0),
    (-1.0, 1.0), (-2.5, 7.0), (-1e6, 1e6), (-1e-6, 1e-6), (1.0, 2.0), (1.0, 1.5), (0.1, 0.2), (0.1, 0.7),
    (1e-6, 1.0), (1e5, 1e6), (-7.0, -3.0), (-0.3, -0.1), (0.25, 0.75), (2.0, 1026.0), (1.0 / 3.0, 2.0 / 3.0), (3.14, 6.28),
]


def mk_case_list(tier):
    cases = []
    nmax01 = 600 if tier == "quick" else 2000
    ngrid = 100 if tier == "quick" else 300
    step = 50
    for (a, b) in INTERVALS:
        nmax = nmax01 if (a, b) == (0.0, 1.0) else ngrid
        for n0 in range(1, nmax + 1, step):
            cases.append({"part": "make_knots", "a": a, "b": b, "n0": n0, "n1": min(nmax, n0 + step - 1)})
    return cases


_EXACT = {}


def _exact_breaks(a, b, n):
    key = (a, b, n)
    if key not in _EXACT:
        if len(_EXACT) > 64:
            _EXACT.clear()
        A, B = Fraction(a), Fraction(b)
        _EXACT[key] = np.array([float(A + i * (B - A) / n) for i in range(n + 1)])
    return _EXACT[key]


def check_make_knots_one(p, a, b, n, mult):
    """returns list of (key, msg) for ONE constructor call"""
    from pyiga import bspline
    probs = []
    try:
        kv = bspline.make_knots(p, a, b, n, mult) if mult != 1 else bspline.make_knots(p, a, b, n)
        kn = np.asarray(kv.kv, dtype=float)
    except Exception as e:
        return [("make_knots:exception:%s" % type(e).__name__, "make_knots(%d,%r,%r,%d,%d) raised %r" % (p, a, b, n, mult, e))]
    tag = "make_knots(%d,%r,%r,%d,mult=%d)" % (p, a, b, n, mult)
    if kv.p != p:
        probs.append(("make_knots:degree", tag + ": degree %r" % kv.p))
    if np.any(np.diff(kn) < 0):
        probs.append(("make_knots:decreasing", tag + ": knots decrease"))
    if not (np.all(kn[:p + 1] == a) and np.all(kn[-(p + 1):] == b)):
        probs.append(("make_knots:open", tag + ": first/last knot not repeated p+1 times at exactly a / b"))
    interior = kn[p + 1:len(kn) - (p + 1)]
    if interior.size and not (interior.min() > a and interior.max() < b):
        probs.append(("make_knots:open", tag + ": interior knots touch the end points (multiplicity > p+1 at an end)"))
    br, counts = np.unique(kn, return_counts=True)
    if len(br) - 1 != n:
        probs.append(("make_knots:numspans", tag + ": %d non-empty spans instead of %d" % (len(br) - 1, n)))
        return probs
    try:
        if int(kv.numspans) != n:
            probs.append(("make_knots:numspans-attr", tag + ": numspans=%d" % kv.numspans))
        if int(kv.numdofs) != p + 1 + mult * (n - 1):
            probs.append(("make_knots:numdofs", tag + ": numdofs=%d, expected %d" % (kv.numdofs, p + 1 + mult * (n - 1))))
    except Exception as e:
        probs.append(("make_knots:exception:%s" % type(e).__name__, tag + ": numspans/numdofs raised %r" % (e,)))
    if br[-1] != b or br[0] != a:
        probs.append(("make_knots:ends", tag + ": breakpoints run from %r to %r" % (br[0], br[-1])))
    if np.any(counts[1:-1] != mult):
        probs.append(("make_knots:mult", tag + ": interior multiplicities %s" % sorted(set(counts[1:-1].tolist()))))
    # equally spaced: exact rational positions a + i (b-a)/n with a, b the given floats
    tol = 4 * np.finfo(float).eps * max(abs(a), abs(b), abs(b - a))
    exact = _exact_breaks(a, b, n)
    dev = np.abs(br - exact).max()
    if dev > tol:
        probs.append(("make_knots:spacing", tag + ": breakpoints deviate from a+i(b-a)/n by %.3g (> %.3g)" % (dev, tol)))
    return probs


def check_make_knots(case):
    a, b = case["a"], case["b"]
    if "p" in case:    # a single call (replay of a violation)
        return check_make_knots_one(case["p"], a, b, case["n"], case["mult"])
    probs = []
    count = 0
    for n in range(case["n0"], case["n1"] + 1):
        for p in range(0, 7):
            for mult in range(1, max(p, 1) + 1):
                count += 1
                for key, msg in check_make_knots_one(p, a, b, n, mult):
                    probs.append((key, msg, {"part": "make_knots", "a": a, "b": b, "p": p, "n": n, "mult": mult}))
    return count, probs


# ---------------------------------------------------------------------------------------------------
# queries on a knot vector given as (knots, p)
# ---------------------------------------------------------------------------------------------------

def query_cases(tier):
    cases = []
    pmax = 4 if tier == "quick" else 6
    for p in range(0, pmax + 1):
        for name, br, m in KV.kv_shapes(p):
            cases.append({"part": "queries", "src": "alphabet", "p": p, "pattern": name, "mults": m})
    for p in range(0, 4):
        for name, br, m in KV.kv_shapes(p, patterns=tuple(KV.EXTREME), maxmult=2):
            cases.append({"part": "queries", "src": "alphabet", "p": p, "pattern": name, "mults": m})
    for p in (0, 1, 2, 3):
        for (a, b) in INTERVALS[::3] if tier == "quick" else INTERVALS:
            for n in (1, 2, 3, 7, 10, 49, 64) if tier == "quick" else list(range(1, 65)):
                for mult in sorted({1, max(p, 1)}):
                    cases.append({"part": "queries", "src": "make_knots", "p": p, "a": a, "b": b, "n": n, "mult": mult})
    return cases


def _case_knots(case):
    """(float knot array, p) from exact arithmetic (independent of make_knots)"""
    p = case["p"]
    if case["src"] == "alphabet":
        return KV.knots_from(KV.breaks_of(case["pattern"]), case["mults"], p), p
    a, b, n, mult = case["a"], case["b"], case["n"], case["mult"]
    A, B = Fraction(a), Fraction(b)
    br = [float(A + i * (B - A) / n) for i in range(n + 1)]
    br[0], br[-1] = a, b
    if len(set(br)) != n + 1:
        return None, p          # interval too small for n distinct floats
    return KV.knots_from(br, [mult] * (n - 1), p), p


def check_queries(case):
    from pyiga import bspline, bspline_cy
    kn, p = _case_knots(case)
    if kn is None:
        return []
    probs = []
    try:
        kv = bspline.KnotVector(kn.copy(), p)
        n = len(kn) - p - 1
        br = np.array(sorted(set(kn.tolist())))
        # mesh / spans
        if not np.array_equal(np.asarray(kv.mesh), br):
            probs.append(("mesh", "mesh is not the sorted set of distinct knots"))
        if int(kv.numspans) != len(br) - 1 or int(kv.numdofs) != n or int(kv.numknots) != len(kn):
            probs.append(("counts", "numspans/numdofs/numknots = %s/%s/%s" % (kv.numspans, kv.numdofs, kv.numknots)))
        if tuple(kv.support()) != (kn[0], kn[-1]):
            probs.append(("support", "support() = %s" % (kv.support(),)))
        msi = np.asarray(kv.mesh_span_indices())
        want = np.array([i for i in range(len(kn) - 1) if kn[i] != kn[i + 1]])
        if not np.array_equal(msi, want):
            probs.append(("mesh_span_indices", "mesh_span_indices %s != indices of non-empty spans %s" % (msi[:6], want[:6])))
        allidx = np.asarray(kv.mesh_support_idx_all())
        for j in range(n):
            s0, s1 = kv.support(j)
            if (s0, s1) != (kn[j], kn[j + p + 1]) or tuple(kv.support_idx(j)) != (j, j + p + 1):
                probs.append(("support_j", "support(%d)=%s" % (j, (s0, s1))))
            m0, m1 = kv.mesh_support_idx(j)
            if br[m0] != s0 or br[m1] != s1:
                probs.append(("mesh_support_idx", "mesh_support_idx(%d)=%s does not address the support %s in the mesh" % (j, (m0, m1), (s0, s1))))
            if tuple(allidx[j]) != (m0, m1):
                probs.append(("mesh_support_idx_all", "row %d of mesh_support_idx_all differs from mesh_support_idx" % j))
        # Greville
        g = np.asarray(kv.greville())
        R = bsp.RefKV(kn, p)
        gref = np.array([float(x) for x in R.greville()])
        if g.shape != (n,) or np.abs(g - gref).max() > 8 * np.finfo(float).eps * max(abs(kn[0]), abs(kn[-1]), 1e-300):
            probs.append(("greville:value", "Greville abscissae deviate from the knot averages"))
        elif g.min() < kn[0] or g.max() > kn[-1]:
            probs.append(("greville:domain", "Greville point outside the domain [%r,%r]: %r..%r" % (kn[0], kn[-1], g.min(), g.max())))
        # span lookup at every breakpoint and both neighbouring floats
        pts = []
        for x in br:
            for y in (np.nextafter(x, -np.inf), x, np.nextafter(x, np.inf)):
                if kn[0] <= y <= kn[-1]:
                    pts.append(float(y))
        for x0, x1 in zip(br[:-1], br[1:]):
            pts.append(float(x0 + (x1 - x0) / 2))
        pts = sorted(set(pts))
        spans = np.asarray(bspline_cy.pyx_findspans(kn.copy(), p, np.array(pts)))
        for u, sa in zip(pts, spans):
            s = R.span_of(u)
            got = int(kv.findspan(u))
            if got != s:
                probs.append(("findspan", "findspan(%r)=%d; the unique non-empty span containing it is %d [%r,%r)" % (u, got, s, kn[s], kn[s + 1])))
                break
            if int(sa) != s:
                probs.append(("pyx_findspans", "pyx_findspans(%r)=%d, expected %d" % (u, int(sa), s)))
                break
            if int(kv.first_active_at(u)) != s - p or int(kv.first_active(s)) != s - p:
                probs.append(("first_active", "first_active_at(%r)=%d, expected %d" % (u, int(kv.first_active_at(u)), s - p)))
                break
        # uniform refinement halves every span
        kr = kv.refine()
        krn = np.asarray(kr.kv)
        mids = (br[1:] + br[:-1]) / 2
        want = np.sort(np.concatenate((kn, mids)))
        if kr.p != p or not np.array_equal(krn, want):
            probs.append(("refine:uniform", "refine() is not the sorted union with the span midpoints"))
        if not np.array_equal(np.asarray(kv.kv), kn):
            probs.append(("refine:mutates", "refine() modified the original knot vector"))
        # copy / equality basics
        c = kv.copy()
        if not (c == kv and kv == c and kv == kv) or c.kv is kv.kv:
            probs.append(("copy", "copy() is not an independent equal knot vector"))
        if abs(kv.meshsize_avg() - (kn[-1] - kn[0]) / (len(br) - 1)) > 1e-14 * abs(kn[-1] - kn[0]):
            probs.append(("meshsize_avg", "meshsize_avg=%r" % kv.meshsize_avg()))
    except Exception as e:
        probs.append(("queries:exception:%s" % type(e).__name__, "query raised %r" % (e,)))
    return probs


# ---------------------------------------------------------------------------------------------------
# refine(new_knots): all subsets of a candidate set
# ---------------------------------------------------------------------------------------------------

def refine_cases(tier):
    cases = []
    for p in (1, 2, 3):
        for name, br, m in KV.kv_shapes(p, patterns=("U2", "G3", "S3")):
            if tier == "quick" and p == 3 and sum(m) % 2 == 0:
                continue
            cases.append({"part": "refine", "p": p, "pattern": name, "mults": m})
    return cases


def check_refine(case):
    from pyiga import bspline
    p = case["p"]
    br = KV.breaks_of(case["pattern"])
    kn = KV.knots_from(br, case["mults"], p)
    cand = []
    for x0, x1 in zip(br[:-1], br[1:]):
        cand.append(x0 + (x1 - x0) / 2)
    cand.append(br[1])                      # an existing interior knot
    cand.append(br[0] + (br[1] - br[0]) * 1e-9)   # very close to the left end
    cand.append(float(np.nextafter(br[-1], -np.inf)))
    cand = cand[:6]
    probs = []
    nsub = 0
    try:
        for r in range(0, len(cand) + 1):
            for sub in itertools.permutations(cand, r) if r <= 2 else itertools.combinations(cand, r):
                nsub += 1
                kv = bspline.KnotVector(kn.copy(), p)
                forms = [np.array(sub, dtype=float)]
                if r:
                    forms.append(list(sub))
                for new in forms:
                    kr = kv.refine(new)
                    want = np.sort(np.concatenate((kn, np.array(sub, dtype=float))))
                    if kr.p != p or not np.array_equal(np.asarray(kr.kv), want):
                        probs.append(("refine:union", "refine(%r) is not the sorted union" % (list(sub),)))
                    if not np.array_equal(np.asarray(kv.kv), kn):
                        probs.append(("refine:mutates", "refine(new_knots) modified the original knot vector"))
                if probs:
                    return probs
    except Exception as e:
        probs.append(("refine:exception:%s" % type(e).__name__, "refine raised %r" % (e,)))
    return probs


# ---------------------------------------------------------------------------------------------------
# __eq__: reflexive and symmetric on all ordered pairs of an alphabet with threshold-straddling members
# ---------------------------------------------------------------------------------------------------

def eq_alphabet():
    out = []
    for p in (1, 2):
        for scale, shift in ((1.0, 0.0), (7.0, -2.5), (1e6, 0.0), (1e-6, 0.0), (1e3, 1e6)):
            base = np.array([0.0] * (p + 1) + [0.5] + [1.0] * (p + 1)) * scale + shift
            out.append((base, p))
            v = base[p + 1]
            thr = 1e-8 + 1e-8 * abs(v)
            for f in (0.5, 0.999999, 1.0, 1.000001, 2.0):
                for sgn in (1, -1):
                    k2 = base.copy()
                    k2[p + 1] = v + sgn * f * thr
                    if np.all(np.diff(k2) >= 0):
                        out.append((k2, p))
            # floats adjacent to the threshold from both sides
            for d in range(-3, 4):
                k2 = base.copy()
                x = v + thr
                for _ in range(abs(d)):
                    x = np.nextafter(x, np.inf if d > 0 else -np.inf)
                k2[p + 1] = x
                out.append((k2, p))
        out.append((np.array([0.0] * (p + 1) + [1.0] * (p + 1)), p))
        out.append((np.array([0.0] * (p + 1) + [0.5, 0.5][:p] + [1.0] * (p + 1)), p))
    return out


def check_eq(case):
    from pyiga import bspline
    alpha = eq_alphabet()
    i = case["i"]
    probs = []
    try:
        a = bspline.KnotVector(alpha[i][0].copy(), alpha[i][1])
        if not (a == a):
            probs.append(("eq:reflexive", "knot vector %d of the alphabet is not equal to itself" % i))
        for j in range(len(alpha)):
            b = bspline.KnotVector(alpha[j][0].copy(), alpha[j][1])
            ab, ba = bool(a == b), bool(b == a)
            if ab != ba:
                probs.append(("eq:symmetric", "a==b is %s but b==a is %s for a=%r (p=%d), b=%r (p=%d)"
                              % (ab, ba, alpha[i][0].tolist(), alpha[i][1], alpha[j][0].tolist(), alpha[j][1])))
                break
    except Exception as e:
        probs.append(("eq:exception:%s" % type(e).__name__, "__eq__ raised %r" % (e,)))
    return probs


# ---------------------------------------------------------------------------------------------------
# Spline.derivative
# ---------------------------------------------------------------------------------------------------

def deriv_cases(tier):
    cases = []
    for p in (1, 2, 3, 4) if tier == "quick" else (1, 2, 3, 4, 5, 6):
        for name, br, m in KV.kv_shapes(p, patterns=("U1", "U3", "G3", "S3")):
            if tier == "quick" and p >= 3 and sum(m) % 2 == 0 and name != "U1":
                continue
            cases.append({"part": "derivative", "p": p, "pattern": name, "mults": m})
    return cases


def check_derivative(case):
    from pyiga import bspline, spline
    p = case["p"]
    br = KV.breaks_of(case["pattern"])
    kn = KV.knots_from(br, case["mults"], p)
    R = bsp.RefKV(kn, p)
    pts = KV.eval_points(br, p)
    D1 = R.colloc(pts, der=1)
    scale = np.abs(D1).max()
    probs = []
    try:
        kv = bspline.KnotVector(kn.copy(), p)
        for j in range(R.n):
            e = np.zeros(R.n)
            e[j] = 1.0
            s = spline.Spline(kv, e)
            ds = s.derivative()
            if ds.kv.p != p - 1:
                probs.append(("derivative:degree", "derivative spline has degree %d" % ds.kv.p))
                break
            got = np.asarray(ds.eval(np.array(pts)), dtype=float)
            err = np.abs(got - D1[:, j]).max()
            if not err <= 1e-10 * scale:
                k = int(np.argmax(np.abs(got - D1[:, j])))
                probs.append(("derivative:value", "derivative() of basis spline %d deviates from its pointwise derivative by %.3g (scale %.3g) at u=%r"
                              % (j, err, scale, pts[k])))
                break
            got2 = np.asarray(s.deriv(np.array(pts), 1), dtype=float)
            if not np.abs(got2 - D1[:, j]).max() <= 1e-10 * scale:
                probs.append(("deriv:value", "Spline.deriv of basis spline %d deviates from the reference" % j))
                break
        # one spline object whose coefficients change between two derivative() calls (assignment and in-place
        # update): the second derivative spline belongs to the new coefficients
        if not probs and R.n >= 2:
            P = np.array(pts)
            for how in ("assign", "inplace", "callers-array"):
                c0 = np.zeros(R.n)
                c0[0] = 1.0
                s = spline.Spline(kv, c0)
                s.derivative()
                if how == "assign":
                    c1 = np.zeros(R.n)
                    c1[R.n - 1] = 1.0
                    s.coeffs = c1
                elif how == "inplace":
                    s.coeffs[:] = 0.0
                    s.coeffs[R.n - 1] = 1.0
                else:
                    c0[:] = 0.0            # the array the caller passed in
                    c0[R.n - 1] = 1.0
                cur = np.asarray(s.coeffs, dtype=float).ravel()
                want = D1 @ cur
                got = np.asarray(s.derivative().eval(P), dtype=float)
                if not np.abs(got - want).max() <= 1e-10 * scale:
                    probs.append(("derivative:stale", "derivative() called again after the coefficients changed (%s) is not the derivative of "
                                  "the spline the object now represents (deviation %.3g, scale %.3g)" % (how, np.abs(got - want).max(), scale)))
                    break
    except Exception as e:
        probs.append(("derivative:exception:%s" % type(e).__name__, "Spline.derivative raised %r" % (e,)))
    return probs


# ---------------------------------------------------------------------------------------------------

def check_case(case):
    part = case["part"]
    if part == "make_knots":
        r = check_make_knots(case)
        return r if "p" in case else [(k, m) for k, m, _ in r[1]]
    return {"queries": check_queries, "refine": check_refine, "eq": check_eq, "derivative": check_derivative}[part](case)


def _w(case):
    if case["part"] == "make_knots":
        return check_make_knots(case)
    return check_case(case)


def run(ctx):
    out = Outcome()
    mk = mk_case_list(ctx.tier)
    for case, (count, probs) in zip(mk, par.pmap(_w, mk, min_parallel=8, chunk=1)):
        out.states += count
        out.transitions += count
        out.part("make_knots", constructions=count)
        for key, msg, single in probs:
            out.add_violation(key, msg, single)
    out.nontrivial_extra += out.states          # every (p,a,b,n,mult) tuple is distinct by construction
    ctx.log("make_knots constructions=%d" % out.states)
    rest = query_cases(ctx.tier) + refine_cases(ctx.tier) + [{"part": "eq", "i": i} for i in range(len(eq_alphabet()))] \
        + deriv_cases(ctx.tier)
    for case, probs in zip(rest, par.pmap(_w, rest, min_parallel=8)):
        out.states += 1
        out.transitions += 1
        out.part(case["part"], cases=1)
        out.nontrivial.add(repr(sorted(case.items())))
        out.outcomes.add((case["part"], len(probs)))
        for key, msg in probs:
            out.add_violation(key, "%s: %s" % (case, msg), case)
    out.evaluations = out.transitions
    out.traces = out.states
    out.sample({"part": "make_knots", "p": 2, "a": 0.0, "b": 1.0, "n": 49, "mult": 1})
    out.sample(rest[0]); out.sample(rest[-1])
    out.rule = ("make_knots for ALL (p<=6, n<=N, mult<=max(p,1)) on [0,1] (N=600 quick / 2000 thorough) and on 24 intervals "
                "(n<=100 / 300); span lookup at every breakpoint +-1ulp; refine over all subsets (ordered for size<=2) of 6 "
                "candidate knots; __eq__ over all ordered pairs of a threshold-straddling alphabet; Spline.derivative on every "
                "unit coefficient vector. Non-trivial: every constructor tuple / query case is distinct by construction.")
    out.assumptions += ["intervals from a fixed grid of 24 (decimal, binary-exact, negative, 1e-6 and 1e6 scales), not all floats"]
    return out
