"""C18 part C -- approximation clauses and entry generators.

compress / truncate : error within the requested absolute / relative tolerance over 10 decades
hosvd               : exact, orthonormal factors
aca / aca_lr        : every exact-rank-r integer matrix of an enumerated family; the run is validated against
                      an exact (Fraction) cross-approximation model reconstructed from the entries the
                      algorithm requested:  X == A - R_exact(pivots)  always, and R_exact == 0 unless the
                      documented give-up rule (skip count) fired on rows that are zero in R_exact
aca_3d              : exact-rank-r tensors, skipcount large enough that the random restart cannot give up
grou / gta          : error histories non-increasing, stop rule, consistency of the returned tensor
als                 : rank-1 inputs, fixed points, never worse than the zero approximation
TensorGenerator     : __getitem__ / asarray / entry / matrix_at for every index expression

np.random is reseeded from (seed, case id, call number) immediately before every library call that draws
random numbers.  One case = one JSON dict; check_case rebuilds the input from it.
"""
import contextlib
import io
import itertools
import signal

import numpy as np

from props import c18_core as K
from ref import tensor_model as R

TOLS = [10.0 ** (-k) for k in range(1, 11)]        # 1e-1 ... 1e-10: ten decades


def _L():
    from pyiga import lowrank
    return lowrank


def reseed(case, k=0):
    np.random.seed((int(case.get("seed", 0)) * 1000003 + int(case.get("cid", 0)) * 7919 + k) % (2 ** 32))


class Hang(BaseException):
    pass


@contextlib.contextmanager
def cpu_guard(seconds):
    """raise Hang in the running Python code after `seconds` of *CPU* time of this process (load independent)"""
    def handler(signum, frame):
        raise Hang()
    old = signal.signal(signal.SIGVTALRM, handler)
    signal.setitimer(signal.ITIMER_VIRTUAL, seconds)
    try:
        yield
    finally:
        signal.setitimer(signal.ITIMER_VIRTUAL, 0)
        signal.signal(signal.SIGVTALRM, old)


def quiet():
    return np.errstate(all="ignore")


# ------------------------------------------------------------------------------------------------
# input families
# ------------------------------------------------------------------------------------------------

ORTHO = {1: [[1]], 2: [[1, 1], [1, -1]], 3: [[1, 1, 1], [1, -1, 0], [1, 1, -2]],
         4: [[1, 1, 1, 1], [1, -1, 1, -1], [1, 1, -1, -1], [1, -1, -1, 1]]}


def ortho_cols(n, seed, tag):
    """n x n integer matrix with mutually orthogonal columns (seeded column order / signs)"""
    V = np.array(ORTHO[n], dtype=float).T
    rs = np.random.RandomState((K.zlib.crc32(tag.encode()) + 7919 * int(seed)) % (2 ** 32))
    perm = rs.permutation(n)
    sg = np.where(rs.randint(0, 2, size=n) == 0, -1.0, 1.0)
    return V[:, perm] * sg


def decade_tensor(shape, nterms, dec, seed):
    """sum_j 10^(-dec*j) * u_j (x) v_j (x) ...  with mutually orthogonal integer vectors per mode: the j-th
    multilinear singular value is known, so every tolerance of the alphabet cuts at a different rank"""
    d = len(shape)
    Us = [ortho_cols(n, seed, "dec%d:%d" % (k, n)) for k, n in enumerate(shape)]
    out = np.zeros(shape)
    nterms = min(nterms, min(shape))
    for j in range(nterms):
        out = out + 10.0 ** (-dec * j) * R.outer_all([U[:, j] for U in Us])
    return out, Us, nterms


def lowrank_matrix(m, n, r, zr, zc, kind, seed):
    if kind == "block" and r > 0:
        U = np.zeros((m, r))
        V = np.zeros((n, r))
        pu = K.payload(seed, "acaU:%d:%d" % (m, r), (m,))
        pv = K.payload(seed, "acaV:%d:%d" % (n, r), (n,))
        for i in range(m):
            U[i, i * r // m] = pu[i]
        for j in range(n):
            V[j, j * r // n] = pv[j]
    else:
        U = K.payload(seed, "acaU:%d:%d" % (m, r), (m, r)) if r else np.zeros((m, 0))
        V = K.payload(seed, "acaV:%d:%d" % (n, r), (n, r)) if r else np.zeros((n, 0))
        U = np.sign(U) * (1 + (np.abs(U) - 1) % 5)
        V = np.sign(V) * (1 + (np.abs(V) - 1) % 4)
    U[list(zr), :] = 0.0
    V[list(zc), :] = 0.0
    return U.dot(V.T)


def lowrank_tensor(shape, r, zero, kind, seed):
    """sum of r rank-one integer terms; zero = list of (axis, index) slices set to zero"""
    d = len(shape)
    fac = []
    for k, n in enumerate(shape):
        if kind == "block" and r > 0:
            F = np.zeros((n, r))
            p = K.payload(seed, "t3:%d:%d:%d" % (k, n, r), (n,))
            for i in range(n):
                F[i, i * r // n if n >= r else i % r] = p[i]
        else:
            F = K.payload(seed, "t3:%d:%d:%d" % (k, n, r), (n, r)) if r else np.zeros((n, 0))
            F = np.sign(F) * (1 + (np.abs(F) - 1) % 3)
        fac.append(F)
    for ax, i in zero:
        fac[ax][i, :] = 0.0
    return R.canonical_dense(fac), fac


def fro(x):
    return float(np.sqrt(np.sum(np.asarray(x, dtype=float) ** 2)))


# ------------------------------------------------------------------------------------------------
# compress / truncate / hosvd
# ------------------------------------------------------------------------------------------------

def compress_input(case):
    t = K.T()
    shape, seed = tuple(case["shape"]), case["seed"]
    d = len(shape)
    if case["fam"] == "decade":
        _, Us, nt = decade_tensor(shape, case["nterms"], case["dec"], seed)
        core = np.zeros(tuple(U.shape[1] for U in Us))
        for j in range(nt):
            core[(j,) * d] = 10.0 ** (-case["dec"] * j)
        Tk = t.TuckerTensor(tuple(U.copy() for U in Us), core)
    elif case["fam"] == "double":
        X = K.make_tensor({"kind": "T", "shape": list(shape), "rank": 2, "var": 0, "salt": "cmp"}, seed)
        Tk = X + X
    elif case["fam"] == "mixed":
        _, Us, nt = decade_tensor(shape, case["nterms"], case["dec"], seed)
        core = np.zeros(tuple(U.shape[1] for U in Us))
        for j in range(nt):
            core[(j,) * d] = 10.0 ** (-case["dec"] * j)
        # non-orthogonal bases: mix the orthogonal columns with a unit upper triangular integer matrix
        Us2 = []
        for k, U in enumerate(Us):
            Tm = np.triu(np.ones((U.shape[1],) * 2))
            Us2.append(U.dot(Tm))
        Tk = t.TuckerTensor(tuple(Us2), core)
    else:
        raise ValueError(case["fam"])
    dense = R.tucker_dense(Tk.Us, Tk.X)
    return Tk, dense


def check_compress(case):
    Tk, dense = compress_input(case)
    snap = K.snapshot(Tk)
    nrm = fro(dense)
    tol, rtol = case["tol"], case["rtol"]
    bound = max(tol, rtol * nrm)
    floor = 1e-13 * max(K.repr_mag(Tk), 1.0)
    try:
        C = Tk.compress(tol=tol, rtol=rtol)
        got = np.asarray(C.asarray(), dtype=float)
    except Exception as e:
        return [("compress:" + K.exc_key(e), "compress(tol=%g, rtol=%g) raised %r" % (tol, rtol, e))], None
    probs = []
    if got.shape != dense.shape or tuple(C.shape) != dense.shape:
        return [("compress:shape", "compress changed the shape to %r" % (got.shape,))], None
    err = fro(got - dense)
    if not err <= bound * (1 + 1e-9) + floor:
        probs.append(("compress:tolerance", "compress(tol=%g, rtol=%g): error %.3e exceeds max(tol, rtol*|T|) = %.3e"
                      % (tol, rtol, err, bound)))
    if any(rc > ro for rc, ro in zip(C.R, Tk.R)):
        probs.append(("compress:rank-grew", "compress increased the rank %r -> %r" % (Tk.R, C.R)))
    if not K.unchanged(snap):
        probs.append(("compress:mutation", "compress changed its operand"))
    return probs, ("compress", tuple(C.R))


def check_truncate(case):
    t = K.T()
    shape = tuple(case["shape"])
    if case["fam"] == "decade":
        X, _, _ = decade_tensor(shape, case["nterms"], case["dec"], case["seed"])
    else:
        X = K.payload(case["seed"], "truncX", shape)
    X0 = X.copy()
    nrm = fro(X)
    tol = case["tol"] * (nrm if case["rel"] else 1.0)
    floor = 1e-13 * max(nrm, 1.0)
    probs = []
    try:
        H = t.hosvd(X)
        rank = t.find_truncation_rank(H.X, tol)
        Tr = H.truncate(rank)
        got = np.asarray(Tr.asarray(), dtype=float)
    except Exception as e:
        return [("truncate:" + K.exc_key(e), "hosvd/find_truncation_rank/truncate raised %r" % (e,))], None
    err = fro(got - X0)
    if not err <= tol * (1 + 1e-9) + floor:
        probs.append(("truncate:tolerance", "truncation to find_truncation_rank(tol=%.3g)=%r has error %.3e"
                      % (tol, tuple(rank), err)))
    # the truncation error of a HOSVD is the norm of the discarded part of the core
    core = np.array(H.X, dtype=float)
    core[tuple(slice(None, r) for r in rank)] = 0.0
    if abs(err - fro(core)) > 1e-10 * max(nrm, 1.0):
        probs.append(("truncate:core-identity", "error %.3e differs from the norm of the discarded core %.3e" % (err, fro(core))))
    if not np.array_equal(X, X0):
        probs.append(("truncate:mutation", "hosvd changed its argument"))
    return probs, ("truncate", tuple(rank))


def hosvd_input(case):
    shape, seed = tuple(case["shape"]), case["seed"]
    fam = case["fam"]
    if fam == "int":
        return K.payload(seed, "hosvdX", shape)
    if fam == "zero":
        return np.zeros(shape)
    if fam == "rank1":
        return R.outer_all([K.payload(seed, "hosvd1:%d" % k, (n,)) for k, n in enumerate(shape)])
    if fam == "decade":
        return decade_tensor(shape, 3, 4, seed)[0]
    raise ValueError(fam)


def check_hosvd(case):
    t = K.T()
    X = hosvd_input(case)
    X0 = X.copy()
    try:
        H = t.hosvd(X)
        got = np.asarray(H.asarray(), dtype=float)
    except Exception as e:
        return [("hosvd:" + K.exc_key(e), "hosvd of a %s array of shape %r raised %r" % (case["fam"], X.shape, e))], None
    probs = []
    scale = max(float(np.max(np.abs(X0))) if X0.size else 0.0, 1.0) * max(X0.size, 1)
    if got.shape != X0.shape or tuple(H.shape) != X0.shape:
        probs.append(("hosvd:shape", "hosvd(X) expands to shape %r, X has %r" % (got.shape, X0.shape)))
    elif np.max(np.abs(got - X0)) > 1e-12 * scale:
        probs.append(("hosvd:exact", "hosvd(X) deviates from X by %.3e" % np.max(np.abs(got - X0))))
    for j, U in enumerate(H.Us):
        G = U.T.dot(U)
        if G.size and np.max(np.abs(G - np.eye(G.shape[0]))) > 1e-12:
            probs.append(("hosvd:orthonormal", "factor %d does not have orthonormal columns" % j))
            break
    if tuple(U.shape[1] for U in H.Us) != tuple(H.X.shape):
        probs.append(("hosvd:core-shape", "core shape %r does not match the factor widths" % (H.X.shape,)))
    if not np.array_equal(X, X0):
        probs.append(("hosvd:mutation", "hosvd changed its argument"))
    return probs, ("hosvd", tuple(H.X.shape))


# ------------------------------------------------------------------------------------------------
# cross approximation
# ------------------------------------------------------------------------------------------------

_LOGGED = []


def logged_generator(A):
    """a TensorGenerator that records every index expression the algorithm asks for"""
    if not _LOGGED:
        L = _L()

        class LoggedGen(L.TensorGenerator):
            def __getitem__(self, I):
                self.log.append(I)
                return super().__getitem__(I)

        _LOGGED.append(LoggedGen)
    g = _LOGGED[0](A.shape, lambda I: A[tuple(I)])
    g.log = []
    return g


def parse_log(log):
    """-> list of ('skip', i) / ('pivot', i, j) in order"""
    out = []
    k = 0
    while k < len(log):
        I = log[k]
        if not (isinstance(I, tuple) and len(I) == 2 and isinstance(I[1], slice)):
            raise ValueError("unexpected entry request %r" % (I,))
        i = int(I[0])
        if k + 1 < len(log) and isinstance(log[k + 1][0], slice):
            out.append(("pivot", i, int(log[k + 1][1])))
            k += 2
        else:
            out.append(("skip", i))
            k += 1
    return out


def check_aca2d(case):
    L = _L()
    A = lowrank_matrix(case["m"], case["n"], case["r"], case["zr"], case["zc"], case["kind"], case["seed"])
    A0 = A.copy()
    m, n = A.shape
    algo = case["algo"]
    rank = R.exact_rank(A)
    scale = max(float(np.max(np.abs(A))), 1.0)
    g = logged_generator(A)
    kw = dict(case.get("kw", {}))
    max_skip = kw.get("skipcount", 3)
    maxiter = kw.get("maxiter", 100)
    if kw.get("maxiter") == "rank":
        maxiter = kw["maxiter"] = max(rank, 1)
    reseed(case)
    try:
        with cpu_guard(60.0), quiet(), contextlib.redirect_stdout(io.StringIO()):
            if algo == "aca":
                X = L.aca(g if case.get("gen", True) else A, verbose=0, **kw)
            else:
                crosses = L.aca_lr(g if case.get("gen", True) else A, verbose=0, **kw)
                X = np.zeros(A.shape)
                for c, rrow in crosses:
                    X = X + np.outer(c, rrow)
    except Hang:
        return [("%s:hang" % algo, "%s did not terminate within 60 s of CPU time" % algo)], None
    except Exception as e:
        return [("%s:%s" % (algo, K.exc_key(e)), "%s on a %dx%d matrix of rank %d raised %r" % (algo, m, n, rank, e))], None
    probs = []
    X = np.asarray(X, dtype=float)
    if X.shape != A.shape:
        return [("%s:shape" % algo, "result has shape %r" % (X.shape,))], None
    if not np.array_equal(A, A0):
        probs.append(("%s:mutation" % algo, "the input matrix was changed"))
    outcome = "reproduced"
    if case.get("gen", True):
        try:
            steps = parse_log(g.log)
        except ValueError as e:
            return [("%s:trace" % algo, str(e))], None
        Rx = R.frac_matrix(A0)
        skipped_since = 0
        npiv = 0
        for s in steps:
            if s[0] == "skip":
                if any(v != 0 for v in Rx[s[1]]):
                    probs.append(("%s:skipped-nonzero-row" % algo, "row %d was skipped although the exact residual "
                                  "row is %r" % (s[1], [float(v) for v in Rx[s[1]]])))
                    break
                skipped_since += 1
            else:
                npiv += 1
                nxt = R.cross_step(Rx, s[1], s[2])
                if nxt is not None:          # a pivot on an exactly-zero residual entry is a rounding-noise cross
                    Rx = nxt
                    skipped_since = 0
        want = A0 - R.frac_to_float(Rx)
        dev = float(np.max(np.abs(X - want))) if X.size else 0.0
        if dev > 1e-10 * scale:
            probs.append(("%s:cross-model" % algo, "result deviates by %.3e from A minus the exact residual of the %d "
                          "crosses it requested" % (dev, npiv)))
        if algo == "aca_lr" and len(crosses) != npiv:
            probs.append(("aca_lr:count", "%d crosses returned, %d pivots requested" % (len(crosses), npiv)))
        if not R.frac_is_zero(Rx) and not probs:
            if npiv >= maxiter:
                outcome = "maxiter"
            elif skipped_since >= max_skip and max_skip < 100:
                outcome = "gave-up"          # documented heuristic stop: `skipcount` zero rows were drawn
            else:
                # with skipcount >= 100 the random restart cannot miss a nonzero row that often
                # (probability < (5/6)^skipcount), so a nonzero exact residual is always a violation there
                probs.append(("%s:stopped-early" % algo, "stopped after %d crosses with a nonzero exact residual (rank %d), "
                              "%d zero rows skipped since the last cross (skipcount %d)" % (npiv, rank, skipped_since, max_skip)))
    else:
        # plain array input (no trace): only generated with skipcount >= 100, reproduction is required
        dev = float(np.max(np.abs(X - A0))) if X.size else 0.0
        if dev > 1e-10 * scale:
            probs.append(("%s:reproduce" % algo, "rank-%d matrix reproduced only to %.3e" % (rank, dev)))
    return probs, (algo, outcome, rank)


def check_aca3d(case):
    L = _L()
    A, fac = lowrank_tensor(tuple(case["shape"]), case["r"], [tuple(z) for z in case["zero"]], case["kind"], case["seed"])
    A0 = A.copy()
    scale = max(float(np.max(np.abs(A))), 1.0)
    reseed(case)
    lr = bool(case.get("lr"))
    try:
        with cpu_guard(120.0), quiet(), contextlib.redirect_stdout(io.StringIO()):
            X = L.aca_3d(L.TensorGenerator.from_array(A) if case.get("gen", True) else A,
                         tol=case.get("tol", 1e-10), skipcount=case["skipcount"], verbose=0, lr=lr)
            got = np.asarray(K.T().asarray(X), dtype=float)
    except Hang:
        return [("aca_3d:hang", "aca_3d did not terminate within 120 s of CPU time")], None
    except Exception as e:
        zero = "zero-tensor:" if not np.any(A0) else ""
        return [("aca_3d:%s%s" % (zero, K.exc_key(e)), "aca_3d(lr=%s) on a tensor of shape %r with %d terms raised %r"
                 % (lr, A.shape, case["r"], e))], None
    probs = []
    if got.shape != A0.shape:
        return [("aca_3d:shape", "result has shape %r" % (got.shape,))], None
    dev = float(np.max(np.abs(got - A0))) if got.size else 0.0
    if dev > 1e-10 * scale:
        probs.append(("aca_3d:reproduce", "tensor with %d rank-one terms reproduced only to %.3e" % (case["r"], dev)))
    if not np.array_equal(A, A0):
        probs.append(("aca_3d:mutation", "the input was changed"))
    return probs, ("aca_3d", lr, dev <= 1e-10 * scale)


# ------------------------------------------------------------------------------------------------
# greedy approximations, ALS
# ------------------------------------------------------------------------------------------------

def greedy_input(case):
    shape, seed = tuple(case["shape"]), case["seed"]
    if case["fam"] == "decade":
        A, _, nt = decade_tensor(shape, case["r"], case["dec"], seed)
        ranks = [nt] * len(shape)
    elif case["fam"] == "zero":
        A, ranks = np.zeros(shape), [0] * len(shape)
    else:
        A, fac = lowrank_tensor(shape, case["r"], [tuple(z) for z in case.get("zero", [])], case["fam"], seed)
        ranks = [R.exact_rank(np.moveaxis(A, k, 0).reshape(shape[k], -1)) for k in range(len(shape))]
    return A, ranks


def as_format(A, fmt, case):
    t = K.T()
    if fmt == "A":
        return A
    if fmt == "T":
        return t.TuckerTensor.from_tensor(A)
    raise ValueError(fmt)


def _history_problems(name, errors, Rmax, stop_tols, nrm):
    """non-increasing history ending below a tolerance or at the rank limit"""
    probs = []
    errors = [float(e) for e in errors]
    floor = 1e-13 * max(nrm, 1.0)
    if not errors or len(errors) > Rmax:
        return [("%s:history-length" % name, "%d error entries for R=%d" % (len(errors), Rmax))]
    if not all(np.isfinite(errors)):
        return [("%s:history-nan" % name, "error history %r" % (errors,))]
    for a, b in zip(errors, errors[1:]):
        if b > a * (1 + 1e-9) + floor:
            probs.append(("%s:history-increases" % name, "error history %r is not non-increasing" % (errors,)))
            break
    thr = max(stop_tols)
    if len(errors) < Rmax and not errors[-1] < thr:
        probs.append(("%s:stopped-early" % name, "stopped after %d < R=%d steps with error %.3e >= tolerance %.3e"
                      % (len(errors), Rmax, errors[-1], thr)))
    if any(e < thr for e in errors[:-1]):
        probs.append(("%s:continued-below-tolerance" % name, "history %r continues although an error was below %.3e" % (errors, thr)))
    return probs


def check_greedy(case):
    t = K.T()
    A, ranks = greedy_input(case)
    A0 = A.copy()
    nrm = fro(A)
    algo, Rmax = case["algo"], case["R"]
    X = as_format(A, case.get("fmt", "A"), case)
    snap = K.snapshot(X)
    tol = case["tol"] * (nrm if nrm > 0 else 1.0)
    reseed(case)
    try:
        with cpu_guard(case.get("guard", 60.0)), quiet():
            if algo == "grou":
                Y, errors = t.grou(X, Rmax, tol=tol, return_errors=True)
                stop = [tol]
            else:
                if case.get("rel"):
                    Y, errors = t.gta(X, Rmax, tol=0.0, rtol=case["tol"], return_errors=True)
                    stop = [case["tol"] * nrm]
                else:
                    Y, errors = t.gta(X, Rmax, tol=tol, rtol=0.0, return_errors=True)
                    stop = [tol]
            got = np.asarray(t.asarray(Y), dtype=float)
    except Hang:
        z = "zero-tensor:" if nrm == 0 else ""
        return [("%s:%shang" % (algo, z), "%s(R=%d) on a tensor of shape %r (norm %.3g) did not terminate within %.0f s of CPU time"
                 % (algo, Rmax, A.shape, nrm, case.get("guard", 60.0)))], None
    except Exception as e:
        return [("%s:%s" % (algo, K.exc_key(e)), "%s(R=%d, tol=%.3g) raised %r" % (algo, Rmax, tol, e))], None
    probs = _history_problems(algo, errors, Rmax, stop, nrm)
    if got.shape != A0.shape or tuple(Y.shape) != A0.shape:
        return probs + [("%s:shape" % algo, "result has shape %r" % (got.shape,))], None
    err = fro(got - A0)
    if not probs and abs(err - float(errors[-1])) > 1e-9 * max(nrm, 1.0):
        probs.append(("%s:history-inconsistent" % algo, "last history entry %.6e, actual error of the returned tensor %.6e"
                      % (errors[-1], err)))
    if algo == "grou" and isinstance(Y, t.CanonicalTensor) and Y.R != len(errors):
        probs.append(("grou:rank", "returned rank %d after %d updates" % (Y.R, len(errors))))
    if algo == "gta":
        for j, U in enumerate(Y.Us):
            G = U.T.dot(U)
            if G.size and np.max(np.abs(G - np.eye(G.shape[0]))) > 1e-10:
                probs.append(("gta:orthonormal", "basis %d is not orthonormal" % j))
                break
        if any(U.shape[1] > Rmax for U in Y.Us):
            probs.append(("gta:rank", "multilinear rank %r exceeds R=%d" % (Y.R, Rmax)))
    # provable reproduction: rank-one input (first greedy step is exact); gta with enough steps to complete
    # every mode basis (each step completes at least one more direction of an incomplete mode)
    must = (max(ranks) <= 1) or (algo == "gta" and Rmax >= sum(max(r - 1, 0) for r in ranks) + 1)
    if must and not probs and stop[0] <= 1e-9 * max(nrm, 1e-300) * 10 and err > 1e-8 * max(nrm, 1.0):
        probs.append(("%s:reproduce" % algo, "input of multilinear rank %r, R=%d: final error %.3e" % (ranks, Rmax, err)))
    if not K.unchanged(snap) or not np.array_equal(A, A0):
        probs.append(("%s:mutation" % algo, "the input tensor was changed"))
    return probs, (algo, len(errors), err <= 1e-8 * max(nrm, 1.0))


def als_degenerate(fac):
    grams = [F.T.dot(F) for F in fac]
    for k in range(len(fac)):
        G = np.ones_like(grams[0])
        for j, Gj in enumerate(grams):
            if j != k:
                G = G * Gj
        ev = np.linalg.eigvalsh(G)
        if ev.size and ev[0] <= 1e-6 * max(ev[-1], 1.0):
            return True
    return False


def check_als(case):
    t = K.T()
    A, ranks = greedy_input(case)
    A0 = A.copy()
    nrm = fro(A)
    Rk = case["R"]
    mode = case["mode"]
    fac = None
    kw = {}
    _, gen_fac = lowrank_tensor(tuple(case["shape"]), case["r"], [tuple(z) for z in case.get("zero", [])], case["fam"], case["seed"])
    if mode in ("fixedpoint", "random") and als_degenerate(gen_fac):
        # collinear / vanishing factor columns: the normal equations of ALS are singular, nothing is promised
        return [], ("als", "degenerate-skipped", False)
    if mode == "fixedpoint":
        _, fac = lowrank_tensor(tuple(case["shape"]), case["r"], [tuple(z) for z in case.get("zero", [])], case["fam"], case["seed"])
        start = t.CanonicalTensor(tuple(F.copy() for F in fac))
        kw["startval"] = start
        Rk = start.R
    reseed(case)
    try:
        with cpu_guard(60.0), quiet():
            Y = t.als(A, Rk, maxiter=case.get("maxiter", 60), **kw)
            got = np.asarray(Y.asarray(), dtype=float)
    except Hang:
        return [("als:hang", "als did not terminate within 60 s of CPU time")], None
    except np.linalg.LinAlgError as e:
        if mode == "random":
            # from a random start two terms can collapse onto the same direction (exactly, on block-structured
            # integer data): the normal equations of ALS are then singular.  Nothing is promised for that
            # (the docstring only says "generally close ... if the algorithm converged").
            return [], ("als", "singular-normal-equations", False)
        return [("als:%s:%s" % (mode, K.exc_key(e)), "als(R=%d, %s) raised %r" % (Rk, mode, e))], None
    except Exception as e:
        return [("als:%s:%s" % (mode, K.exc_key(e)), "als(R=%d, %s) raised %r" % (Rk, mode, e))], None
    probs = []
    if not isinstance(Y, t.CanonicalTensor) or tuple(Y.shape) != A0.shape or Y.R != Rk:
        return [("als:format", "als returned %r for shape %r, R=%d" % (Y, A0.shape, Rk))], None
    err = fro(got - A0)
    if not np.isfinite(err):
        probs.append(("als:nan", "als returned non-finite entries"))
    elif mode == "fixedpoint" and err > 1e-9 * max(nrm, 1.0):
        probs.append(("als:fixedpoint", "started at an exact rank-%d representation, returned error %.3e" % (Rk, err)))
    elif mode == "rank1" and err > 1e-8 * max(nrm, 1.0):
        probs.append(("als:rank1", "rank-one input, R=1: error %.3e" % err))
    elif err > nrm * (1 + 1e-6) + 1e-12:
        probs.append(("als:worse-than-zero", "error %.3e exceeds the norm of the tensor %.3e" % (err, nrm)))
    if not np.array_equal(A, A0):
        probs.append(("als:mutation", "the input tensor was changed"))
    if mode == "fixedpoint" and any(not np.array_equal(F, X) for F, X in zip(fac, kw["startval"].Xs)):
        probs.append(("als:mutation-startval", "the starting value was changed"))
    return probs, ("als", mode, err <= 1e-8 * max(nrm, 1.0))


# ------------------------------------------------------------------------------------------------
# TensorGenerator
# ------------------------------------------------------------------------------------------------

def make_generator(X, ctor):
    L = _L()
    if ctor == "from_array":
        return L.TensorGenerator.from_array(X)
    if ctor == "entry":
        return L.TensorGenerator(X.shape, entryfunc=lambda I: X[tuple(int(i) for i in I)])
    if ctor == "multi":
        return L.TensorGenerator(X.shape, multientryfunc=lambda II: np.array([X[tuple(int(i) for i in I)] for I in II], dtype=float))
    raise ValueError(ctor)


def check_tgen(case):
    shape = tuple(case["shape"])
    X = K.payload(case["seed"], "tgen", shape)
    X0 = X.copy()
    g = make_generator(X, case["ctor"])
    probs = []
    n = 0
    try:
        if tuple(g.shape) != shape or g.ndim != len(shape):
            probs.append(("tgen:shape", "shape/ndim attributes %r/%r" % (g.shape, g.ndim)))
        a = g.asarray()
        n += 1
        if a.shape != shape or not np.array_equal(a, X0):
            probs.append(("tgen:asarray", "asarray() differs from the wrapped array"))
        for I in itertools.product(*[range(k) for k in shape]):
            n += 1
            if g.entry(I) != X0[I]:
                probs.append(("tgen:entry", "entry(%r) = %r, array has %r" % (I, g.entry(I), X0[I])))
                break
    except Exception as e:
        return [("tgen:" + K.exc_key(e), "asarray/entry on a generator of shape %r raised %r" % (shape, e))], n
    exprs, skipped = K.index_exprs(shape, True)
    for items in exprs:
        n += 1
        want = R.ortho_index(X0, items)
        try:
            got = g[R.decode_expr(items)]
        except Exception as e:
            probs.append(("tgen:getitem:%s:%s" % (K.exc_key(e), K.idx_signature(items)),
                          "G[%s] raised %r" % (K.describe(["idx", items])[2:-1], e)))
            continue
        got = np.asarray(got)
        if got.shape != want.shape or not np.array_equal(got, want):
            probs.append(("tgen:getitem:value:%s" % K.idx_signature(items), "G[%s] (shape %r) differs from the array's "
                          "entries (shape %r)" % (K.describe(["idx", items])[2:-1], got.shape, want.shape)))
    # matrix slices
    d = len(shape)
    if d >= 2:
        for a0, a1 in itertools.permutations(range(d), 2):
            rest = [k for k in range(d) if k not in (a0, a1)]
            for fix in itertools.product(*[range(shape[k]) for k in rest]):
                I = [0] * d
                for k, v in zip(rest, fix):
                    I[k] = v
                Iin = tuple(I)
                n += 1
                sel = [slice(None) if k in (a0, a1) else I[k] for k in range(d)]
                want = X0[tuple(sel)]
                if a0 > a1:
                    want = want.T
                try:
                    Mg = g.matrix_at(Iin, axes=(a0, a1))
                    got = Mg.asarray()
                    row = Mg[shape[a0] - 1, :]
                    col = Mg[:, 0]
                except Exception as e:
                    probs.append(("tgen:matrix_at:" + K.exc_key(e), "matrix_at(%r, axes=%r) raised %r" % (Iin, (a0, a1), e)))
                    continue
                if tuple(Mg.shape) != want.shape or got.shape != want.shape or not np.array_equal(got, want):
                    probs.append(("tgen:matrix_at:value", "matrix_at(%r, axes=%r) differs from the array slice" % (Iin, (a0, a1))))
                elif not np.array_equal(row, want[-1, :]) or not np.array_equal(col, want[:, 0]):
                    probs.append(("tgen:matrix_at:getitem", "row/column of matrix_at(%r, axes=%r) differ from the array slice" % (Iin, (a0, a1))))
    if not np.array_equal(X, X0):
        probs.append(("tgen:mutation", "the wrapped array was changed"))
    # one defect, one key: map the item-kind signature of every failing expression to the smallest failing
    # signature it contains; at most one report per key
    sigs = {}
    for k, m in probs:
        if k.startswith("tgen:getitem:"):
            base, sig = k.rsplit(":", 1)
            sigs.setdefault(base, set()).add(frozenset(sig.split("+")))
    seen, out = set(), []
    for k, m in probs:
        if k.startswith("tgen:getitem:"):
            base, sig = k.rsplit(":", 1)
            sig = frozenset(sig.split("+"))
            mins = sorted((x for x in sigs[base] if x <= sig), key=lambda x: (len(x), sorted(x)))
            k = base + ":" + "+".join(sorted(mins[0]))
        if k not in seen:
            seen.add(k)
            out.append((k, m))
    return out, n


# ------------------------------------------------------------------------------------------------
# constant constructors and the ndarray helpers of the module
# ------------------------------------------------------------------------------------------------

def check_ctor(case):
    t = K.T()
    shape = tuple(case["shape"])
    cls = {"C": t.CanonicalTensor, "T": t.TuckerTensor}[case["cls"]]
    want = np.ones(shape) if case["val"] == "ones" else np.zeros(shape)
    try:
        X = cls.ones(shape) if case["val"] == "ones" else cls.zeros(shape)
        got = np.asarray(X.asarray(), dtype=float)
    except Exception as e:
        return [(K.exc_key(e), "%s.%s(%r) raised %r" % (cls.__name__, case["val"], shape, e))], None
    if tuple(X.shape) != shape or got.shape != shape or not np.array_equal(got, want):
        return [("ctor:%s:%s:value" % (case["cls"], case["val"]), "%s.%s(%r) does not expand to the constant tensor"
                 % (cls.__name__, case["val"], shape))], None
    return [], ("ctor", case["cls"], case["val"])


def check_dense(case):
    """modek_tprod / apply_tprod / outer / array_outer / fro_norm on plain ndarrays"""
    import scipy.sparse
    import scipy.sparse.linalg
    t = K.T()
    shape = tuple(case["shape"])
    X = K.payload(case["seed"], "denseX", shape)
    X0 = X.copy()
    probs = []
    n = 0
    try:
        for k in range(len(shape)):
            for m in (1, shape[k], shape[k] + 1):
                B = K.payload(case["seed"], "denseB:%d:%d" % (k, m), (m, shape[k]))
                want = R.mode_product(X0, k, B)
                for nm, Bk in (("dense", B), ("sparse", scipy.sparse.csr_matrix(B)),
                               ("linop", scipy.sparse.linalg.aslinearoperator(B))):
                    n += 1
                    got = t.modek_tprod(Bk, k, X)
                    if got.shape != want.shape or not np.array_equal(got, want):
                        probs.append(("dense:modek_tprod:%s" % nm, "modek_tprod(%s %dx%d, %d, X%r) differs from the mode product"
                                      % (nm, m, shape[k], k, shape)))
        vecs = [K.payload(case["seed"], "densev:%d" % k, (nk,)) for k, nk in enumerate(shape)]
        n += 2
        if not np.array_equal(t.outer(*vecs), R.outer_all(vecs)):
            probs.append(("dense:outer", "outer() of %d vectors differs from the outer product" % len(vecs)))
        parts = [X0, vecs[0]] if len(shape) < 3 else [X0[0], vecs[0], X0[:, 0, 0]]
        if not np.array_equal(t.array_outer(*parts), R.outer_all(parts)):
            probs.append(("dense:array_outer", "array_outer() differs from the outer product"))
        if abs(t.fro_norm(X) - fro(X0)) > 1e-12 * max(fro(X0), 1.0):
            probs.append(("dense:fro_norm", "fro_norm of an ndarray is not its Frobenius norm"))
    except Exception as e:
        probs.append(("dense:" + K.exc_key(e), "ndarray helper on shape %r raised %r" % (shape, e)))
    if not np.array_equal(X, X0):
        probs.append(("dense:mutation", "an ndarray helper changed its argument"))
    seen, out = set(), []
    for k, m in probs:
        if k not in seen:
            seen.add(k)
            out.append((k, m))
    return out, n


# ------------------------------------------------------------------------------------------------
# case enumeration
# ------------------------------------------------------------------------------------------------

def cases(tier, seed):
    out = []
    thorough = tier == "thorough"

    def add(what, **kw):
        out.append(dict(part="approx", what=what, seed=seed, cid=len(out), **kw))

    # compress / truncate over the tolerance alphabet
    cshapes = [(3, 3), (2, 3, 3), (4, 2)] + ([(4, 3, 2), (3, 3, 3), (2, 2, 2, 2), (4,)] if thorough else [(3,)])
    for shape in cshapes:
        for fam in ("decade", "mixed", "double"):
            for dec in ((2, 3) if fam != "double" else (0,)):
                for tol in TOLS:
                    for (a, r) in ((tol, 0.0), (0.0, tol), (tol * 1e-2, tol)):
                        add("compress", shape=list(shape), fam=fam, nterms=4, dec=dec, tol=a, rtol=r)
        for fam in ("decade", "int"):
            for tol in TOLS:
                for rel in (0, 1):
                    add("truncate", shape=list(shape), fam=fam, nterms=4, dec=3, tol=tol, rel=rel)
    # hosvd
    for d in (1, 2, 3) + ((4,) if thorough else ()):
        for shape in itertools.product((1, 2, 3), repeat=d):
            if d == 4 and sum(shape) > 9:
                continue
            for fam in ("int", "zero", "rank1", "decade"):
                add("hosvd", shape=list(shape), fam=fam)
    # ACA on matrices
    mshapes = [(1, 1), (2, 2), (3, 2), (2, 5), (4, 4), (6, 3), (5, 6), (6, 6)]
    for (m, n) in mshapes:
        for r in range(0, min(m, n, 3) + 1):
            rowsets = [()] + [(i,) for i in range(m)] + [(i, j) for i in range(m) for j in range(i + 1, m)]
            if thorough:
                rowsets += [c for k in (3, 4) for c in itertools.combinations(range(m), k)]
            colsets = [(), (0,), (n - 1,), (0, n // 2)] if thorough else [(), (n // 2,)]
            for kind in ("generic", "block"):
                if kind == "block" and r < 2:
                    continue
                for zr in rowsets:
                    if m - len(zr) < r:
                        continue
                    for zc in colsets:
                        if n - len(set(zc)) < r:
                            continue
                        base = dict(m=m, n=n, r=r, zr=list(zr), zc=sorted(set(zc)), kind=kind)
                        add("aca2d", algo="aca", kw={}, **base)
                        add("aca2d", algo="aca_lr", kw={}, **base)
                        if not zc or thorough:
                            add("aca2d", algo="aca", kw={"skipcount": 400}, **base)
                            add("aca2d", algo="aca", kw={"tol": 0, "maxiter": "rank"}, **base)
                            add("aca2d", algo="aca_lr", kw={"tol": 0}, **base)
                        if not zc:
                            add("aca2d", algo="aca", kw={"skipcount": 400}, gen=False, **base)
    # ACA on 3D tensors
    tshapes = [(2, 2, 2), (3, 2, 4), (1, 3, 2), (4, 4, 3)] + ([(3, 3, 3), (2, 4, 1), (4, 1, 4)] if thorough else [])
    for shape in tshapes:
        for r in range(0, 4):
            if r > max(shape):
                continue
            zsets = [[]] + [[(ax, i)] for ax in range(3) for i in sorted({0, shape[ax] // 2, shape[ax] - 1})]
            if thorough:
                zsets += [[(0, shape[0] // 2), (1, shape[1] // 2)], [(1, 0), (2, shape[2] - 1)], [(0, 0), (2, 0)]]
            for kind in ("generic", "block"):
                if kind == "block" and r < 2:
                    continue
                for z in zsets:
                    for lr in (0, 1):
                        add("aca3d", shape=list(shape), r=r, zero=[list(t) for t in z], kind=kind, lr=lr, skipcount=500)
    # greedy approximations: history properties over the tolerance alphabet
    gshapes = [(3, 3), (2, 3, 2), (3, 3, 3)] + ([(4, 4), (4, 3, 2), (2, 2, 2, 2)] if thorough else [])
    for shape in gshapes:
        for algo in ("grou", "gta"):
            for dec in (1, 3):
                for Rmax in (1, 2, 3, 4):
                    for tol in TOLS:
                        add("greedy", algo=algo, shape=list(shape), fam="decade", r=3, dec=dec, R=Rmax, tol=tol)
                        if algo == "gta":
                            add("greedy", algo=algo, shape=list(shape), fam="decade", r=3, dec=dec, R=Rmax, tol=tol, rel=1)
    lshapes = [(3, 2), (2, 3, 2), (3, 3, 3), (1, 3, 2)] + ([(4, 3), (6, 6), (4, 2, 3), (2, 2, 2, 2)] if thorough else [])
    for shape in lshapes:
        for r in (1, 2, 3):
            for fam in ("generic", "block"):
                if fam == "block" and r < 2:
                    continue
                zsets = [[], [[0, 0]], [[1, shape[1] - 1]]]
                for z in zsets:
                    if any(shape[ax] == 1 for ax, _ in z):
                        continue        # would zero the whole tensor; the zero tensor has its own cases below
                    for algo in ("grou", "gta"):
                        for fmt in ("A", "T"):
                            for Rmax in sorted({1, r, r + 1, len(shape) * (r - 1) + 1}):
                                add("greedy", algo=algo, shape=list(shape), fam=fam, r=r, zero=z, R=Rmax, tol=1e-10, fmt=fmt)
                    add("als", shape=list(shape), fam=fam, r=r, zero=z, R=r, mode="fixedpoint")
                    add("als", shape=list(shape), fam=fam, r=r, zero=z, R=r, mode="random")
                    if r == 1:
                        add("als", shape=list(shape), fam=fam, r=r, zero=z, R=1, mode="rank1")
    # the zero tensor is a tensor: the greedy algorithms must stop at once with error 0
    for shape in ((3,), (2, 2), (2, 2, 2)):
        for algo in ("grou", "gta"):
            add("greedy", algo=algo, shape=list(shape), fam="zero", r=0, R=2, tol=1e-10, guard=3.0)
    # constant constructors, ndarray helpers
    for d in (1, 2, 3):
        for shape in itertools.product((1, 2, 3), repeat=d):
            for cls in "CT":
                for val in ("zeros", "ones"):
                    add("ctor", shape=list(shape), cls=cls, val=val)
            add("dense", shape=list(shape))
    # entry generators
    for d in (1, 2, 3):
        for shape in itertools.product((1, 2, 3), repeat=d):
            if not thorough and d == 3 and sorted(shape) not in ([1, 2, 3], [2, 2, 3], [1, 1, 2], [3, 3, 3]):
                continue
            for ctor in ("from_array", "entry", "multi"):
                add("tgen", shape=list(shape), ctor=ctor)
    return out


CHECKS = {"compress": check_compress, "truncate": check_truncate, "hosvd": check_hosvd, "aca2d": check_aca2d,
          "aca3d": check_aca3d, "greedy": check_greedy, "als": check_als, "tgen": check_tgen,
          "ctor": check_ctor, "dense": check_dense}


def check(case):
    """-> (problems, info)"""
    return CHECKS[case["what"]](case)
