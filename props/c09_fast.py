"""C09, low-rank fast assembler (mass_fast / stiffness_fast): the ACA pivot search in fastasm.cc draws from the
process-global, unseeded C rand(), so the result of a fresh process is deterministic but depends on what ran
before in the same process.  Every case therefore runs in its own child whose rand() state is the pristine one
(forked child + srand(1), which the C standard defines to be the never-seeded sequence); every case runs twice
(determinism), and cases flagged "exec" run the second time in a newly exec'ed interpreter to confirm that
the forked children see exactly what a fresh process sees.

One case = (form, geometry, space, list of tolerances); the child resets rand() with srand(1) before every fast assembly.
Worker protocol: `python -c <bootstrap> <json case>` prints one JSON line with a list (one entry per tolerance) of
  {"tol":.., "err": max|A_fast - A_gauss|, "amax": max|A_gauss|, "stop": <ACA stop reason>, "sha": <hash of A_fast>, "shape": [..]}
"""
import hashlib
import io
import json
import os
import select
import signal
import subprocess
import sys
import time

import numpy as np

VERIF = os.path.dirname(os.path.dirname(os.path.abspath(__file__)))
FACTOR = 10.0          # "small multiple" of the requested tolerance
TIMEOUT = 600

BOOT = "import sys; sys.path.insert(0, %r); from props import c09_fast; c09_fast.worker_main(sys.argv[1])" % VERIF


def make_axis(axis):
    """[p, pattern, mults] from the shared alphabet, or [p, 'uniform', n] (n equal spans on [0,1])"""
    from pyiga import bspline
    from ref import kvs as KV
    p, name, m = axis
    if name == "uniform":
        return bspline.make_knots(p, 0.0, 1.0, int(m))
    return bspline.KnotVector(KV.knots_from(KV.PATTERNS[name], m, p).copy(), p)


def make_fast_geo(g, d):
    from pyiga import geometry
    from props.c09_util import make_geo
    if isinstance(g, str):
        geo = {"bspline_quarter_annulus": geometry.bspline_quarter_annulus,
               "quarter_annulus": geometry.quarter_annulus,
               "twisted_box": geometry.twisted_box,
               "unit_square": geometry.unit_square,
               "unit_cube": geometry.unit_cube}[g]()
        return geo
    return make_geo(g, [(0.0, 1.0)] * d)[0]


def stop_reason(log):
    reason = "none"
    for line in log.splitlines():
        if "Skipped" in line:
            reason = "skipstop"
        elif "Desired tolerance" in line:
            reason = "tolstop"
        elif "Maximum iteration" in line:
            reason = "maxiter"
    return reason


def _srand1():
    import ctypes
    ctypes.CDLL(None).srand(1)


def compute(case):
    """assemble with the Gauss assembler and, for every requested tolerance, with the fast assembler in THIS process;
    the C rand() state is reset to the pristine one (srand(1)) before every fast assembly; list of summary dicts"""
    outs = []
    try:
        import pyiga
        from pyiga import assemble
        pyiga.set_max_threads(1)
        kvs = tuple(make_axis(a) for a in case["axes"])
        d = len(kvs)
        geo = make_fast_geo(case["geo"], d)
        ref = getattr(assemble, case["which"])(kvs, geo)
    except Exception as e:
        return [{"exception": type(e).__name__, "repr": "Gauss assembler / setup: " + repr(e)}]
    for tol in case["tols"]:
        try:
            buf = io.StringIO()
            old = sys.stdout
            sys.stdout = buf
            try:
                _srand1()
                A = getattr(assemble, case["which"] + "_fast")(kvs, geo, tol=tol, verbose=1)
            finally:
                sys.stdout = old
            A = A.tocsr()
            A.sum_duplicates()
            A.sort_indices()
            h = hashlib.sha256()
            h.update(np.asarray(A.indptr, dtype=np.int64).tobytes())
            h.update(np.asarray(A.indices, dtype=np.int64).tobytes())
            h.update(np.asarray(A.data, dtype=np.float64).tobytes())
            out = {"tol": tol, "shape": list(A.shape), "refshape": list(ref.shape), "sha": h.hexdigest()[:16],
                   "stop": stop_reason(buf.getvalue()), "finite": bool(np.all(np.isfinite(A.data)))}
            if A.shape == ref.shape:
                out["err"] = float(abs(A - ref).max())
                out["amax"] = float(abs(ref).max())
        except Exception as e:
            out = {"tol": tol, "exception": type(e).__name__, "repr": repr(e)}
        outs.append(out)
    return outs


def worker_main(arg):
    out = compute(json.loads(arg))
    sys.stdout.write("\nC09FAST " + json.dumps(out) + "\n")
    sys.stdout.flush()


def run_exec(case):
    """a really fresh interpreter"""
    env = dict(os.environ)
    env.setdefault("OMP_NUM_THREADS", "1")
    try:
        r = subprocess.run([sys.executable, "-c", BOOT, json.dumps(case)], stdout=subprocess.PIPE, stderr=subprocess.PIPE,
                           text=True, timeout=TIMEOUT, env=env, cwd=VERIF)
    except subprocess.TimeoutExpired:
        return {"timeout": True}
    if r.returncode < 0:
        return {"signal": -r.returncode}
    for line in r.stdout.splitlines():
        if line.startswith("C09FAST "):
            return json.loads(line[8:])
    return {"exception": "NoOutput", "repr": "exit code %d, stderr tail: %s" % (r.returncode, r.stderr[-300:])}


def run_fork(case):
    """a forked child whose C rand() state is reset to the pristine one: by the C standard the sequence of a
    process that never called srand() is the sequence after srand(1)"""
    r, w = os.pipe()
    sys.stdout.flush()
    sys.stderr.flush()
    pid = os.fork()
    if pid == 0:
        code = 0
        try:
            os.close(r)
            import gc
            gc.disable()        # a full collection in this short-lived copy would write to (= copy) the whole inherited heap
            data = json.dumps(compute(case)).encode()
            off = 0
            while off < len(data):
                off += os.write(w, data[off:])
            os.close(w)
        except BaseException:
            code = 3
        finally:
            os._exit(code)
    os.close(w)
    buf = b""
    deadline = time.time() + TIMEOUT
    timed_out = False
    while True:
        left = deadline - time.time()
        if left <= 0:
            timed_out = True
            break
        ready, _, _ = select.select([r], [], [], left)
        if not ready:
            timed_out = True
            break
        chunk = os.read(r, 1 << 16)
        if not chunk:
            break
        buf += chunk
    os.close(r)
    if timed_out:
        try:
            os.kill(pid, signal.SIGKILL)
        except OSError:
            pass
    _, status = os.waitpid(pid, 0)
    if timed_out:
        return {"timeout": True}
    if os.WIFSIGNALED(status):
        return {"signal": os.WTERMSIG(status)}
    try:
        return json.loads(buf.decode())
    except Exception:
        return {"exception": "NoOutput", "repr": "child exit status %d" % status}


def run_child(case):
    """forked child if this process is single-threaded (a forked copy of a process that already started pyiga's
    assembly thread pool would wait forever for the pool threads that fork does not copy), else a new interpreter"""
    import threading
    if threading.active_count() > 1:
        return run_exec(case)
    return run_fork(case)


def check_fast(case, stats=None):
    probs = []
    which = case["which"]
    part = "fast:" + which
    tag0 = "%s_fast(axes=%s, geo=%s" % (which, case["axes"], case["geo"])
    r1 = run_child(case)
    r2 = run_exec(case) if case.get("exec") else run_child(case)
    for r in (r1, r2):
        if isinstance(r, dict):       # the child itself failed
            if r.get("timeout"):
                probs.append((part + ":timeout", "%s, tols=%s) did not finish within %d s" % (tag0, case["tols"], TIMEOUT)))
            elif "signal" in r:
                try:
                    nm = signal.Signals(r["signal"]).name
                except Exception:
                    nm = str(r["signal"])
                probs.append((part + ":crash:" + nm, "%s, tols=%s) killed the interpreter (%s)" % (tag0, case["tols"], nm)))
            else:
                probs.append((part + ":exception:" + r.get("exception", "?"), "%s, tols=%s) raised %s" % (tag0, case["tols"], r.get("repr"))))
    if probs:
        return probs[:1], 2
    if r1 != r2:
        probs.append((part + ":nondeterministic", "%s): two processes with pristine rand() state (%s) give different results: %s vs %s"
                      % (tag0, "forked child with srand(1) vs new interpreter" if case.get("exec") else "two forked children with srand(1)", r1, r2)))
    for r in r1:
        tol = r.get("tol")
        tag = "%s, tol=%s)" % (tag0, tol)
        if "exception" in r:
            probs.append((part + ":exception:" + r["exception"], "%s raised %s" % (tag, r["repr"])))
            continue
        if r["shape"] != r["refshape"]:
            probs.append((part + ":shape", "%s: shape %s, Gauss assembler %s" % (tag, r["shape"], r["refshape"])))
            continue
        if not r["finite"]:
            probs.append((part + ":nonfinite", "%s: non-finite entries" % tag))
        bound = FACTOR * tol * max(1.0, r["amax"])
        if stats is not None:
            k = "fast:err/tol:%s:%s:%s" % (which, r["stop"], "within-bound" if r["err"] <= bound else "VIOLATING")
            stats[k] = max(stats.get(k, 0.0), r["err"] / (tol * max(1.0, r["amax"])))
        if not (r["err"] <= bound):
            cid = hashlib.sha1(json.dumps([case["which"], case["axes"], case["geo"], tol], sort_keys=True).encode()).hexdigest()[:8]
            probs.append(("%s:inaccurate:%s:%s" % (part, r["stop"], cid),
                          "%s: max entrywise deviation from the Gauss assembler %.3g > %g * tol * max(1, max|A|) = %.3g "
                          "(max|A| = %.3g, ACA stop reason: %s)" % (tag, r["err"], FACTOR, bound, r["amax"], r["stop"])))
    seen, out = set(), []
    for k, m in probs:
        if k not in seen:
            seen.add(k)
            out.append((k, m))
    return out, 2 * len(case["tols"])
