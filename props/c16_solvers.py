"""C16 helpers: solver factories apply the inverse of the matrix they were built from.

Oracle: for the operator S returned by the factory for B,  B @ S(e_j) == e_j for every unit vector (as (n,)
and as (n,1)) and B @ S(I) == I for the multi-column identity (C- and F-ordered), max-norm residual
<= TOL * cond_2(B).
"""
import warnings

import numpy as np

from props.c16_ops import _excname, digest
from ref import linops as R

TOL = 1e-10
SOLVER_FORMS = ["v", "c", "IC", "IF", "vd"]


def _to_fmt(M, fmt):
    import scipy.sparse as sp
    if fmt == "dense":
        return M.copy()
    if fmt == "denseF":          # column-major dense matrix (what `A.T` of a C-ordered array or LAPACK output looks like)
        return np.asfortranarray(M.copy())
    if fmt == "csr":
        return sp.csr_matrix(M)
    if fmt == "csc":
        return sp.csc_matrix(M)
    raise ValueError(fmt)


def inverse_problems(prefix, S, B, forms):
    """S must act as B^{-1}.  Returns (problems, calls, worst residual / cond)."""
    n = B.shape[0]
    cond = float(np.linalg.cond(B))
    tol = TOL * cond
    I = np.eye(n)
    probs, calls, worst = [], 0, 0.0
    if tuple(S.shape) != (n, n):
        return [("%s:shape" % prefix, "solver.shape=%s for a %dx%d matrix" % (tuple(S.shape), n, n), None, None)], 0, 0.0
    with warnings.catch_warnings():
        warnings.simplefilter("ignore")
        for form in forms:
            if form == "v":
                todo = [("dot(e_%d)" % j, I[:, j].copy()) for j in range(n)]
            elif form == "c":
                todo = [("dot(e_%d as (n,1))" % j, I[:, j:j + 1].copy()) for j in range(n)]
            elif form == "vd":      # integer / single-precision right-hand sides (unit vectors are exact in every dtype)
                todo = [("dot(e_%d dtype=%s)" % (j, np.dtype(dt).name), I[:, j].astype(dt)) for j in range(n) for dt in (np.int64, np.float32)]
                todo += [("dot(eye(n) dtype=%s)" % np.dtype(dt).name, I.astype(dt)) for dt in (np.int64, np.float32)]
            elif form == "IC":
                todo = [("dot(eye(n))", I.copy())]
            elif form == "IF":
                todo = [("dot(eye(n) F-ordered)", np.asfortranarray(I))]
            else:
                raise ValueError(form)
            for label, rhs in todo:
                calls += 1
                try:
                    x = np.asarray(S.dot(rhs))
                except Exception as e:
                    probs.append(("%s:exception:%s" % (prefix, _excname(e)), "%s raised %r" % (label, e), None, form))
                    break
                if x.shape != rhs.shape:
                    probs.append(("%s:shape" % prefix, "%s returned shape %s for a right-hand side of shape %s"
                                  % (label, x.shape, rhs.shape), None, form))
                    break
                res = float(np.abs(B @ x - rhs).max()) if np.all(np.isfinite(x)) else float("inf")
                worst = max(worst, res / cond)
                if not res <= tol:
                    probs.append(("%s:residual" % prefix, "%s: max|B x - rhs| = %.3e > %.1e * cond(B) = %.3e"
                                  % (label, res, TOL, tol), None, form))
                    break
    return probs, calls, worst


def classify(M):
    """(symmetric, spd) of a small integer matrix, decided exactly through integer leading minors"""
    sym = bool(np.array_equal(M, M.T))
    spd = sym and all(round(float(np.linalg.det(M[:k, :k]))) >= 1 for k in range(1, M.shape[0] + 1))
    return sym, spd


def make_solver_problems(case):
    from pyiga import operators as O
    M = np.array(case["matrix"], dtype=np.float64)
    fmt, sym, spd = case["fmt"], bool(case["symmetric"]), bool(case["spd"])
    prefix = "make_solver:%s:%s" % ("dense" if fmt.startswith("dense") else "sparse", "spd" if spd else "symmetric" if sym else "general")
    B = _to_fmt(M, fmt)
    with warnings.catch_warnings():
        warnings.simplefilter("ignore")
        try:
            kw = {}
            if sym:
                kw["symmetric"] = True
            if spd:
                kw["spd"] = True
            S = O.make_solver(B, **kw)
        except Exception as e:
            return [("%s:exception:%s" % (prefix, _excname(e)), "make_solver(%s, %s) raised %r" % (fmt, kw, e), None, None)], {}
    probs, calls, worst = inverse_problems(prefix, S, M, case["forms"])
    if not probs:
        # the operand still is the matrix the caller passed, and a second solver built from the same object is again
        # the inverse of that matrix
        Bd = np.asarray(B.todense()) if hasattr(B, "todense") else np.asarray(B)
        if not np.array_equal(Bd, M):
            probs.append(("%s:mutates-input" % prefix, "make_solver(%s, %s) modified the matrix it was given" % (fmt, kw), None, None))
        else:
            with warnings.catch_warnings():
                warnings.simplefilter("ignore")
                try:
                    S2 = O.make_solver(B, **kw)
                    p2, c2, w2 = inverse_problems(prefix + ":second", S2, M, ["v"])
                    probs += p2
                    calls += c2
                except Exception as e:
                    probs.append(("%s:exception:%s" % (prefix, _excname(e)), "second make_solver on the same matrix raised %r" % (e,), None, None))
    issym, isspd = classify(M)
    return probs, {"calls": calls, "worst": worst, "digest": digest(M),
                   "nontrivial": bool(M.shape[0] >= 2 and np.count_nonzero(M - np.diag(np.diag(M))) > 0)}


def kron_solver_problems(case):
    from pyiga import operators as O
    mats = [np.array(m, dtype=np.float64) for m in case["matrices"]]
    Bs = [_to_fmt(m, f) for m, f in zip(mats, case["fmts"])]
    if case.get("share"):
        # equal factors are passed as ONE object (make_kronecker_solver(B, B)), as user code does
        for i in range(len(Bs)):
            for j in range(i):
                if case["fmts"][i] == case["fmts"][j] and np.array_equal(mats[i], mats[j]):
                    Bs[i] = Bs[j]
                    break
    with warnings.catch_warnings():
        warnings.simplefilter("ignore")
        try:
            S = O.make_kronecker_solver(*Bs)
        except Exception as e:
            return [("kron_solver:exception:%s" % _excname(e), "make_kronecker_solver(%s) raised %r" % (case["fmts"], e), None, None)], {}
    B = R.kron_all(mats)
    probs, calls, worst = inverse_problems("kron_solver", S, B, case["forms"])
    if not probs:
        for Bi, m in zip(Bs, mats):
            Bd = np.asarray(Bi.todense()) if hasattr(Bi, "todense") else np.asarray(Bi)
            if not np.array_equal(Bd, m):
                probs.append(("kron_solver:mutates-input", "make_kronecker_solver(%s) modified a matrix it was given" % (case["fmts"],), None, None))
                break
    return probs, {"calls": calls, "worst": worst, "digest": digest(B),
                   "nontrivial": bool(len(mats) >= 2 and min(m.shape[0] for m in mats) >= 2)}


def km_pair(spec):
    """(K, M) dense symmetric pair with M SPD for one coordinate direction.
    spec = {"src": "int", "K": [[..]], "M": [[..]]}                       explicit integer matrices
         | {"src": "dir"|"rob", "p": p, "breaks": [...], "mults": [...]}  1D stiffness/mass of the spline space;
           "dir": Dirichlet (first/last dof removed), "rob": K+M, M on all dofs"""
    if spec["src"] == "int":
        return np.array(spec["K"], dtype=np.float64), np.array(spec["M"], dtype=np.float64)
    from pyiga import bspline, assemble
    kv = bspline.KnotVector(np.array(R.open_knots(spec["p"], spec["breaks"], spec["mults"])), spec["p"])
    K = np.asarray(assemble.stiffness(kv).toarray(), dtype=np.float64)
    M = np.asarray(assemble.mass(kv).toarray(), dtype=np.float64)
    if spec["src"] == "dir":
        return K[1:-1, 1:-1].copy(), M[1:-1, 1:-1].copy()
    if spec["src"] == "rob":
        return K + M, M
    raise ValueError(spec["src"])


def fastdiag_problems(case):
    import scipy.sparse as sp
    from pyiga import solvers
    KM = [km_pair(s) for s in case["dims"]]
    for K, M in KM:      # harness sanity: the inputs are what the docstring asks for
        if not (np.allclose(K, K.T, rtol=0, atol=1e-13 * np.abs(K).max()) and np.allclose(M, M.T, rtol=0, atol=1e-13 * np.abs(M).max())):
            raise RuntimeError("harness: K/M pair is not symmetric")
    KM = [((K + K.T) / 2, (M + M.T) / 2) for K, M in KM]
    B = R.laplacian_sum(KM)
    fmt = case["fmt"]
    arg = [(_to_fmt(K, fmt), _to_fmt(M, fmt)) for K, M in KM]
    if case.get("container", "list") == "tuple":
        arg = tuple(arg)
    prefix = "fastdiag" if fmt == "dense" else "fastdiag:sparse"
    with warnings.catch_warnings():
        warnings.simplefilter("ignore")
        try:
            S = solvers.fastdiag_solver(arg)
        except Exception as e:
            return [("%s:exception:%s" % (prefix, _excname(e)), "fastdiag_solver(%d pairs, %s) raised %r"
                     % (len(KM), fmt, e), None, None)], {}
    probs, calls, worst = inverse_problems(prefix, S, B, case["forms"])
    return probs, {"calls": calls, "worst": worst, "digest": digest(B),
                   "nontrivial": bool(len(KM) >= 2 and min(K.shape[0] for K, _ in KM) >= 2)}
