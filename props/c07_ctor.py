"""C07 part C -- geometry constructors return exactly the map their documentation defines.

circular_arc / circular_arc_3pt / _5pt / _7pt / semicircle / circle: every test point lies on the circle of the
requested radius, the arc starts on the positive x axis, runs counterclockwise and ends at angle alpha;
disk(r): boundary on the circle of radius r, image inside the disk; quarter_annulus(r1, r2): 'left'/'right' at
radius r1/r2, 'bottom'/'top' on the x / y axis, image in the first-quadrant annulus; identity, unit_cube,
unit_square, line_segment: the documented affine maps, supports and spline spaces.

Admissible angles: circular_arc documents 0 < alpha <= 2 pi; circular_arc_3pt 0 < alpha < pi.  The 5-point and
7-point arcs document no range; they consist of 2 resp. 3 rational quadratic segments, each of which can only
span less than pi, so they are called with alpha < 2 pi resp. alpha <= 2 pi (circle() itself uses 2 pi).
"""
import itertools
import math

import numpy as np

from props.c07_funcs import exc_slug

CIRC_TOL = 1e-14        # | |p| - r | <= CIRC_TOL * r   (unchanged tree: <= 5e-16)
ANG_TOL = 1e-12

ALPHAS = [("pi/7", math.pi / 7), ("pi/2", math.pi / 2), ("pi-1e-9", math.pi - 1e-9), ("pi", math.pi),
          ("3pi/2", 1.5 * math.pi), ("2pi", 2 * math.pi)]
RADII = [1.0, 0.3, 7.0]
ARC_RANGE = {          # admissible alphas per constructor (see module docstring)
    "circular_arc": lambda a: 0.0 < a <= 2 * math.pi,
    "circular_arc_3pt": lambda a: 0.0 < a < math.pi,
    "circular_arc_5pt": lambda a: 0.0 < a < 2 * math.pi,
    "circular_arc_7pt": lambda a: 0.0 < a <= 2 * math.pi,
}


def ctor_cases():
    cs = []
    for fn in ("circular_arc", "circular_arc_3pt", "circular_arc_5pt", "circular_arc_7pt"):
        for name, a in ALPHAS:
            if not ARC_RANGE[fn](a):
                continue
            for r in RADII:
                cs.append({"part": "ctor", "what": "arc", "fn": fn, "alpha": a, "alpha_name": name, "r": r})
            cs.append({"part": "ctor", "what": "arc", "fn": fn, "alpha": a, "alpha_name": name, "r": None})   # default radius
    for r in RADII + [None]:
        cs.append({"part": "ctor", "what": "arc", "fn": "semicircle", "alpha": math.pi, "alpha_name": "pi", "r": r})
        cs.append({"part": "ctor", "what": "arc", "fn": "circle", "alpha": 2 * math.pi, "alpha_name": "2pi", "r": r})
        cs.append({"part": "ctor", "what": "disk", "r": r})
    for r1, r2 in [(None, None), (1.0, 2.0), (0.3, 1.0), (1.0, 7.0), (0.3, 7.0)]:
        cs.append({"part": "ctor", "what": "quarter_annulus", "r1": r1, "r2": r2})
    for ext in ([[-1.0, 2.0]], [[3.0, 4.0], [5.0, 6.0]], [[0.0, 1.0], [-2.5, 7.0], [1e-3, 0.5]]):
        for kvform in (False, True):
            cs.append({"part": "ctor", "what": "identity", "extents": ext, "kv": kvform})
    for dim in (1, 2, 3, 4):
        for n in (1, 2, 5):
            cs.append({"part": "ctor", "what": "unit_cube", "dim": dim, "n": n})
    for n in (None, 1, 3):
        cs.append({"part": "ctor", "what": "unit_square", "n": n})
    for x0, x1 in ((3, 5), ([1, 0], [4, 2]), ([0.5, -1.0, 2.0], [0.5, 3.0, -2.0])):
        for supp in (None, [1.0, 2.0], [-2.5, 7.0]):
            for n in (None, 1, 2, 5):
                cs.append({"part": "ctor", "what": "line_segment", "x0": x0, "x1": x1, "support": supp, "n": n})
    return cs


def _curve_points(kv):
    br = sorted(set(float(k) for k in np.asarray(kv.kv)))
    pts = set(br) | {(a + b) / 2 for a, b in zip(br[:-1], br[1:])}
    for b in br:
        for q in (np.nextafter(b, -np.inf), np.nextafter(b, np.inf)):
            if br[0] <= q <= br[-1]:
                pts.add(float(q))
    pts |= set(np.linspace(br[0], br[-1], 33).tolist())
    return np.array(sorted(pts))


def check_arc(case, P):
    from pyiga import geometry
    fn, alpha, r = case["fn"], case["alpha"], case["r"]
    f = getattr(geometry, fn)
    if fn in ("semicircle", "circle"):
        g = f() if r is None else f(r)
    else:
        g = f(alpha) if r is None else f(alpha, r)
    r = 1.0 if r is None else r
    key = "ctor:%s" % ("circular_arc*" if fn.startswith("circular_arc") else fn)
    if g.sdim != 1 or g.dim != 2:
        P.append((key + ":dims", "%s: sdim=%r dim=%r, expected a planar curve" % (fn, g.sdim, g.dim)))
        return 0
    t = _curve_points(g.kvs[0])
    calls = 0
    for route in ("grid_eval", "call"):
        p = np.asarray(g.grid_eval((t,)) if route == "grid_eval" else g(t), dtype=float)
        calls += 1
        if p.shape != (len(t), 2):
            P.append((key + ":shape", "%s values have shape %s" % (route, p.shape)))
            return calls
        rad = np.hypot(p[:, 0], p[:, 1])
        dev = np.abs(rad - r).max()
        if not dev <= CIRC_TOL * r:
            P.append((key + ":radius", "%s(alpha=%s, r=%g): | |p(t)| - r | = %.3g at t=%r (tolerance %.1e r)"
                      % (fn, case["alpha_name"], r, dev, float(t[np.argmax(np.abs(rad - r))]), CIRC_TOL)))
        if not (abs(p[0, 1]) <= CIRC_TOL * r and abs(p[0, 0] - r) <= CIRC_TOL * r):
            P.append((key + ":start", "%s(alpha=%s, r=%g) starts at %r, not on the positive x axis at (r, 0)" % (fn, case["alpha_name"], r, p[0].tolist())))
        end = r * np.array([math.cos(alpha), math.sin(alpha)])
        if not np.abs(p[-1] - end).max() <= 10 * CIRC_TOL * r:
            P.append((key + ":end", "%s(alpha=%s, r=%g) ends at %r, expected r (cos alpha, sin alpha) = %r"
                      % (fn, case["alpha_name"], r, p[-1].tolist(), end.tolist())))
        # counterclockwise, total angle alpha
        cross = p[:-1, 0] * p[1:, 1] - p[:-1, 1] * p[1:, 0]
        dot = (p[:-1] * p[1:]).sum(axis=1)
        if cross.min() < -CIRC_TOL * r * r:
            P.append((key + ":orientation", "%s(alpha=%s, r=%g) does not run counterclockwise" % (fn, case["alpha_name"], r)))
        swept = float(np.arctan2(cross, dot).sum())
        if abs(swept - alpha) > ANG_TOL:
            P.append((key + ":angle", "%s(alpha=%s, r=%g) sweeps the angle %r, expected %r" % (fn, case["alpha_name"], r, swept, alpha)))
        if fn == "semicircle" and p[:, 1].min() < -CIRC_TOL * r:
            P.append((key + ":halfplane", "semicircle leaves the upper half plane"))
    return calls


def _unit_axis():
    a = np.linspace(0.0, 1.0, 17).tolist()
    a += [float(np.nextafter(0.0, 1)), float(np.nextafter(1.0, 0)), float(np.nextafter(0.5, 0)), float(np.nextafter(0.5, 1)), 1 / 3, 2 / 3]
    return np.array(sorted(set(a)))


def check_disk(case, P):
    from pyiga import geometry
    r = case["r"]
    g = geometry.disk() if r is None else geometry.disk(r)
    r = 1.0 if r is None else r
    calls = 0
    X = _unit_axis()
    if (g.sdim, g.dim) != (2, 2) or tuple(map(tuple, g.support)) != ((0.0, 1.0), (0.0, 1.0)):
        P.append(("ctor:disk:dims", "sdim=%r dim=%r support=%r" % (g.sdim, g.dim, g.support)))
        return calls
    V = np.asarray(g.grid_eval((X, X)), dtype=float)
    calls += 1
    rad = np.hypot(V[..., 0], V[..., 1])
    if rad.max() > r * (1 + CIRC_TOL):
        P.append(("ctor:disk:inside", "disk(%g): image point at distance %r from the centre" % (r, float(rad.max()))))
    edges = {"bottom": rad[0, :], "top": rad[-1, :], "left": rad[:, 0], "right": rad[:, -1]}
    for name, e in edges.items():
        if np.abs(e - r).max() > CIRC_TOL * r:
            P.append(("ctor:disk:boundary-radius", "disk(%g): side %r of the parameter square is mapped to distance %r from the centre"
                      % (r, name, float(e[np.argmax(np.abs(e - r))]))))
        b = np.asarray(g.boundary(name).grid_eval((X,)), dtype=float)
        calls += 1
        br = np.hypot(b[:, 0], b[:, 1])
        if np.abs(br - r).max() > CIRC_TOL * r:
            P.append(("ctor:disk:boundary-radius", "disk(%g).boundary(%r) is at distance %r from the centre" % (r, name, float(br[np.argmax(np.abs(br - r))]))))
    # the four sides together run once around the circle (total swept angle 2 pi in absolute value)
    loop = np.concatenate((V[0, :], V[1:, -1], V[-1, -2::-1], V[-2::-1, 0]))
    cross = loop[:-1, 0] * loop[1:, 1] - loop[:-1, 1] * loop[1:, 0]
    dot = (loop[:-1] * loop[1:]).sum(axis=1)
    swept = float(np.arctan2(cross, dot).sum())
    if abs(abs(swept) - 2 * math.pi) > ANG_TOL:
        P.append(("ctor:disk:boundary-loop", "disk(%g): the boundary of the parameter square sweeps the angle %r, not +-2 pi" % (r, swept)))
    return calls


def check_quarter_annulus(case, P):
    from pyiga import geometry
    r1, r2 = case["r1"], case["r2"]
    g = geometry.quarter_annulus() if r1 is None else geometry.quarter_annulus(r1, r2)
    if r1 is None:
        r1, r2 = 1.0, 2.0
    X = _unit_axis()
    key = "ctor:quarter_annulus"
    if (g.sdim, g.dim) != (2, 2):
        P.append((key + ":dims", "sdim=%r dim=%r" % (g.sdim, g.dim)))
        return 0
    V = np.asarray(g.grid_eval((X, X)), dtype=float)        # V[iy, ix]
    rad = np.hypot(V[..., 0], V[..., 1])
    tol = CIRC_TOL * r2
    if np.abs(rad[:, 0] - r1).max() > CIRC_TOL * r1:
        P.append((key + ":inner-radius", "quarter_annulus(%g, %g): 'left' side (x low) at distance %r, expected r1" % (r1, r2, float(rad[:, 0].max()))))
    if np.abs(rad[:, -1] - r2).max() > CIRC_TOL * r2:
        P.append((key + ":outer-radius", "quarter_annulus(%g, %g): 'right' side (x high) at distance %r, expected r2" % (r1, r2, float(rad[:, -1].max()))))
    if np.abs(V[0, :, 1]).max() > tol or V[0, :, 0].min() < r1 - tol or V[0, :, 0].max() > r2 + tol:
        P.append((key + ":bottom", "quarter_annulus(%g, %g): 'bottom' side does not lie on the x axis between r1 and r2" % (r1, r2)))
    if np.abs(V[-1, :, 0]).max() > tol or V[-1, :, 1].min() < r1 - tol or V[-1, :, 1].max() > r2 + tol:
        P.append((key + ":top", "quarter_annulus(%g, %g): 'top' side does not lie on the y axis between r1 and r2" % (r1, r2)))
    if V.min() < -tol or rad.min() < r1 * (1 - CIRC_TOL) or rad.max() > r2 * (1 + CIRC_TOL):
        P.append((key + ":image", "quarter_annulus(%g, %g): image leaves the first-quadrant annulus" % (r1, r2)))
    calls = 1
    for name, rr in (("left", r1), ("right", r2)):
        b = np.asarray(g.boundary(name).grid_eval((X,)), dtype=float)
        calls += 1
        if np.abs(np.hypot(b[:, 0], b[:, 1]) - rr).max() > CIRC_TOL * rr:
            P.append((key + ":boundary-radius", "quarter_annulus(%g, %g).boundary(%r) is not at radius %g" % (r1, r2, name, rr)))
    return calls


def _box_points(ext):
    axes = [[lo, float(np.nextafter(lo, np.inf)), lo + 0.3 * (hi - lo), (lo + hi) / 2, float(np.nextafter(hi, -np.inf)), hi] for lo, hi in ext]
    return axes


def check_identity_like(g, ext, key, P, what):
    """g must be the identity on the box ext (kv order: last extent = x), supported exactly on the box"""
    d = len(ext)
    calls = 0
    if (g.sdim, g.dim) != (d, d):
        P.append((key + ":dims", "%s: sdim=%r dim=%r, expected %d" % (what, g.sdim, g.dim, d)))
        return calls
    supp = tuple(tuple(float(x) for x in s) for s in g.support)
    if supp != tuple(tuple(float(x) for x in e) for e in ext):
        P.append((key + ":support", "%s: support %r, expected %r" % (what, supp, ext)))
        return calls
    axes = _box_points(ext)
    V = np.asarray(g.grid_eval(tuple(np.array(a) for a in axes)), dtype=float)
    calls += 1
    G = np.meshgrid(*axes, indexing="ij")
    ref = np.stack([G[d - 1 - c] for c in range(d)], axis=-1)
    scale = max(1.0, max(abs(x) for e in ext for x in e))
    if V.shape != ref.shape or np.abs(V - ref).max() > CIRC_TOL * scale:
        P.append((key + ":map", "%s is not the identity: deviation %r" % (what, float(np.abs(V - ref).max()) if V.shape == ref.shape else V.shape)))
    for t in itertools.product((0, 2, 5), repeat=d):
        x = [axes[d - 1 - c][t[d - 1 - c]] for c in range(d)]
        v = np.asarray(g(*x), dtype=float)
        calls += 1
        if v.shape != (d,) or np.abs(v - np.array(x)).max() > CIRC_TOL * scale:
            P.append((key + ":map", "%s: f(*%r) = %r" % (what, x, v.tolist())))
            break
    return calls


def check_ctor(case):
    from pyiga import bspline, geometry
    P = []
    what = case["what"]
    try:
        if what == "arc":
            check_arc(case, P)
        elif what == "disk":
            check_disk(case, P)
        elif what == "quarter_annulus":
            check_quarter_annulus(case, P)
        elif what == "identity":
            ext = [tuple(e) for e in case["extents"]]
            arg = [bspline.make_knots(2 + k, e[0], e[1], 3 + k) if (case["kv"] and k % 2 == 0) else e for k, e in enumerate(ext)]
            check_identity_like(geometry.identity(arg), ext, "ctor:identity", P, "identity(%r)" % (arg,))
        elif what == "unit_cube":
            dim, n = case["dim"], case["n"]
            g = geometry.unit_cube(dim=dim, num_intervals=n) if (dim, n) != (3, 1) else geometry.unit_cube()
            check_identity_like(g, [(0.0, 1.0)] * dim, "ctor:unit_cube", P, "unit_cube(dim=%d, num_intervals=%d)" % (dim, n))
            if any(kv.p != 1 or kv.numspans != n for kv in g.kvs):
                P.append(("ctor:unit_cube:space", "unit_cube(dim=%d, num_intervals=%d): spans per direction %r" % (dim, n, [kv.numspans for kv in g.kvs])))
        elif what == "unit_square":
            n = case["n"]
            g = geometry.unit_square() if n is None else geometry.unit_square(n)
            check_identity_like(g, [(0.0, 1.0)] * 2, "ctor:unit_square", P, "unit_square(%r)" % (n,))
            if any(kv.numspans != (n or 1) for kv in g.kvs):
                P.append(("ctor:unit_square:space", "unit_square(%r): spans per direction %r" % (n, [kv.numspans for kv in g.kvs])))
        elif what == "line_segment":
            x0, x1, supp, n = case["x0"], case["x1"], case["support"], case["n"]
            kw = {}
            if supp is not None:
                kw["support"] = tuple(supp)
            if n is not None:
                kw["intervals"] = n
            a0 = x0 if np.isscalar(x0) else tuple(x0)
            a1 = x1 if np.isscalar(x1) else np.array(x1, dtype=float)
            g = geometry.line_segment(a0, a1, **kw)
            a, b = supp or (0.0, 1.0)
            v0, v1 = np.atleast_1d(np.array(x0, dtype=float)), np.atleast_1d(np.array(x1, dtype=float))
            key = "ctor:line_segment"
            if (g.sdim, g.dim) != (1, len(v0)):
                P.append((key + ":dims", "sdim=%r dim=%r" % (g.sdim, g.dim)))
            elif tuple(float(x) for x in g.support[0]) != (a, b):
                P.append((key + ":support", "support %r, expected %r" % (g.support, (a, b))))
            elif g.kvs[0].numdofs != (n or 1) + 1 or g.kvs[0].p != 1:
                P.append((key + ":space", "%d dofs of degree %d, expected %d linear" % (g.kvs[0].numdofs, g.kvs[0].p, (n or 1) + 1)))
            else:
                t = np.array(_box_points([(a, b)])[0] + [a + (b - a) * k / (n or 1) for k in range(1, (n or 1))])
                V = np.asarray(g.grid_eval((t,)), dtype=float)
                ref = v0 + ((t - a) / (b - a))[:, None] * (v1 - v0)
                if V.shape != ref.shape or np.abs(V - ref).max() > CIRC_TOL * max(1.0, np.abs(ref).max()):
                    P.append((key + ":map", "line_segment(%r, %r, %r) is not the affine map between the end points" % (x0, x1, kw)))
        else:
            raise ValueError(what)
    except Exception as e:
        import traceback
        if "/pyiga/" not in "".join(traceback.format_tb(e.__traceback__)):
            raise
        P.append(("ctor:%s:exception:%s" % (case.get("fn", what), exc_slug(e)), "%r raised %r" % (case, e)))
    seen, out = set(), []
    for k, m in P:
        if k not in seen:
            seen.add(k)
            out.append((k, m))
    return out
