"""C15 -- multi-level structured matrices behave as the sparse matrices they denote.

E2 (bounded-exhaustive shape enumeration).  Parts:

  ml     : one case = one tuple of per-level 0/1 patterns.  The real MLStructure (built by the documented
           from_kronecker / from_matrix / constructor routes) and MLMatrix are compared with the dense
           numpy.kron of the patterns: nonzero() (sequence = row-major order of the compact data layout),
           nonzero(lower_tri=True), nonzeros_for_rows/_columns (single rows, pairs, unsorted, empty),
           transpose, join, slice, reorder (level permutations), MLMatrix(data).asmatrix/dot/reorder on
           every unit vector with integer payloads (exact ==), make_mlmatrix(matrix=...).
  kvs    : MLStructure.from_kvs for pairs of knot vectors = pairs of B-splines with overlapping support.
  kronp  : utils.kron_partial = selected rows of the dense Kronecker product.
  index  : reorder / reindex_* / from_seq / to_seq / get_transpose_idx_for_bidx / BijectiveIndex are mutually
           inverse bijections over their full small domains.

Memory safety: MLMatrix.dot of a 2-/3-level matrix reaches ml_matvec_2d/3d, which write with bounds checks
off.  Every structure with 2 or 3 levels and M != N is therefore evaluated completely inside a forked child
process (check_case: one child per case; run: strided batches of cases per child, a child that dies is
charged to the case it was working on and a new child continues).  In addition the two kernels are entered
through a guard (module globals of pyiga.mlmatrix, restored afterwards) that compares the buffer lengths
with the matrix shape first and raises instead of letting the kernel write past the result buffer, so that
a child stays trustworthy after a failing case and the observation is deterministic.

A derived structure (transpose, slice, join, reorder) is required to denote the right pattern and to be
consistent with its own layout (S.bs / S.bidx); the order inside its level index lists is not documented
and not demanded.  Data semantics are checked where pyiga defines them (MLMatrix, MLMatrix.reorder).
"""
import gc
import itertools
import json
import os
import sys

import numpy as np

from mc import par
from mc.outcome import Outcome
from ref import mlref as R

ID = "C15"
LEVEL = "model_checking"

# sequential_bidx() (no docstring, used by the Reordered*Generator helpers) ravels with the row count and
# is therefore inconsistent with reindex_from_multilevel on rectangular blocks.  Not part of the documented
# API the property names; checked on square blocks only unless this is switched on.
CHECK_SEQBIDX_RECT = False

BATCHES_PER_WORKER = 3        # sandbox children per pool worker (strided batches of structures)

_CALLS = [0]          # implementation calls compared with the reference (per process)


def _called(n=1):
    _CALLS[0] += n


def _routine(L):
    return {1: "1d", 2: "2d", 3: "3d"}.get(L, "nd")


def _exc(prefix, e):
    return ("%s:exception:%s" % (prefix, type(e).__name__), "%s raised %r" % (prefix, e))


# ------------------------------------------------------------------------------------------------
# sandbox
# ------------------------------------------------------------------------------------------------

def sandbox(fn):
    """run fn() (returns something JSON-able) in a forked child; ("ok", result) | ("signal", n) | ("died", code)"""
    r, w = os.pipe()
    sys.stdout.flush()
    sys.stderr.flush()
    pid = os.fork()
    if pid == 0:
        code = 0
        try:
            os.close(r)
            blob = json.dumps(fn()).encode()
            while blob:
                n = os.write(w, blob)
                blob = blob[n:]
            os.close(w)
        except BaseException:
            import traceback
            traceback.print_exc()
            code = 3
        finally:
            os._exit(code)
    os.close(w)
    chunks = []
    while True:
        b = os.read(r, 1 << 16)
        if not b:
            break
        chunks.append(b)
    os.close(r)
    _, status = os.waitpid(pid, 0)
    if os.WIFSIGNALED(status):
        return ("signal", os.WTERMSIG(status))
    if os.WEXITSTATUS(status) != 0:
        return ("died", os.WEXITSTATUS(status))
    try:
        return ("ok", json.loads(b"".join(chunks).decode()))
    except ValueError:
        return ("died", -1)


# ------------------------------------------------------------------------------------------------
# structure checks
# ------------------------------------------------------------------------------------------------

def _bs_list(S):
    return [(int(b[0]), int(b[1])) for b in S.bs]


def _bidx_lists(S):
    return [[(int(a), int(b)) for a, b in np.asarray(bx).reshape(-1, 2).tolist()] for bx in S.bidx]


def attr_problems(S, bs, level_sets, ctx):
    """S must denote levels with block sizes bs and nonzero sets level_sets (order of bidx is free)"""
    probs = []
    try:
        if int(S.L) != len(bs) or _bs_list(S) != [tuple(b) for b in bs]:
            probs.append(("%s:bs" % ctx, "%s: L=%r bs=%r, expected %r" % (ctx, S.L, S.bs, bs)))
            return probs
        M, N = R.shape_of(bs)
        if tuple(int(x) for x in S.shape) != (M, N):
            probs.append(("%s:shape" % ctx, "%s: shape %r, expected %r" % (ctx, S.shape, (M, N))))
        bl = _bidx_lists(S)
        for k, (got, want) in enumerate(zip(bl, level_sets)):
            if len(got) != len(set(got)) or set(got) != set(want):
                probs.append(("%s:bidx" % ctx, "%s: level %d index list %r is not the nonzero set %r of the pattern"
                              % (ctx, k, got, sorted(want))))
    except Exception as e:
        probs.append(_exc("%s:attributes" % ctx, e))
    return probs


def _cmp_positions(I, J, I0, J0, key, what):
    I, J = np.asarray(I), np.asarray(J)
    if I.ndim != 1 or J.ndim != 1 or I.shape != J.shape:
        return [(key + ":malformed", "%s returned arrays of shapes %s, %s" % (what, I.shape, J.shape))]
    I, J = I.astype(np.int64), J.astype(np.int64)
    if len(I) != len(I0):
        return [(key + ":count", "%s returned %d positions, the Kronecker product has %d" % (what, len(I), len(I0)))]
    if np.array_equal(I, I0) and np.array_equal(J, J0):
        return []
    got = sorted(zip(I.tolist(), J.tolist()))
    want = sorted(zip(I0.tolist(), J0.tolist()))
    k = int(np.nonzero((I != I0) | (J != J0))[0][0])
    if got == want:
        return [(key + ":order", "%s: right set of positions but not in the order of the compact layout; "
                 "entry %d is (%d,%d), layout has (%d,%d)" % (what, k, I[k], J[k], I0[k], J0[k]))]
    return [(key + ":positions", "%s: entry %d is (%d,%d), the Kronecker product of the level patterns has (%d,%d) "
             "there; %d of %d entries differ" % (what, k, I[k], J[k], I0[k], J0[k],
                                                  int(np.count_nonzero((I != I0) | (J != J0))), len(I0)))]


def nonzero_problems(S, ctx, lower=True):
    """nonzero() / nonzero(lower_tri=True) of S against the layout defined by S.bs / S.bidx"""
    bs, bidx = _bs_list(S), _bidx_lists(S)
    L = len(bs)
    I0, J0 = R.layout_positions(bs, bidx)
    key = "nonzero:%s" % _routine(L)
    what = "%s nonzero() [L=%d bs=%s]" % (ctx, L, bs)
    try:
        _called()
        IJ = S.nonzero()
        I, J = IJ
    except Exception as e:
        return [_exc(key, e)]
    probs = _cmp_positions(I, J, I0, J0, key, what)
    if not probs:
        # the caller owns the returned arrays: shifting them (embedding the block into a larger matrix) must not
        # change what the structure reports afterwards
        try:
            I, J = np.asarray(I), np.asarray(J)
            if I.flags.writeable and J.flags.writeable and I.size:
                I += 7
                J += 11
                _called()
                I2, J2 = S.nonzero()
                pa = _cmp_positions(I2, J2, I0, J0, "nonzero:result-aliased", what + " after the arrays of an earlier call were modified in place")
                I -= 7
                J -= 11
                if pa:
                    return pa
        except Exception as e:
            return [_exc("nonzero:result-aliased", e)]
    if probs or not lower or L == 1:
        return probs          # L == 1: documented as not implemented (assert), not generated
    keep = J0 <= I0
    key = "nonzero_lower:%s" % _routine(L)
    what = "%s nonzero(lower_tri=True) [L=%d bs=%s]" % (ctx, L, bs)
    try:
        _called()
        I, J = S.nonzero(lower_tri=True)
    except Exception as e:
        return [_exc(key, e)]
    return _cmp_positions(I, J, I0[keep], J0[keep], key, what)


def index_lists(M, thorough_pairs):
    """duplicate-free row (column) lists: empty, every single index, every ordered pair (all of them up to
    M=9, a covering family beyond), unsorted lists"""
    out = [[]] + [[r] for r in range(M)]
    if M <= thorough_pairs:
        out += [[a, b] for a in range(M) for b in range(M) if a != b]
    else:
        seen = set()
        for a in range(M):
            for b in ((a + 1) % M, M - 1 - a, (a + M // 2) % M):
                if a != b and (a, b) not in seen:
                    seen.add((a, b))
                    out.append([a, b])
    if M >= 2:
        out.append(list(range(M - 1, -1, -1)))
        out.append(list(range(M)))
    if M >= 3:
        out.append([M - 1, 0, M // 2] if M // 2 not in (0, M - 1) else [M - 1, 0])
        out.append(list(range(1, M, 2)) + list(range(0, M, 2)))
    return out


def rows_problems(S, I0, J0, M, N, pairs_upto=9):
    probs = []
    pos = list(zip(I0.tolist(), J0.tolist()))
    by = {"rows": {}, "columns": {}}
    for (i, j) in pos:
        by["rows"].setdefault(i, []).append((i, j))
        by["columns"].setdefault(j, []).append((i, j))
    for which, n in (("rows", M), ("columns", N)):
        f = S.nonzeros_for_rows if which == "rows" else S.nonzeros_for_columns
        lists = index_lists(n, pairs_upto)
        for q, idx in enumerate(lists):
            want = sorted(p for r in idx for p in by[which].get(r, []))
            arg = np.array(idx, dtype=np.int64) if (q == len(lists) - 1 and idx) else idx
            try:
                _called()
                res = f(arg)
                I, J = res
                I, J = np.asarray(I), np.asarray(J)
                got = sorted(zip(I.astype(np.int64).tolist(), J.astype(np.int64).tolist()))
            except Exception as e:
                probs.append(_exc("nonzeros_for_%s" % which, e))
                return probs
            if I.shape != J.shape or got != want:
                probs.append(("nonzeros_for_%s:set" % which,
                              "nonzeros_for_%s(%s) returned positions %s, the nonzeros of the Kronecker pattern in "
                              "these %s are %s" % (which, idx, got[:12], which, want[:12])))
                return probs
        # renumber_rows: third array indexes into the given list
    for idx in ([], list(range(M - 1, -1, -1)), [M - 1, 0][:M]):
        try:
            _called()
            I, J, K = S.nonzeros_for_rows(idx, renumber_rows=True)
            I, J, K = (np.asarray(a).astype(np.int64) for a in (I, J, K))
            want = sorted(p for r in idx for p in by["rows"].get(r, []))
            ok = (I.shape == J.shape == K.shape and sorted(zip(I.tolist(), J.tolist())) == want
                  and all(0 <= k < len(idx) and idx[k] == i for k, i in zip(K.tolist(), I.tolist())))
        except Exception as e:
            probs.append(_exc("nonzeros_for_rows:renumber", e))
            return probs
        if not ok:
            probs.append(("nonzeros_for_rows:renumber",
                          "nonzeros_for_rows(%s, renumber_rows=True) returned I=%s J=%s idx=%s" % (idx, I[:12], J[:12], K[:12])))
            return probs
    return probs


def perms_for(L, depth):
    if L <= 4:
        return [list(p) for p in itertools.permutations(range(L))]
    out = [list(range(L)), list(range(L - 1, -1, -1)), list(range(1, L)) + [0], [L - 1] + list(range(L - 1))]
    for a in range(L - 1):
        p = list(range(L))
        p[a], p[a + 1] = p[a + 1], p[a]
        out.append(p)
    p = list(range(L))
    p[0], p[L - 1] = p[L - 1], p[0]
    out.append(p)
    return out


def _level_matrix(bs_k, bidx_k, vals):
    A = np.zeros(bs_k, float)
    for (i, j), v in zip(bidx_k, vals):
        A[i, j] = v
    return A


def _dot_problems(X, A, ctx):
    """every unit vector; returns problems (JSON-able).  Stops at the first failure."""
    M, N = A.shape
    kept = []
    for j in range(N):
        e = np.zeros(N)
        e[j] = 1.0
        try:
            _called()
            y = X.dot(e)
        except Exception as ex:
            return [["exc", type(ex).__name__, str(ex)[:160], j]]
        y = np.asarray(y)
        if y.shape != (M,):
            return [["shape", list(y.shape), j]]
        if not np.array_equal(y, A[:, j]):
            return [["values", y.tolist()[:16], A[:, j].tolist()[:16], j]]
        kept.append(y)
    # the results of earlier products, still held by the caller, must not be changed by later products
    for j, y in enumerate(kept):
        if not np.array_equal(y, A[:, j]):
            return [["aliased", y.tolist()[:16], A[:, j].tolist()[:16], j]]
    return []


class KernelGuard(Exception):
    """raised by the harness instead of entering a bounds-check-free kernel with buffers that are too short"""


def _guarded(real):
    def kernel(X, bidx, block_sizes, x, y):
        bsz = np.asarray(block_sizes).reshape(-1, 2)
        M, N = int(np.prod(bsz[:, 0])), int(np.prod(bsz[:, 1]))
        if len(y) < M or len(x) < N:
            raise KernelGuard("kernel entered with a result buffer of length %d and an input of length %d for a %dx%d "
                              "matrix (out-of-bounds access prevented by the harness)" % (len(y), len(x), M, N))
        for k, bx in enumerate(bidx):
            bx = np.asarray(bx)
            if bx.size and (int(bx[:, 0].max()) >= bsz[k, 0] or int(bx[:, 1].max()) >= bsz[k, 1]):
                raise KernelGuard("kernel entered with level indices outside the block size")
        return real(X, bidx, block_sizes, x, y)
    kernel._c15_guard = True
    return kernel


def dot_problems(jobs, L):
    """jobs: [(ctx, X, A)] -- dot on every unit vector for each job; stops at the first failing job.
    The 2-/3-level kernels write with bounds checks off: they are entered through a guard that verifies the
    buffer lengths first, and the rectangular cases are evaluated inside a sandbox child (see check_case)."""
    import pyiga.mlmatrix as mlm
    M, N = jobs[0][2].shape
    rect = (M != N) and L in (2, 3)
    saved = (mlm.ml_matvec_2d, mlm.ml_matvec_3d)
    r = None
    try:
        mlm.ml_matvec_2d, mlm.ml_matvec_3d = _guarded(saved[0]), _guarded(saved[1])
        for job in jobs:
            (ctx, X, A) = job[:3]
            if len(job) > 3:
                try:
                    job[3]()              # an operation on the object between two products (e.g. assigning new data)
                except Exception as ex:
                    r = [["exc", type(ex).__name__, str(ex)[:160], -1]]
                    what = "%s (preparing the object)" % ctx
                    r = r[0]
                    break
            r = _dot_problems(X, A, ctx)
            if r:
                what = "%s MLMatrix.dot(e_j) on the %dx%d matrix (L=%d)" % (ctx, M, N, L)
                r = r[0]
                break
    finally:
        mlm.ml_matvec_2d, mlm.ml_matvec_3d = saved
    if not r:
        return []
    if r[0] == "exc":
        if rect and (r[1] == "KernelGuard" or (r[1] == "ValueError" and "reshape" in r[2])):
            return [("dot:rectangular:result-size", "%s: %s: %s" % (what, r[1], r[2]))]
        return [("dot:%s:exception:%s" % (_routine(L), r[1]), "%s (j=%d) raised %s: %s" % (what, r[3], r[1], r[2]))]
    if r[0] == "shape":
        return [("dot:rectangular:result-size" if rect else "dot:%s:shape" % _routine(L),
                 "%s returned shape %s" % (what, r[1]))]
    if r[0] == "aliased":
        return [("dot:%s:aliased-result" % _routine(L), "%s: the result of product j=%d, kept by the caller, reads %s after later "
                 "products with the same object (column of the dense matrix: %s)" % (what, r[3], r[1], r[2]))]
    return [("dot:%s:values" % _routine(L), "%s: j=%d gives %s, column of the dense matrix is %s" % (what, r[3], r[1], r[2]))]


def _dense(B):
    return np.asarray(B.toarray() if hasattr(B, "toarray") else B, dtype=float)


def matrix_problems(S, seed, depth, ctx, perms):
    from pyiga.mlmatrix import MLMatrix
    import scipy.sparse
    probs = []
    bs, bidx = _bs_list(S), _bidx_lists(S)
    L = len(bs)
    M, N = R.shape_of(bs)
    ds = tuple(len(b) for b in bidx)
    nnz = int(np.prod(ds))
    rt = _routine(L)
    data = (np.arange(nnz) + 1.0).reshape(ds)
    A = R.dense_from_data(bs, bidx, data)
    # rank-one payload: the dense Kronecker definition itself
    vecs = [R.level_data(len(b), k, seed) for k, b in enumerate(bidx)]
    mats = [_level_matrix(bs[k], bidx[k], vecs[k]) for k in range(L)]
    data1 = R.outer_all(vecs)
    K1 = R.kron_all(mats)
    try:
        _called(2)
        X = MLMatrix(structure=S, data=data)
        X1 = S.make_mlmatrix(data=data1)
        if tuple(int(x) for x in X.shape) != (M, N) or int(X.nnz) != nnz:
            probs.append(("mlmatrix:shape", "%s MLMatrix shape %r nnz %r, expected %r, %d" % (ctx, X.shape, X.nnz, (M, N), nnz)))
            return probs
    except Exception as e:
        return [_exc("mlmatrix:construct", e)]
    # asmatrix
    fmts = [None, "csc", "coo"] if depth == "full" else [None]
    for fmt in fmts:
        try:
            _called(2)
            B = X.asmatrix() if fmt is None else X.asmatrix(format=fmt)
            B1 = X1.asmatrix() if fmt is None else X1.asmatrix(format=fmt)
            Bd, B1d = _dense(B), _dense(B1)
            okfmt = fmt is None or B.format == fmt
        except Exception as e:
            return [_exc("asmatrix:%s" % rt, e)]
        if Bd.shape != (M, N) or not np.array_equal(Bd, A):
            return [("asmatrix:%s:entries" % rt, "%s asmatrix(%s) of data=1..%d differs from the dense matrix with data entry "
                     "s at its layout position (first differing flat index %s)"
                     % (ctx, fmt or "", nnz, np.flatnonzero(Bd.ravel() != A.ravel())[:3].tolist() if Bd.shape == A.shape else Bd.shape))]
        if not np.array_equal(B1d, K1):
            return [("asmatrix:%s:kron" % rt, "%s asmatrix() of a rank-one data tensor differs from numpy.kron of the level matrices" % ctx)]
        if not okfmt:
            probs.append(("asmatrix:format", "asmatrix(format=%r) returned format %r" % (fmt, B.format)))
    jobs = [(ctx, X, A)]          # dot on unit vectors, evaluated at the end (one sandbox per case)
    # make_mlmatrix(matrix=...)
    for kind in ("dense", "csr"):
        try:
            _called()
            Y = S.make_mlmatrix(matrix=A if kind == "dense" else scipy.sparse.csr_matrix(A))
            Yd = np.asarray(Y.data, dtype=float)
            Ym = _dense(Y.asmatrix())
        except Exception as e:
            probs.append(_exc("make_mlmatrix:matrix:%s" % kind, e))
            break
        if Yd.shape != ds or not np.array_equal(Yd, data):
            probs.append(("make_mlmatrix:matrix:data", "%s make_mlmatrix(matrix=<%s>) stores data %s, the compact layout of the "
                          "matrix is 1..%d" % (ctx, kind, Yd.ravel()[:12].tolist(), nnz)))
            break
        if not np.array_equal(Ym, A):
            probs.append(("make_mlmatrix:matrix:roundtrip", "%s make_mlmatrix(matrix=A).asmatrix() != A" % ctx))
            break
    # reorder
    for axes in perms:
        if axes == list(range(L)) and depth != "full":
            continue
        want = R.reorder_dense(A, bs, axes)
        want1 = R.kron_all([mats[a] for a in axes])
        try:
            _called(2)
            Xr = X.reorder(tuple(axes))
            X1r = X1.reorder(tuple(axes))
            Sr = Xr.structure
        except Exception as e:
            probs.append(_exc("mlmatrix:reorder", e))
            break
        pa = attr_problems(Sr, [bs[a] for a in axes], [bidx[a] for a in axes], "mlmatrix:reorder")
        if pa:
            probs += pa
            break
        pn = nonzero_problems(Sr, "%s reorder(%s)" % (ctx, axes), lower=False)
        if pn:
            probs += pn
            break
        try:
            _called(2)
            Bd, B1d = _dense(Xr.asmatrix()), _dense(X1r.asmatrix())
        except Exception as e:
            probs.append(_exc("asmatrix:%s" % rt, e))
            break
        if not np.array_equal(Bd, want) or not np.array_equal(B1d, want1):
            probs.append(("mlmatrix:reorder:entries", "%s MLMatrix.reorder(%s).asmatrix() differs from the matrix with "
                          "permuted Kronecker levels" % (ctx, axes)))
            break
        if depth == "full" and L <= 3 and axes != list(range(L)):
            jobs.append(("%s reorder(%s)" % (ctx, axes), Xr, want))
    # the same object after its data tensor was replaced: products and asmatrix() follow the new data
    data2 = 2.0 * data + 1.0
    A2 = R.dense_from_data(bs, bidx, data2)

    def replace():
        X.data = data2.copy()
    jobs.append(("%s after assigning X.data" % ctx, X, A2, replace))
    probs += dot_problems(jobs, L)
    if not probs:
        try:
            _called()
            if not np.array_equal(_dense(X.asmatrix()), A2):
                probs.append(("mlmatrix:data-replaced:asmatrix", "%s asmatrix() after assigning X.data does not show the new data" % ctx))
        except Exception as e:
            probs.append(_exc("asmatrix:%s" % rt, e))
    return probs


def structure_problems(S, bs, level_sets, seed, depth, ctx="S"):
    """all checks for one structure that is claimed to denote kron of levels (bs, level_sets)"""
    from pyiga.mlmatrix import MLStructure
    import pyiga.mlmatrix as mlm
    L = len(bs)
    M, N = R.shape_of(bs)
    probs = attr_problems(S, bs, level_sets, "%s:attributes" % ctx if ctx != "S" else "construct")
    if probs:
        return probs
    bidx = _bidx_lists(S)
    probs = nonzero_problems(S, ctx)
    if probs:
        return probs                  # everything below builds on nonzero()
    I0, J0 = R.layout_positions(bs, bidx)
    pairs_upto = 9 if depth == "full" else 4
    probs += rows_problems(S, I0, J0, M, N, pairs_upto)
    # transpose
    try:
        _called(2)
        T = S.transpose()
        TT = T.transpose()
    except Exception as e:
        return probs + [_exc("transpose", e)]
    tb = [(n, m) for (m, n) in bs]
    pt = attr_problems(T, tb, [[(j, i) for (i, j) in b] for b in bidx], "transpose")
    # (the order inside the level index lists of a derived structure is not documented: a derived structure is
    # required to denote the right pattern and to be consistent with its own layout, not to keep the order)
    if not pt:
        pt = attr_problems(TT, bs, bidx, "transpose:twice")
    if not pt:
        pt = nonzero_problems(T, ctx + ".transpose()")
        if not pt:
            try:
                _called()
                It, Jt = T.nonzero()
                got = sorted(zip(np.asarray(It).astype(np.int64).tolist(), np.asarray(Jt).astype(np.int64).tolist()))
                if got != sorted(zip(J0.tolist(), I0.tolist())):
                    pt = [("transpose:positions", "transpose().nonzero() is not the set of nonzero() with rows and columns swapped")]
            except Exception as e:
                pt = [_exc("transpose:nonzero", e)]
        if not pt and depth == "full":
            pt = rows_problems(T, J0, I0, N, M, 4)
    probs += pt
    # direct constructor with explicit index arrays
    try:
        _called(2)
        S2 = MLStructure(tuple(bs), tuple(np.array(b, dtype=np.uint32).reshape(-1, 2) for b in bidx))
        I2, J2 = S2.nonzero()
        if not (np.array_equal(np.asarray(I2).astype(np.int64), I0) and np.array_equal(np.asarray(J2).astype(np.int64), J0)) \
                or tuple(int(x) for x in S2.shape) != (M, N):
            probs.append(("constructor:nonzero", "MLStructure(bs, bidx).nonzero() differs from the from_kronecker structure"))
    except Exception as e:
        probs.append(_exc("constructor", e))
    # slice / join
    try:
        for k in range(L):
            _called()
            Sk = S.slice(k)
            p = attr_problems(Sk, [bs[k]], [bidx[k]], "slice")
            if not p and depth == "full":
                p = nonzero_problems(Sk, "%s.slice(%d)" % (ctx, k))
            probs += p
        spans = [(a, b) for a in range(L) for b in range(a + 1, L + 1)] if (L <= 3 or depth == "full") else \
                [(0, b) for b in range(1, L)] + [(a, L) for a in range(1, L)]
        for (a, b) in spans:
            _called()
            Sab = S.slice(a, b)
            p = attr_problems(Sab, bs[a:b], bidx[a:b], "slice")
            if not p and (a, b) != (0, L) and b - a > 1:
                p = nonzero_problems(Sab, "%s.slice(%d,%d)" % (ctx, a, b))
            probs += p
        for k in range(1, L):
            _called()
            Sj = S.slice(0, k).join(S.slice(k, L))
            p = attr_problems(Sj, bs, bidx, "join")
            if not p:
                p = nonzero_problems(Sj, "%s.slice(0,%d).join(slice(%d,%d))" % (ctx, k, k, L), lower=False)
            probs += p
    except Exception as e:
        probs.append(_exc("slice-join", e))
    # reorder of the structure
    perms = perms_for(L, depth)
    for axes in perms:
        try:
            _called()
            Sr = S.reorder(tuple(axes))
        except Exception as e:
            probs.append(_exc("reorder", e))
            break
        p = attr_problems(Sr, [bs[a] for a in axes], [bidx[a] for a in axes], "reorder")
        if not p:
            p = nonzero_problems(Sr, "%s.reorder(%s)" % (ctx, axes))
        if p:
            probs += p
            break
    # sequential_bidx composed with reindex_from_multilevel = nonzero positions
    square = all(m == n for m, n in bs)
    if depth == "full" and L <= 3 and (square or CHECK_SEQBIDX_RECT):
        try:
            _called()
            sq = [np.asarray(s).astype(np.int64).tolist() for s in S.sequential_bidx()]
            bsa = np.array(bs, dtype=np.int64)
            got = [tuple(int(x) for x in mlm.reindex_from_multilevel([sq[k][sk] for k, sk in enumerate(s)], bsa))
                   for s in itertools.product(*[range(len(b)) for b in bidx])]
            _called(len(got))
            if got != list(zip(I0.tolist(), J0.tolist())):
                probs.append(("sequential_bidx:positions", "reindex_from_multilevel of sequential_bidx() entries is not the "
                              "position list of nonzero(): %s vs %s" % (got[:6], list(zip(I0.tolist(), J0.tolist()))[:6])))
        except Exception as e:
            probs.append(_exc("sequential_bidx", e))
    # matrices
    probs += matrix_problems(S, seed, depth, ctx, perms)
    return probs


def ml_problems(case):
    from pyiga.mlmatrix import MLStructure
    levels = [np.array(P, dtype=int) for P in case["levels"]]
    bs = [tuple(int(x) for x in P.shape) for P in levels]
    sets = [R.row_major_bidx(P) for P in levels]
    depth = case.get("depth", "full")
    seed = int(case.get("seed", 0))
    # harness self-check: the layout reference denotes numpy.kron of the patterns
    I0, J0 = R.layout_positions(bs, sets)
    K = R.kron_all(levels)
    Z = np.zeros_like(K)
    Z[I0, J0] = 1
    if not np.array_equal(Z, (K != 0).astype(K.dtype)) or len(I0) != int(np.count_nonzero(K)):
        raise AssertionError("harness: reference layout does not denote numpy.kron of the patterns")
    if len(I0) <= 64:
        Is, Js = R.layout_positions_slow(bs, sets)
        if not (np.array_equal(Is, I0) and np.array_equal(Js, J0)):
            raise AssertionError("harness: layout_positions disagrees with its definition")
    ctor = case.get("ctor", "from_kronecker")
    try:
        _called()
        if ctor == "from_kronecker":
            S = MLStructure.from_kronecker(tuple(levels))
        elif ctor == "from_kronecker_sparse":
            import scipy.sparse
            S = MLStructure.from_kronecker(tuple(scipy.sparse.csr_matrix(P.astype(float)) for P in levels))
        elif ctor == "multi_banded":
            S = MLStructure.multi_banded(tuple(case["sizes"]), tuple(case["bw"]))
        elif ctor == "dense":
            S = MLStructure.dense(tuple(case["shape"]))
        else:
            raise ValueError(ctor)
    except Exception as e:
        return [_exc(ctor, e)]
    return structure_problems(S, bs, sets, seed, depth)


# ------------------------------------------------------------------------------------------------
# from_kvs
# ------------------------------------------------------------------------------------------------

def _kv(spec):
    return R.knots(spec["p"], spec["breaks"], spec["mults"])


def kvs_problems(case):
    from pyiga import bspline
    from pyiga.mlmatrix import MLStructure
    rows, cols = case["rows"], case["cols"]          # lists of knot-vector specs, one per direction
    kr = [_kv(s) for s in rows]
    kc = [_kv(s) for s in cols]
    pats = [R.overlap_pattern(a, sr["p"], b, sc["p"]) for a, sr, b, sc in zip(kr, rows, kc, cols)]
    same = all(sorted(set(a)) == sorted(set(b)) for a, b in zip(kr, kc))
    nested = all(set(a) <= set(b) or set(b) <= set(a) for a, b in zip(kr, kc))
    tag = "same-mesh" if same else "different-mesh"
    desc = "rows %s cols %s (%s%s)" % ([(s["p"], k) for s, k in zip(rows, kr)], [(s["p"], k) for s, k in zip(cols, kc)],
                                        tag, ", nested" if nested and not same else "")
    try:
        _called()
        kvs1 = tuple(bspline.KnotVector(np.array(k, dtype=float), s["p"]) for k, s in zip(kr, rows))
        kvs0 = tuple(bspline.KnotVector(np.array(k, dtype=float), s["p"]) for k, s in zip(kc, cols))
        S = MLStructure.from_kvs(kvs0, kvs1)         # columns = kvs0 (trial), rows = kvs1 (test)
        bs = _bs_list(S)
        bl = _bidx_lists(S)
    except Exception as e:
        return [_exc("from_kvs:%s" % tag, e)]
    want_bs = [tuple(int(x) for x in P.shape) for P in pats]
    if bs != want_bs:
        return [("from_kvs:bs", "from_kvs %s: block sizes %s, the spaces have %s functions" % (desc, bs, want_bs))]
    for k, P in enumerate(pats):
        want = R.row_major_bidx(P)
        if len(bl[k]) != len(set(bl[k])) or set(bl[k]) != set(want):
            miss = sorted(set(want) - set(bl[k]))
            extra = sorted(set(bl[k]) - set(want))
            return [("from_kvs:pattern:%s" % tag,
                     "from_kvs %s: direction %d: pairs with overlapping support that are missing %s, pairs listed without "
                     "overlap %s" % (desc, k, miss[:8], extra[:8]))]
    try:
        _called()
        I, J = S.nonzero()
        K = R.kron_all(pats)
        got = sorted(zip(np.asarray(I).astype(np.int64).tolist(), np.asarray(J).astype(np.int64).tolist()))
        I0, J0 = np.nonzero(K)
        if got != sorted(zip(I0.tolist(), J0.tolist())):
            return [("from_kvs:nonzero", "from_kvs %s: nonzero() is not the Kronecker product of the overlap patterns" % desc)]
    except Exception as e:
        return [_exc("from_kvs:nonzero", e)]
    return []


# ------------------------------------------------------------------------------------------------
# kron_partial
# ------------------------------------------------------------------------------------------------

def kronp_problems(case):
    import scipy.sparse
    from pyiga import utils
    levels = [np.array(P, dtype=int) for P in case["levels"]]
    seed = int(case.get("seed", 0))
    mats = []
    for k, P in enumerate(levels):
        b = R.row_major_bidx(P)
        mats.append(_level_matrix(P.shape, b, R.level_data(len(b), k, seed)))
    K = R.kron_all(mats)
    M, N = K.shape
    As = tuple(scipy.sparse.csr_matrix(A) for A in mats)
    lists = index_lists(M, 6)
    if M <= 6:
        lists += [list(c) for r in range(3, M + 1) for c in itertools.combinations(range(M), r)]
        if M <= 4:
            lists += [list(p) for r in range(3, M + 1) for p in itertools.permutations(range(M), r)]
    seen, uniq = set(), []
    for l in lists:
        if tuple(l) not in seen:
            seen.add(tuple(l))
            uniq.append(l)
    for rows in uniq:
        for restrict in (False, True):
            if restrict:
                want = K[rows, :] if rows else np.zeros((0, N))
            else:
                want = np.zeros_like(K)
                want[rows, :] = K[rows, :]
            try:
                _called()
                X = utils.kron_partial(As, rows, restrict=restrict)
                Xd = _dense(X)
            except Exception as e:
                return [_exc("kron_partial", e)]
            if Xd.shape != want.shape:
                return [("kron_partial:shape", "kron_partial(rows=%s, restrict=%s) has shape %s, expected %s"
                         % (rows, restrict, Xd.shape, want.shape))]
            if not np.array_equal(Xd, want):
                return [("kron_partial:entries:restrict" if restrict else "kron_partial:entries",
                         "kron_partial(rows=%s, restrict=%s) differs from the selected rows of numpy.kron (levels %s)"
                         % (rows, restrict, [P.tolist() for P in levels]))]
    return []


# ------------------------------------------------------------------------------------------------
# index maps
# ------------------------------------------------------------------------------------------------

def index_problems(case):
    import pyiga.mlmatrix as mlm
    from pyiga import utils
    kind = case["kind"]
    if kind == "seq":
        dims = tuple(case["dims"])
        n = int(np.prod(dims))
        try:
            seen = set()
            for i in range(n):
                _called(2)
                I = mlm.from_seq(i, dims)
                if [int(x) for x in I] != [int(x) for x in np.unravel_index(i, dims)]:
                    return [("from_seq:value", "from_seq(%d, %s) = %s, np.unravel_index gives %s" % (i, dims, list(I), np.unravel_index(i, dims)))]
                if int(mlm.to_seq(I, dims)) != i:
                    return [("to_seq:inverse", "to_seq(from_seq(%d, %s)) = %s" % (i, dims, mlm.to_seq(I, dims)))]
                seen.add(tuple(int(x) for x in I))
            if len(seen) != n:
                return [("from_seq:injective", "from_seq(., %s) is not injective" % (dims,))]
            for I in itertools.product(*[range(d) for d in dims]):
                _called(2)
                i = mlm.to_seq(I, dims)
                if int(i) != int(np.ravel_multi_index(I, dims)) or [int(x) for x in mlm.from_seq(i, dims)] != list(I):
                    return [("to_seq:value", "to_seq(%s, %s) = %s" % (I, dims, i))]
        except Exception as e:
            return [_exc("seq", e)]
        return []
    if kind == "multilevel":
        bs = np.array(case["bs"], dtype=np.int64)
        L = bs.shape[0]
        M, N = int(np.prod(bs[:, 0])), int(np.prod(bs[:, 1]))
        try:
            image = set()
            for i in range(M):
                for j in range(N):
                    _called(2)
                    mi = mlm.reindex_to_multilevel(i, j, bs)
                    mi = tuple(int(x) for x in mi)
                    I = np.unravel_index(i, bs[:, 0])
                    J = np.unravel_index(j, bs[:, 1])
                    want = tuple(int(I[k]) * int(bs[k, 1]) + int(J[k]) for k in range(L))
                    if mi != want:
                        return [("reindex_to_multilevel:value", "reindex_to_multilevel(%d,%d,%s) = %s, expected %s (row-major "
                                 "position inside each block)" % (i, j, bs.tolist(), mi, want))]
                    back = tuple(int(x) for x in mlm.reindex_from_multilevel(mi, bs))
                    if L == 2:
                        two = tuple(int(x) for x in mlm.reindex_from_reordered(mi[0], mi[1], int(bs[0, 0]), int(bs[0, 1]),
                                                                               int(bs[1, 0]), int(bs[1, 1])))
                        if two != back:
                            return [("reindex_from_multilevel:two-level", "reindex_from_multilevel(%s, %s) = %s but "
                                     "reindex_from_reordered gives %s" % (mi, bs.tolist(), back, two))]
                    if back != (i, j):
                        return [("reindex_from_multilevel:inverse", "reindex_from_multilevel(reindex_to_multilevel(%d,%d)) = %s for bs=%s"
                                 % (i, j, back, bs.tolist()))]
                    image.add(mi)
            dom = list(itertools.product(*[range(int(bs[k, 0] * bs[k, 1])) for k in range(L)]))
            if image != set(dom):
                return [("reindex_to_multilevel:bijection", "reindex_to_multilevel is not onto the multi-indices for bs=%s" % bs.tolist())]
            for mi in dom:
                _called(2)
                ij = tuple(int(x) for x in mlm.reindex_from_multilevel(list(mi), bs))
                if not (0 <= ij[0] < M and 0 <= ij[1] < N) or tuple(int(x) for x in mlm.reindex_to_multilevel(ij[0], ij[1], bs)) != mi:
                    return [("reindex_to_multilevel:inverse", "reindex_to_multilevel(reindex_from_multilevel(%s)) != identity for bs=%s"
                             % (mi, bs.tolist()))]
        except Exception as e:
            return [_exc("reindex_multilevel", e)]
        return []
    if kind == "reordered":
        m1, n1, m2, n2 = case["dims"]
        X = np.arange(1.0, m1 * m2 * n1 * n2 + 1).reshape(m1 * m2, n1 * n2)
        try:
            _called()
            Y = np.asarray(mlm.reorder(X, m1, n1))
            if Y.shape != (m1 * n1, m2 * n2) or not np.array_equal(Y, R.vlp_reorder(X, m1, n1)):
                return [("reorder:value", "reorder(X, %d, %d) of a %s matrix is not the block vectorisation" % (m1, n1, X.shape))]
            A = np.arange(1.0, m1 * n1 + 1).reshape(m1, n1)
            B = np.arange(2.0, m2 * n2 + 2).reshape(m2, n2)
            _called()
            if not np.array_equal(np.asarray(mlm.reorder(np.kron(A, B), m1, n1)), np.outer(A.ravel(), B.ravel())):
                return [("reorder:kron", "reorder(kron(A,B)) != outer(vec A, vec B) for blocks %s" % (case["dims"],))]
            image = set()
            for i in range(m1 * n1):
                for j in range(m2 * n2):
                    _called()
                    ii, jj = mlm.reindex_from_reordered(i, j, m1, n1, m2, n2)
                    ii, jj = int(ii), int(jj)
                    if not (0 <= ii < m1 * m2 and 0 <= jj < n1 * n2) or Y[i, j] != X[ii, jj]:
                        return [("reindex_from_reordered:value", "reindex_from_reordered(%d,%d,%d,%d,%d,%d) = %s does not address "
                                 "the entry reorder() put there" % (i, j, m1, n1, m2, n2, (ii, jj)))]
                    image.add((ii, jj))
            if len(image) != X.size:
                return [("reindex_from_reordered:bijection", "reindex_from_reordered is not a bijection for %s" % (case["dims"],))]
        except Exception as e:
            return [_exc("reordered", e)]
        return []
    if kind == "transpose_idx":
        P = np.array(case["pattern"], dtype=int)
        b = R.row_major_bidx(P)
        if case.get("order") == "reversed":
            b = b[::-1]
        elif case.get("order") == "colmajor":
            b = sorted(b, key=lambda t: (t[1], t[0]))
        arr = np.array(b, dtype=np.uint32).reshape(-1, 2)
        try:
            _called()
            t = np.asarray(mlm.get_transpose_idx_for_bidx(arr)).astype(np.int64).tolist()
        except Exception as e:
            return [_exc("get_transpose_idx_for_bidx", e)]
        if sorted(t) != list(range(len(b))):
            return [("get_transpose_idx_for_bidx:bijection", "get_transpose_idx_for_bidx(%s) = %s is not a permutation" % (b, t))]
        for k, tk in enumerate(t):
            if b[tk] != (b[k][1], b[k][0]) or t[tk] != k:
                return [("get_transpose_idx_for_bidx:value", "get_transpose_idx_for_bidx(%s) = %s: entry %d does not address "
                         "the transposed position" % (b, t, k))]
        return []
    if kind == "bijective":
        vals = [tuple(v) for v in case["values"]]
        try:
            _called()
            B = utils.BijectiveIndex(list(vals))
            if len(B) != len(vals):
                return [("BijectiveIndex:len", "len = %d for %d values" % (len(B), len(vals)))]
            for i, v in enumerate(vals):
                _called(2)
                if B[i] != v or B.index(v) != i or B[B.index(v)] != v or B.index(B[i]) != i:
                    return [("BijectiveIndex:inverse", "BijectiveIndex(%s): [%d]=%s index(%s)=%s" % (vals, i, B[i], v, B.index(v)))]
        except Exception as e:
            return [_exc("BijectiveIndex", e)]
        return []
    raise ValueError(kind)


# ------------------------------------------------------------------------------------------------
# check_case
# ------------------------------------------------------------------------------------------------

def needs_sandbox(case):
    """2-/3-level matrices with M != N: MLMatrix.dot reaches ml_matvec_2d/3d, which write with bounds checks off"""
    if case["part"] != "ml":
        return False
    bs = [(len(P), len(P[0])) for P in case["levels"]]
    M, N = R.shape_of(bs)
    return len(bs) in (2, 3) and M != N


def _crash_problem(case, st, info):
    L = len(case["levels"])
    return [("ml:%s:crash:%s" % (_routine(L), st),
             "the child process evaluating this structure ended abnormally (%s %s)" % (st, info))]


def _check_inproc(case):
    part = case["part"]
    if part == "ml":
        return ml_problems(case)
    if part == "kvs":
        return kvs_problems(case)
    if part == "kronp":
        return kronp_problems(case)
    if part == "index":
        return index_problems(case)
    raise ValueError(part)


def _check_counted(case):
    c0 = _CALLS[0]
    probs = _check_inproc(case)
    return [[list(p) for p in probs], _CALLS[0] - c0]


def check_case(case):
    if not needs_sandbox(case):
        return _check_inproc(case)
    st, res = sandbox(lambda: _check_counted(case))
    if st == "died" and res == 3:
        raise RuntimeError("harness: the oracle raised inside the sandbox child for case %r" % (case,))
    if st != "ok":
        return _crash_problem(case, st, res)
    _called(res[1])
    return [tuple(p) for p in res[0]]


def sandbox_batch(cases):
    """evaluate the cases one after the other in a forked child that streams one JSON line per finished case;
    a child that dies is charged to the case it was working on and a new child continues with the next one"""
    results = []
    k = 0
    while k < len(cases):
        todo = cases[k:]

        def work(w):
            for c in todo:
                line = (json.dumps(_check_counted(c)) + "\n").encode()
                while line:
                    n = os.write(w, line)
                    line = line[n:]
        r, w = os.pipe()
        sys.stdout.flush()
        sys.stderr.flush()
        pid = os.fork()
        if pid == 0:
            code = 0
            try:
                os.close(r)
                work(w)
                os.close(w)
            except BaseException:
                import traceback
                traceback.print_exc()
                code = 3
            finally:
                os._exit(code)
        os.close(w)
        chunks = []
        while True:
            b = os.read(r, 1 << 16)
            if not b:
                break
            chunks.append(b)
        os.close(r)
        _, status = os.waitpid(pid, 0)
        lines = b"".join(chunks).split(b"\n")
        done = []
        for ln in lines[:-1]:
            try:
                done.append(json.loads(ln.decode()))
            except ValueError:
                break
        done = done[:len(todo)]
        for probs, calls in done:
            results.append(([tuple(p) for p in probs], calls))
        k += len(done)
        if k < len(cases) and len(done) < len(todo):
            if os.WIFSIGNALED(status):
                st, info = "signal", os.WTERMSIG(status)
            else:
                st, info = "died", os.WEXITSTATUS(status)
            if st == "died" and info == 3:
                # a Python exception escaped the oracle inside the child: harness error, not a violation
                raise RuntimeError("harness: the oracle raised inside the sandbox child for case %r" % (cases[k],))
            results.append((_crash_problem(cases[k], st, info), 0))
            k += 1
    return results


# ------------------------------------------------------------------------------------------------
# enumeration
# ------------------------------------------------------------------------------------------------

def _pools():
    P22, P23, P32, P33 = (R.all_patterns(2, 2), R.all_patterns(2, 3), R.all_patterns(3, 2), R.all_patterns(3, 3))
    return P22, P23, P32, P33


def _complexity(levels):
    return (len(levels), sum(len(P) * len(P[0]) for P in levels), sum(sum(map(sum, P)) for P in levels))


def ml_cases(tier, seed):
    quick = tier == "quick"
    P22, P23, P32, P33 = _pools()
    sd = ("single", "dense")
    r22, r23, r32 = R.representatives(2, 2, sd), R.representatives(2, 3, sd), R.representatives(3, 2, sd)
    r33 = R.representatives(3, 3)                                       # 9 first-nonzero positions x single/dense/banded
    d22, d23, d32 = (R.representatives(2, 2, ("dense",)), R.representatives(2, 3, ("dense",)),
                     R.representatives(3, 2, ("dense",)))
    groups = []          # (name, depth, list of level tuples)
    # L = 1: everything
    groups.append(("L1:all", "full", [(P,) for P in P22 + P23 + P32 + P33]))
    # L = 2
    small = P22 + P23 + P32
    if quick:
        q2 = P22 + R.representatives(2, 3) + R.representatives(3, 2)
        groups.append(("L2:2x2all+rect-representatives", "full", list(itertools.product(q2, q2))))
        q33 = R.representatives(3, 3, sd)
        groups.append(("L2:3x3-representatives", "full",
                       list(itertools.product(q33, q33)) + list(itertools.product(q33, r22 + r23 + r32))
                       + list(itertools.product(r22 + r23 + r32, q33))))
    else:
        groups.append(("L2:all-pairs-2x2/2x3/3x2", "full", list(itertools.product(small, small))))
        groups.append(("L2:3x3-representatives", "full",
                       list(itertools.product(r33, r33)) + list(itertools.product(r33, small))
                       + list(itertools.product(small, r33))))
    # L = 3
    groups.append(("L3:all-triples-2x2", "full", list(itertools.product(P22, P22, P22))))
    pool3 = (d22 + d23[0::2] + d32[0::2]) if quick else (r22 + r23 + r32)
    mixed = [t for t in itertools.product(pool3, repeat=3) if any(len(P) != len(P[0]) for P in t)]
    groups.append(("L3:mixed-rectangular", "full" if quick else "core", mixed))
    # L = 4 (generic n-level routine)
    if quick:
        groups.append(("L4:2x2-first-nonzero-cover", "core", list(itertools.product(r22, repeat=4))))
        pool4 = [d22[0], d22[1], d23[1], d32[2]]
    else:
        groups.append(("L4:all-2x2", "core", list(itertools.product(P22, repeat=4))))
        pool4 = [d22[0], d22[1], d23[0], d23[1], d32[0], d32[2]]
    groups.append(("L4:mixed-rectangular", "core",
                   [t for t in itertools.product(pool4, repeat=4) if any(len(P) != len(P[0]) for P in t)]))
    # L = 5, 6: first-nonzero covering sets (d22 = dense-from-first-nonzero for each of the 4 positions)

    def cover(pool, extra, L):
        """all tuples over pool, plus the tuples that put one pattern of `extra` on one level of the all-dense tuple"""
        ts = list(itertools.product(pool, repeat=L))
        for k in range(L):
            for P in extra:
                t = [pool[0]] * L
                t[k] = P
                if tuple(t) not in ts:
                    ts.append(tuple(t))
        return ts
    if quick:
        groups.append(("L5:2x2-first-nonzero-cover", "core", cover(d22[:3], d22[3:], 5)))
        groups.append(("L6:2x2-first-nonzero-cover", "core", cover(d22[:2], d22[2:], 6)))
    else:
        groups.append(("L5:2x2-first-nonzero-cover", "core", list(itertools.product(d22, repeat=5))))
        groups.append(("L6:2x2-first-nonzero-cover", "core", list(itertools.product(d22, repeat=6))))
    pool5 = [d22[1], d23[1], d32[2]] if quick else [d22[1], d22[2], d23[1], d32[2]]
    groups.append(("L5:mixed-rectangular", "core",
                   [t for t in itertools.product(pool5, repeat=5) if any(len(P) != len(P[0]) for P in t)]))
    pool6r = [d23[1], d32[2]] if quick else [d22[1], d23[1], d32[2]]
    groups.append(("L6:mixed-rectangular", "core",
                   [t for t in itertools.product(pool6r, repeat=6) if any(len(P) != len(P[0]) for P in t)]))
    cases = []
    for name, depth, tuples in groups:
        tuples = sorted(tuples, key=_complexity)
        for t in tuples:
            cases.append({"part": "ml", "levels": [list(map(list, P)) for P in t], "depth": depth, "seed": seed})
    # the other documented constructors: multi_banded, dense, from_kronecker of scipy sparse matrices
    extra = []

    def banded(n, bw):
        return [[1 if abs(i - j) <= bw else 0 for j in range(n)] for i in range(n)]
    nb1 = [(n, bw) for n in (1, 2, 3, 4) for bw in (0, 1, 2, 3)]
    nb2 = [(n, bw) for n in (2, 3, 4) for bw in (0, 1, 2)]
    nb3 = [(2, 0), (2, 1), (3, 1), (3, 2)]
    nb4 = [(2, 0), (2, 1), (3, 1)]
    for tup in ([(x,) for x in nb1] + list(itertools.product(nb2, repeat=2)) + list(itertools.product(nb3, repeat=3))
                + list(itertools.product(nb4, repeat=4)) + [((2, 1),) * 5, ((2, 0), (2, 1)) * 3]):
        extra.append({"part": "ml", "ctor": "multi_banded", "sizes": [n for n, _ in tup], "bw": [b for _, b in tup],
                      "levels": [banded(n, b) for n, b in tup], "depth": "full" if len(tup) <= 3 else "core", "seed": seed})
    for m in (1, 2, 3):
        for n in (1, 2, 3):
            extra.append({"part": "ml", "ctor": "dense", "shape": [m, n], "levels": [[[1] * n for _ in range(m)]],
                          "depth": "full", "seed": seed})
    sp = [(P,) for P in P22 + P23 + P32] + list(itertools.product(d22 + d23 + d32, repeat=2)) \
        + list(itertools.product(d22, repeat=3)) + list(itertools.product(d22[:2], repeat=4))
    for t in sorted(sp, key=_complexity):
        extra.append({"part": "ml", "ctor": "from_kronecker_sparse", "levels": [list(map(list, P)) for P in t],
                      "depth": "full" if len(t) <= 3 else "core", "seed": seed})
    groups.append(("constructors:multi_banded/dense/sparse", "mixed", extra))
    cases += extra
    return groups, cases


BREAKS = {
    "U1": [0.0, 1.0],
    "U2": [0.0, 0.5, 1.0],
    "U3": [0.0, 1.0 / 3.0, 2.0 / 3.0, 1.0],
    "U4": [0.0, 0.25, 0.5, 0.75, 1.0],
    "G3": [0.0, 1e-3, 0.5, 1.0],
}


def kv_alphabet(pmax, names):
    out = []
    for p in range(pmax + 1):
        for nm in names:
            br = BREAKS[nm]
            for mults in itertools.product(range(1, max(1, p) + 1), repeat=len(br) - 2):
                out.append({"p": p, "mesh": nm, "breaks": br, "mults": list(mults)})
    out.sort(key=lambda s: (s["p"] + len(s["breaks"]) + sum(s["mults"]), s["p"], s["mesh"], s["mults"]))
    return out


def kvs_cases(tier):
    quick = tier == "quick"
    alpha = kv_alphabet(3 if quick else 4, ["U1", "U2", "U3", "U4", "G3"])
    cases = [{"part": "kvs", "rows": [a], "cols": [b]} for a in alpha for b in alpha]
    mini = [s for s in kv_alphabet(2, ["U1", "U2", "U4"]) if s["p"] >= 1 and (s["p"], s["mesh"], tuple(s["mults"])) in
            ((1, "U1", ()), (1, "U2", (1,)), (2, "U2", (2,)), (1, "U4", (1, 1, 1)), (2, "U4", (1, 2, 1)), (2, "U1", ()))]
    if quick:
        mini = mini[:4]
    for r0, r1, c0, c1 in itertools.product(mini, repeat=4):
        cases.append({"part": "kvs", "rows": [r0, r1], "cols": [c0, c1]})
    return alpha, cases


def kronp_cases(tier, seed):
    quick = tier == "quick"
    P22, P23, P32, P33 = _pools()
    sd = ("single", "dense")
    r22, r23, r32 = R.representatives(2, 2, sd), R.representatives(2, 3, sd), R.representatives(3, 2, sd)
    d22, d23, d32 = (R.representatives(2, 2, ("dense",)), R.representatives(2, 3, ("dense",)),
                     R.representatives(3, 2, ("dense",)))
    tuples = [(P,) for P in P22 + P23 + P32] + [(P,) for P in R.representatives(3, 3)]
    pool2 = (r22 + d23 + d32) if quick else (P22 + r23 + r32)
    tuples += list(itertools.product(pool2, repeat=2))
    pool3 = [d22[0], d22[1], d22[3], d23[1], d32[2]] if quick else (d22 + d23[:3] + d32[:3])
    tuples += list(itertools.product(pool3, repeat=3))
    tuples += list(itertools.product([d22[0], d22[1], d22[2]], repeat=4))
    tuples.sort(key=_complexity)
    return [{"part": "kronp", "levels": [list(map(list, P)) for P in t], "seed": seed} for t in tuples]


def index_cases(tier):
    quick = tier == "quick"
    cases = []
    for L in range(1, 5):
        for dims in itertools.product((1, 2, 3), repeat=L):
            cases.append({"part": "index", "kind": "seq", "dims": list(dims)})
    cases.append({"part": "index", "kind": "seq", "dims": [3, 4, 5]})
    cases.append({"part": "index", "kind": "seq", "dims": [2, 1, 3, 2, 2, 3]})
    blocks = list(itertools.product((1, 2, 3), repeat=2))
    for L in (1, 2, 3):
        for bs in itertools.product(blocks, repeat=L):
            if quick and L == 3 and any(b[0] * b[1] > 4 for b in bs):
                continue
            cases.append({"part": "index", "kind": "multilevel", "bs": [list(b) for b in bs]})
    cases.append({"part": "index", "kind": "multilevel", "bs": [[3, 3], [4, 4], [5, 5]] if not quick else [[2, 2], [3, 3], [4, 4]]})
    cases.append({"part": "index", "kind": "multilevel", "bs": [[2, 1], [1, 2], [2, 2], [1, 3]]})
    for dims in itertools.product((1, 2, 3), repeat=4):
        cases.append({"part": "index", "kind": "reordered", "dims": list(dims)})
    cases.append({"part": "index", "kind": "reordered", "dims": [4, 2, 3, 5]})
    for n in (1, 2, 3):
        for P in R.all_patterns(n, n):
            if np.array_equal(np.array(P), np.array(P).T):
                for order in ("rowmajor", "reversed", "colmajor"):
                    cases.append({"part": "index", "kind": "transpose_idx", "pattern": P, "order": order})
    alphabet = [(1, 2), (3, 4), (2, 7), (0, 0)]
    for r in range(0, 5):
        for vals in itertools.permutations(alphabet, r):
            cases.append({"part": "index", "kind": "bijective", "values": [list(v) for v in vals]})
    return cases


# ------------------------------------------------------------------------------------------------
# run
# ------------------------------------------------------------------------------------------------

def _stats_ml(case):
    levels = case["levels"]
    fn = [R.first_nonzero(P) for P in levels]
    rect = any(len(P) != len(P[0]) for P in levels)
    off = any(f != (0, 0) for f in fn)
    mixed_first_col = len({f[1] for f in fn}) > 1
    bs = [(len(P), len(P[0])) for P in levels]
    I0, J0 = R.layout_positions(bs, [R.row_major_bidx(P) for P in levels])
    return {"rect": rect, "off": off, "mixcol": mixed_first_col,
            "sig": (R.shape_of(bs), len(I0), int(np.count_nonzero(J0 <= I0)), int(I0[0]), int(J0[0]))}


def _worker(case):
    c0 = _CALLS[0]
    probs = check_case(case)
    st = _stats_ml(case) if case["part"] == "ml" else None
    return case, probs, _CALLS[0] - c0, st


def _batch_worker(batch):
    res = sandbox_batch(batch)
    return [(case, probs, calls, _stats_ml(case)) for case, (probs, calls) in zip(batch, res)]


def _short(case):
    if case["part"] in ("ml", "kronp"):
        return "%s%s levels=%s" % (case["part"], " " + case["ctor"] if case.get("ctor") else "",
                                   json.dumps(case["levels"], separators=(",", ":")))
    if case["part"] == "kvs":
        return "kvs rows=%s cols=%s" % ([(s["p"], s["mesh"], s["mults"]) for s in case["rows"]],
                                        [(s["p"], s["mesh"], s["mults"]) for s in case["cols"]])
    return json.dumps({k: v for k, v in case.items() if k != "part"}, separators=(",", ":"))


def run(ctx):
    import pyiga.mlmatrix  # noqa: F401  (import once in the parent so that the forked workers share it)
    import pyiga.bspline   # noqa: F401
    import scipy.sparse    # noqa: F401
    out = Outcome()
    seed = int(ctx.seed)
    groups, mlc = ml_cases(ctx.tier, seed)
    alpha, kvc = kvs_cases(ctx.tier)
    kpc = kronp_cases(ctx.tier, seed)
    ixc = index_cases(ctx.tier)
    for name, depth, tuples in groups:
        out.part("ml", **{name: len(tuples)})
    ctx.log("cases: ml=%d (%s) kvs=%d (alphabet %d knot vectors) kron_partial=%d index=%d"
            % (len(mlc), ", ".join("%s=%d" % (n, len(t)) for n, _, t in groups), len(kvc), len(alpha), len(kpc), len(ixc)))

    def collect(results, part):
        nviol = 0
        for case, probs, calls, st in results:
            out.states += 1
            out.transitions += calls
            out.evaluations += 1
            out.part(part, cases=1, calls=calls)
            if st is not None:
                if st["rect"] or st["off"]:
                    out.nontrivial.add(case.get("ctor", "") + json.dumps(case["levels"], separators=(",", ":")))
                out.part(part, rectangular=int(st["rect"]), first_nonzero_off_origin=int(st["off"]),
                         levels_with_different_first_column=int(st["mixcol"]))
                out.outcomes.add(st["sig"])
            else:
                out.outcomes.add((part, len(probs) == 0))
            for key, msg in probs:
                nviol += 1
                out.add_violation(key, "%s: %s" % (_short(case), msg), case)
        return nviol

    # two parallel maps: everything that is memory-safe in-process, and the batches for the sandbox children.
    # gc.freeze keeps the workers' garbage collector away from the (shared, copy-on-write) case lists.
    plain = ixc + kvc + kpc + [c for c in mlc if not needs_sandbox(c)]
    boxed = [c for c in mlc if needs_sandbox(c)]
    # strided batches (even load), few of them: every sandbox child costs a fork of the whole interpreter
    nb = max(1, min(len(boxed) // 8 or 1, par.workers_default() * BATCHES_PER_WORKER))
    batches = [boxed[j::nb] for j in range(nb)]
    gc.collect()
    gc.freeze()
    try:
        res_plain = par.pmap(_worker, plain, chunk=max(1, min(48, len(plain) // 256 or 1)))
        ctx.log("%d cases evaluated in-process" % len(plain))
        rb = par.pmap(_batch_worker, batches, chunk=1, min_parallel=2)
        res_boxed = [rb[i % nb][i // nb] for i in range(len(boxed))]
        ctx.log("%d rectangular 2-/3-level structures evaluated in %d sandbox batches" % (len(boxed), len(batches)))
    finally:
        gc.unfreeze()
    # results come back in case order: match them to the enumeration by position
    it_plain, it_boxed = iter(res_plain), iter(res_boxed)

    def results_for(cases):
        return [next(it_boxed) if needs_sandbox(c) else next(it_plain) for c in cases]

    n = collect(results_for(ixc), "index")
    ctx.log("index maps: %d cases, %d problems" % (len(ixc), n))
    out.nontrivial_extra += len(ixc)
    n = collect(results_for(kvc), "kvs")
    ctx.log("from_kvs: %d cases, %d problems" % (len(kvc), n))
    for c in kvc:
        if any(a["mesh"] != b["mesh"] or a["p"] != b["p"] or max(a["mults"] + b["mults"] + [1]) > 1
               for a, b in zip(c["rows"], c["cols"])):
            out.nontrivial_extra += 1
    n = collect(results_for(kpc), "kron_partial")
    ctx.log("kron_partial: %d cases, %d problems" % (len(kpc), n))
    out.nontrivial_extra += len(kpc)
    start = 0
    for name, depth, tuples in groups:
        sub = mlc[start:start + len(tuples)]
        start += len(tuples)
        nb = sum(1 for c in sub if needs_sandbox(c))
        n = collect(results_for(sub), "ml")
        out.part("ml", sandboxed=nb)
        ctx.log("ml %-36s %6d structures (%d in sandbox children), %d problems" % (name, len(sub), nb, n))
    out.traces = out.states
    for c in (mlc[0], mlc[len(mlc) // 3], mlc[-1], kvc[len(kvc) // 2], kpc[len(kpc) // 2], ixc[len(ixc) // 2]):
        out.sample({"part": c["part"], "case": _short(c)}, limit=6)
    vk = {}
    for v in out.violations:
        vk[v.key] = vk.get(v.key, 0) + 1
    out.extra["violating_cases_per_key"] = vk
    out.extra["enumerated_space"] = {
        "ml": {n: len(t) for n, _, t in groups},
        "from_kvs": {"knot_vectors": len(alpha), "cases": len(kvc)},
        "kron_partial": len(kpc),
        "index_maps": len(ixc),
    }
    out.rule = ("state = one enumerated case (tuple of per-level 0/1 patterns / pair of knot vectors / parameter tuple of an "
                "index map); transition = one pyiga call compared with the dense numpy.kron reference. Non-trivial ml case = at "
                "least one rectangular level or one level whose first nonzero is not (0,0) (what banded test matrices never "
                "have); non-trivial from_kvs case = spaces differ in degree or mesh, or have repeated interior knots.")
    out.assumptions += [
        "block sizes 2x2, 2x3, 3x2, 3x3; every non-empty 0/1 pattern of these for L<=2 (3x3 at L=2 and rectangular blocks "
        "at L>=3 through first-nonzero x {single, dense, banded} representatives); L=5,6 through first-nonzero covering sets",
        "level index lists (bidx) are uint32 arrays as produced by from_matrix/compute_*_ij; data tensors are float64",
        "nonzero(lower_tri=True) is not generated for L=1 (documented as not implemented)",
        "row/column lists are duplicate-free lists of Python ints or int64 arrays; pairs are exhaustive up to 9 rows, a covering "
        "family beyond",
        "linear maps are decided on every unit vector with integer payloads (no value-dependent control flow in the kernels)",
        "2-/3-level structures with M != N are evaluated entirely inside forked sandbox children (in batches; a dead child is charged to the structure it was working on); ml_matvec_2d/3d are entered through a guard that checks the buffer lengths first",
        "knot vectors are open with interior multiplicities 1..max(1,p), degrees 0..3 (quick) / 0..4 (thorough), meshes "
        "U1,U2,U3,U4,G3 (U1<U2<U4 nested; U3, G3 not nested with the others)",
        "reindex_* are called with int64 ndarray block sizes as in the documentation/tests",
    ]
    return out
