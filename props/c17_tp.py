"""C17, tensor-product part: interpolation and L2 projection on every basis function (linear maps are decided
on all unit vectors), on out-of-space polynomials (node matching / orthogonality), for every data form.

Reference: exact B-splines (ref/bsp.py via ref/l2ref.AxisEval), own Gauss quadrature with pmax+3 nodes per span
weighted with |det J| (J from geo.grid_jacobian: geometry evaluation is an input, decided by C07), closed-form
geometry maps for pull-backs.
"""
import contextlib
import io

import numpy as np

from ref import kvs as KV
from ref import l2ref as L

# tolerances (fixed; calibrated on the unchanged tree over the thorough space, >= 100x margin -- see c17.py)
TOL_DIRECT = 1e-12       # * cond : max-norm error of a direct (collocation / Kronecker mass) solve on a unit vector
EN_DIRECT = 1e-8         # direct mass solves additionally: ||x - e_j||_M <= 1e-8 ||e_j||_M (not vacuous for huge cond)
TOL_MATCH = 1e-10        # * scale: interpolant vs data at the nodes, orthogonality residual vs load vector
CG_RELRES = 1e-9         # relative residual of the normal equations (the code asks CG for 1e-12)
CG_ENERGY = 1e-6         # ||x - e_j||_M <= 1e-6 ||e_j||_M
CG_ATOL = 1e-12          # the absolute tolerance project_L2 passes to CG


class Axis:
    def __init__(self, spec):
        from pyiga import bspline
        p, name, m = spec
        self.p = int(p)
        self.br = [float(x) for x in KV.PATTERNS[name]]
        kn = KV.knots_from(self.br, m, p)
        self.kv = bspline.KnotVector(kn.copy(), self.p)
        self.E = L.AxisEval(kn, self.p)
        self.n = self.E.n
        self.ext = (self.br[0], self.br[-1])


def space(axes):
    return [Axis(a) for a in axes]


def make_geo(name, sp):
    """the pyiga geometry object for `name` over the parameter box of the space (None for 'none')"""
    from pyiga import bspline, geometry
    d = len(sp)
    if name == "none":
        return None
    ext_xyz = [a.ext for a in reversed(sp)]
    if name == "nurbs-small":
        return geometry.quarter_annulus(L.SMALL * L.R1, L.SMALL * L.R2)
    if name == "nurbs":
        g = geometry.quarter_annulus(L.R1, L.R2)
        if d == 3:
            g = geometry.tensor_product(geometry.line_segment(0.0, 1.0), g)
        return g
    if name == "quadratic":
        lo, hi = sp[0].ext
        return bspline.BSplineFunc(bspline.make_knots(2, lo, hi, 1), np.array(L.QUAD1))
    kv1 = tuple(bspline.make_knots(1, a.ext[0], a.ext[1], 1) for a in sp)
    if name == "multilinear":
        return bspline.BSplineFunc(kv1, (L.BIL2 if d == 2 else L.TRI3).copy())
    if name == "identity" and d > 1:
        return geometry.identity([a.ext for a in sp])
    # identity (1D) / affine: multilinear interpolation of the images of the corners is the map itself
    G = L.geo_map(name, d, ext_xyz)
    C = np.zeros((2,) * d + (d,))
    for idx in np.ndindex(*(2,) * d):
        xi = [ext_xyz[c][idx[d - 1 - c]] for c in range(d)]
        C[idx] = [float(v) for v in G(*xi)]
    if d == 1 and name == "affine":
        C = C[:, 0]          # scalar-valued 1D geometry (no component axis)
    return bspline.BSplineFunc(kv1, C)


def geo_ok(name, sp):
    if name == "nurbs-small":
        return len(sp) == 2 and all(a.ext == (0.0, 1.0) for a in sp)
    if name == "nurbs":
        return len(sp) in (2, 3) and all(a.ext == (0.0, 1.0) for a in sp)
    if name == "quadratic":
        return len(sp) == 1
    if name == "multilinear":
        return len(sp) in (2, 3)
    return True


class Basis:
    """all tensor-product basis functions as callables in (x, y[, z]) argument order"""
    def __init__(self, sp):
        self.sp = sp
        self.d = len(sp)
        self.N = tuple(a.n for a in sp)
        self.ntot = int(np.prod(self.N))

    def factors(self, X):
        d = self.d
        return [self.sp[ax].E(np.asarray(X[d - 1 - ax], dtype=float)) for ax in range(d)]

    def all(self, *X):
        d = self.d
        out = None
        for ax, v in enumerate(self.factors(X)):
            # v: grid-broadcastable shape + (n_ax,) -> insert singleton axes for the other basis indices
            v = v.reshape(v.shape[:-1] + (1,) * ax + (v.shape[-1],) + (1,) * (d - 1 - ax))
            out = v if out is None else out * v
        return out.reshape(out.shape[:-d] + (self.ntot,))

    def single(self, j):
        ji = np.unravel_index(j, self.N)
        def f(*X):
            out = None
            for ax, v in enumerate(self.factors(X)):
                out = v[..., ji[ax]] if out is None else out * v[..., ji[ax]]
            return out
        return f

    def matrix(self, *X):
        a = self.all(*X)
        return np.stack([a, 2.0 * a], axis=-2)


def _grid(axes_xyz_last):
    """full meshgrid arrays in (x, y[, z]) order for per-axis point arrays given in axis order"""
    mesh = list(np.meshgrid(*axes_xyz_last, indexing="ij"))
    mesh.reverse()
    return mesh


def _monomials(sp, seed, extra):
    """out-of-space polynomials in the parameter domain: per axis ((x-c)/len)^(p+extra); returns list of
    (name, callable, per-axis degrees)"""
    d = len(sp)
    shift = 0.3 + 0.1 * (seed % 5)
    cs = [a.ext[0] + shift * (a.ext[1] - a.ext[0]) for a in sp]
    ls = [a.ext[1] - a.ext[0] for a in sp]
    degs = [a.p + extra for a in sp]

    def f(*X):
        out = 1.0
        for ax in range(d):
            out = out * ((np.asarray(X[d - 1 - ax], dtype=float) - cs[ax]) / ls[ax]) ** degs[ax]
        return out
    return f, degs


def _phys_poly(d, seed):
    k = 1.0 + 0.25 * (seed % 4)
    if d == 1:
        return lambda x: 0.25 * x ** 3 - k * x + 0.5
    if d == 2:
        return lambda x, y: 0.25 * x ** 2 * y + 0.125 * y ** 3 - k * x + 0.5
    return lambda x, y, z: 0.25 * x ** 2 * y + 0.125 * y ** 3 - k * x + 0.5 * z * z * x - z


class Rec:
    def __init__(self):
        self.probs = []
        self.calls = 0
        self.worst = {}

    def add(self, key, msg):
        if all(k != key for k, _ in self.probs):
            self.probs.append((key, msg))

    def note(self, name, val):
        if val > self.worst.get(name, 0.0):
            self.worst[name] = float(val)


def exc_key(e):
    """exception type plus the letters of its message (digits dropped), so that different assertions give different keys"""
    words = "".join(ch if ch.isalpha() else " " for ch in str(e)).split()
    return type(e).__name__ + ("-" + "-".join(words[:6]) if words else "")


def _call(rec, key, fn, *a, **kw):
    """library call: an exception on a legal input is a result"""
    rec.calls += 1
    try:
        return np.asarray(fn(*a, **kw), dtype=float)
    except Exception as e:      # noqa: BLE001
        rec.add("%s:exception:%s" % (key, exc_key(e)), "%s raised %r" % (key, e))
        return None


def _cmp(rec, key, got, want, tol, what, note=None):
    if got is None:
        return False
    want = np.asarray(want, dtype=float)
    if got.shape != want.shape:
        rec.add(key + ":shape", "%s: result shape %s, expected %s" % (what, got.shape, want.shape))
        return False
    if not np.all(np.isfinite(got)):
        rec.add(key + ":nonfinite", "%s: non-finite result" % what)
        return False
    err = float(np.abs(got - want).max()) if want.size else 0.0
    if note:
        rec.note(note, err / tol * 1.0 if tol > 0 else err)
    if err > tol:
        rec.add(key, "%s: deviates by %.3g (tolerance %.3g)" % (what, err, tol))
        return False
    return True


def _cmp_l2(rec, key, got, want, M, tol, what):
    """direct mass solve: max-norm (cond-scaled) and energy-norm acceptance per component"""
    if not _cmp(rec, key, got, want, tol, what, "l2/direct"):
        return False
    n = M.shape[0]
    g = got.reshape(n, -1)
    wv = np.asarray(want, dtype=float).reshape(n, -1)
    for c in range(g.shape[1]):
        dv = g[:, c] - wv[:, c]
        den = float(np.sqrt(wv[:, c] @ M @ wv[:, c])) or 1.0
        en = float(np.sqrt(max(dv @ M @ dv, 0.0))) / den
        rec.note("l2/direct-energy", en / EN_DIRECT)
        if en > EN_DIRECT:
            rec.add(key + ":energy", "%s: component %d deviates by %.3g in the energy norm (tolerance %g)" % (what, c, en, EN_DIRECT))
            return False
    return True


# ------------------------------------------------------------------------------------------------------
# interpolation
# ------------------------------------------------------------------------------------------------------

def interp_nodes(sp, scheme):
    """reference node grid per axis, or None if the scheme is not unisolvent for this space"""
    out = []
    for i, a in enumerate(sp):
        # 'mixed': a different scheme per axis, so that two axes with equal knot vectors get different node grids
        sch = scheme if scheme != "mixed" else ("skew", "cheb")[i % 2]
        t = L.NODE_SCHEMES[sch](a.E.R)
        if not L.schoenberg_whitney(a.E.R, t):
            return None
        out.append(t)
    return out


def interp_problems(case):
    from pyiga import approx, bspline
    rec = Rec()
    sp = space(case["axes"])
    d = len(sp)
    scheme, gname, seed = case["nodes"], case["geo"], int(case.get("seed", 0))
    B = Basis(sp)
    N, ntot = B.N, B.ntot
    nodes = interp_nodes(sp, scheme)
    if nodes is None:
        raise ValueError("node scheme %s is not unisolvent here: the case must not be generated" % scheme)
    lib_nodes = None if scheme == "greville" else tuple(np.array(t) for t in nodes)
    kvs = tuple(a.kv for a in sp)
    kvs_forms = [("tuple", kvs)] + ([("KnotVector", kvs[0])] if d == 1 else [])

    if scheme == "greville":
        for ax, a in enumerate(sp):
            try:
                g = np.asarray(a.kv.greville(), dtype=float)
                rec.calls += 1
                if g.shape != (a.n,) or np.abs(g - nodes[ax]).max() > 1e-14 * max(abs(a.ext[0]), abs(a.ext[1]), 1.0):
                    rec.add("greville:value", "axis %d: greville() differs from the knot averages by %.3g"
                            % (ax, np.abs(g - nodes[ax]).max() if g.shape == (a.n,) else np.inf))
                elif g.min() < a.ext[0] or g.max() > a.ext[1]:
                    rec.add("greville:outside", "axis %d: a Greville point lies outside the knot vector's interval" % ax)
            except Exception as e:      # noqa: BLE001
                rec.add("greville:exception:%s" % type(e).__name__, "greville() raised %r" % (e,))

    C = [a.E(t) for a, t in zip(sp, nodes)]            # per-axis collocation matrices at the reference nodes
    cond = float(np.prod([np.linalg.cond(Ck) for Ck in C]))
    Bn = L.kron_all(C)                                  # rows: nodes (raveled), columns: basis functions
    V = Bn.reshape(N + (ntot,))
    I = np.eye(ntot).reshape(N + (ntot,))
    tol = TOL_DIRECT * cond

    # (1) precomputed value arrays: vector-valued (all basis functions at once), scalar per function, matrix-valued
    X = None
    for form, kk in kvs_forms:
        X = _call(rec, "interpolate:array", approx.interpolate, kk, V.copy(), nodes=lib_nodes)
        _cmp(rec, "interpolate:array:vector", X, I, tol, "interpolate(values of all basis functions, %s)" % form, "interp/direct")
    for j in range(ntot):
        xj = _call(rec, "interpolate:array", approx.interpolate, kvs, np.ascontiguousarray(V[..., j]), nodes=lib_nodes)
        ok = _cmp(rec, "interpolate:array:unit", xj, I[..., j], tol, "interpolate(values of basis function %d)" % j, "interp/direct")
        if ok and X is not None and X.shape == I.shape:
            _cmp(rec, "interpolate:componentwise", X[..., j], xj, tol, "vector-valued component %d vs scalar call" % j)
    X2 = _call(rec, "interpolate:array", approx.interpolate, kvs, np.stack([V, 2.0 * V], axis=-2), nodes=lib_nodes)
    _cmp(rec, "interpolate:array:matrix", X2, np.stack([I, 2.0 * I], axis=-2), 2 * tol, "interpolate(matrix-valued array)")

    # (2) callables in the parameter domain
    Xf = _call(rec, "interpolate:function", approx.interpolate, kvs, B.all, nodes=lib_nodes)
    _cmp(rec, "interpolate:function:vector", Xf, I, tol, "interpolate(vector-valued callable of all basis functions)", "interp/direct")
    Xm = _call(rec, "interpolate:function", approx.interpolate, kvs, B.matrix, nodes=lib_nodes)
    _cmp(rec, "interpolate:function:matrix", Xm, np.stack([I, 2.0 * I], axis=-2), 2 * tol, "interpolate(matrix-valued callable)")
    for j in range(ntot):
        xj = _call(rec, "interpolate:function", approx.interpolate, kvs, B.single(j), nodes=lib_nodes)
        _cmp(rec, "interpolate:function:unit", xj, I[..., j], tol, "interpolate(callable basis function %d)" % j, "interp/direct")
    if d == 1:
        for j in range(ntot):
            fj = B.single(j)
            xj = _call(rec, "bspline.interpolate", bspline.interpolate, kvs[0], fj, nodes=lib_nodes[0] if lib_nodes else None)
            _cmp(rec, "bspline.interpolate:unit", xj, I[..., j], tol, "bspline.interpolate(basis function %d)" % j, "interp/direct")

    # (3) data outside the space: the interpolant matches the data at the nodes
    mesh = _grid(nodes)
    for extra in (1, 2):
        f, degs = _monomials(sp, seed, extra)
        vals = f(*mesh)
        scale = float(np.abs(vals).max()) or 1.0
        u = _call(rec, "interpolate:function", approx.interpolate, kvs, f, nodes=lib_nodes)
        if u is not None and u.shape == N:
            got = (Bn @ u.ravel()).reshape(N)
            _cmp(rec, "interpolate:match-at-nodes", got, vals, TOL_MATCH * scale * max(1.0, cond * 1e-3),
                 "interpolant of the degree-%s monomial evaluated at the nodes" % degs, "interp/match")
            ua = _call(rec, "interpolate:array", approx.interpolate, kvs, vals.copy(), nodes=lib_nodes)
            _cmp(rec, "interpolate:function-vs-array", u, ua, tol * scale, "callable data vs the same values as an array")
        elif u is not None:
            rec.add("interpolate:function:shape", "result shape %s for scalar data, expected %s" % (u.shape, N))
    if d > 1:
        # a function that uses only its first argument (x): documented to be broadcast over the grid
        ax = sp[d - 1]
        fx = lambda *X: ((np.asarray(X[0], dtype=float) - ax.ext[0]) / (ax.ext[1] - ax.ext[0])) ** (ax.p + 2)   # noqa: E731
        vals = np.broadcast_to(fx(*mesh), N)
        u = _call(rec, "interpolate:function", approx.interpolate, kvs, fx, nodes=lib_nodes)
        if u is not None and u.shape == N:
            _cmp(rec, "interpolate:partial-args", (Bn @ u.ravel()).reshape(N), vals, TOL_MATCH * max(1.0, cond * 1e-3),
                 "interpolant of a function of x only, at the nodes")
        elif u is not None:
            rec.add("interpolate:partial-args:shape", "result shape %s, expected %s" % (u.shape, N))

    # (4) data in physical coordinates == their pull-back == the value array
    if gname != "none":
        geo = make_geo(gname, sp)
        G = L.geo_map(gname, d, [a.ext for a in reversed(sp)])
        F = _phys_poly(d, seed)
        Fp = lambda *xi: F(*G(*xi))                     # noqa: E731
        vals = Fp(*mesh)
        scale = float(np.abs(vals).max()) or 1.0
        try:
            gv = np.asarray(geo.grid_eval(tuple(np.array(t) for t in nodes)))
            gv = gv.reshape(N + (-1,))
            gr = np.stack([np.broadcast_to(c, N) for c in G(*mesh)], axis=-1)
            if np.abs(gv - gr).max() > 1e-12 * max(1.0, np.abs(gr).max()):
                rec.add("input:geometry:closed-form-mismatch", "geo.grid_eval differs from the closed-form map by %.3g (an input of this check)"
                        % np.abs(gv - gr).max())
        except Exception as e:      # noqa: BLE001
            rec.add("input:geometry:exception:%s" % type(e).__name__, "geo.grid_eval raised %r" % (e,))
        ua = _call(rec, "interpolate:array", approx.interpolate, kvs, np.array(vals), nodes=lib_nodes)
        up = _call(rec, "interpolate:physical", approx.interpolate, kvs, F, geo=geo, nodes=lib_nodes)
        ub = _call(rec, "interpolate:function", approx.interpolate, kvs, Fp, nodes=lib_nodes)
        if ua is not None:
            _cmp(rec, "interpolate:physical-vs-array", up, ua, tol * scale, "physical data with geo=%s vs the array of its values at the nodes" % gname, "interp/phys")
            _cmp(rec, "interpolate:pullback-vs-array", ub, ua, tol * scale, "pulled-back data vs the array of its values at the nodes")
        if up is not None and up.shape == N:
            _cmp(rec, "interpolate:physical:match-at-nodes", (Bn @ up.ravel()).reshape(N), vals,
                 TOL_MATCH * scale * max(1.0, cond * 1e-3), "interpolant of physical data at the (mapped) nodes")
        Fv = lambda *x: np.stack([F(*x), 2.0 * F(*x) + 1.0], axis=-1)      # noqa: E731
        uv = _call(rec, "interpolate:physical", approx.interpolate, kvs, Fv, geo=geo, nodes=lib_nodes)
        if uv is not None and up is not None:
            if uv.shape != N + (2,):
                rec.add("interpolate:physical:vector:shape", "vector-valued physical data: result shape %s" % (uv.shape,))
            else:
                _cmp(rec, "interpolate:physical:componentwise", uv[..., 0], up, tol * scale, "component 0 of vector-valued physical data vs scalar call")
                ones = _call(rec, "interpolate:array", approx.interpolate, kvs, np.ones(N), nodes=lib_nodes)
                if ones is not None:
                    _cmp(rec, "interpolate:physical:componentwise", uv[..., 1], 2.0 * up + ones, 4 * tol * scale,
                         "component 1 of vector-valued physical data vs 2*scalar + interpolant of 1")
    return rec


# ------------------------------------------------------------------------------------------------------
# L2 projection
# ------------------------------------------------------------------------------------------------------

def ref_quadrature(sp, geo):
    """(Bq, w): all basis functions at the reference Gauss grid (pmax+3 nodes per span) and the weights
    including |det J|"""
    d = len(sp)
    nq = max(a.p for a in sp) + 3
    gp, gw = zip(*[L.gauss(a.br, nq) for a in sp])
    Bq = L.kron_all([a.E(t) for a, t in zip(sp, gp)])
    w = L.outer_all(list(gw))
    if geo is not None:
        J = np.asarray(geo.grid_jacobian(tuple(gp)), dtype=float)
        J = J.reshape(w.shape + (d, d)) if d > 1 else J.reshape(w.shape + (1, 1))
        w = w * np.abs(np.linalg.det(J))
    return gp, Bq, w.ravel()


def _cg_verdict(rec, x, e, M, warn, what, jdesc):
    dvec = x.ravel() - e
    b = M @ e
    r = M @ dvec
    nb = float(np.linalg.norm(b))
    relres = float(np.linalg.norm(r)) / nb
    en = float(np.sqrt(max(dvec @ r, 0.0)) / np.sqrt(e @ b))
    bad = relres > CG_RELRES or en > CG_ENERGY or not np.all(np.isfinite(x))
    if not bad:
        rec.note("l2/cg-relres", relres / CG_RELRES)
        rec.note("l2/cg-energy", en / CG_ENERGY)
    if bad:
        info = "relative residual %.3g, energy error %.3g, ||b||=%.3g" % (relres, en, nb)
        if not x.any():
            rec.add("project_L2:geo:cg-atol:zero-result",
                    "%s of %s returned exactly 0 without a warning: ||b||=%.3g is below the absolute CG tolerance %g"
                    % (what, jdesc, nb, CG_ATOL))
        elif np.linalg.norm(r) <= 2 * CG_ATOL and nb < 1.0 and not warn:
            rec.add("project_L2:geo:cg-atol:early-stop",
                    "%s of %s: CG stopped at the absolute tolerance %g (%s)" % (what, jdesc, CG_ATOL, info))
        elif warn:
            rec.add("project_L2:geo:cg-not-converged", "%s of %s: %s (%s)" % (what, jdesc, warn.strip(), info))
        else:
            rec.add("project_L2:geo:reproduce", "%s of %s is not reproduced (%s)" % (what, jdesc, info))
    elif warn:
        rec.add("project_L2:geo:cg-warning", "%s of %s: stderr %r although the result is accurate" % (what, jdesc, warn.strip()))


def _l2_call(rec, key, fn, *a, **kw):
    err = io.StringIO()
    with contextlib.redirect_stderr(err):
        x = _call(rec, key, fn, *a, **kw)
    return x, err.getvalue()


def l2_problems(case):
    from pyiga import approx, assemble, bspline
    rec = Rec()
    sp = space(case["axes"])
    d = len(sp)
    gname, seed = case["geo"], int(case.get("seed", 0))
    B = Basis(sp)
    N, ntot = B.N, B.ntot
    kvs = tuple(a.kv for a in sp)
    geo = make_geo(gname, sp)
    try:
        gp, Bq, w = ref_quadrature(sp, geo)
    except Exception as e:      # noqa: BLE001
        rec.add("input:geometry:exception:%s" % type(e).__name__, "geo.grid_jacobian raised %r" % (e,))
        return rec
    M = Bq.T @ (w[:, None] * Bq)
    I = np.eye(ntot).reshape(N + (ntot,))
    qmesh = _grid(gp)
    pmax = max(a.p for a in sp)

    def load(f):
        return Bq.T @ (w * np.broadcast_to(f(*qmesh), tuple(len(t) for t in gp)).ravel())

    if geo is None:
        cond = float(np.linalg.cond(M))
        tol = TOL_DIRECT * cond
        kvs_forms = [("tuple", kvs)] + ([("KnotVector", kvs[0])] if d == 1 else [])
        X = None
        for form, kk in kvs_forms:
            X, _ = _l2_call(rec, "project_L2", approx.project_L2, kk, B.all)
            _cmp_l2(rec, "project_L2:function:vector", X, I, M, tol, "project_L2(vector-valued callable of all basis functions, %s)" % form)
        Xm, _ = _l2_call(rec, "project_L2", approx.project_L2, kvs, B.matrix)
        _cmp_l2(rec, "project_L2:function:matrix", Xm, np.stack([I, 2.0 * I], axis=-2), M, 2 * tol, "project_L2(matrix-valued callable)")
        for j in range(ntot):
            xj, _ = _l2_call(rec, "project_L2", approx.project_L2, kvs, B.single(j))
            ok = _cmp_l2(rec, "project_L2:function:unit", xj, I[..., j], M, tol, "project_L2(basis function %d)" % j)
            if ok and X is not None and X.shape == I.shape:
                _cmp(rec, "project_L2:componentwise", X[..., j], xj, tol, "vector-valued component %d vs scalar call" % j)
        try:
            fobj = bspline.BSplineFunc(kvs, I.copy())
            Xo, _ = _l2_call(rec, "project_L2", approx.project_L2, kvs, fobj)
            _cmp_l2(rec, "project_L2:BSplineFunc", Xo, I, M, tol, "project_L2(BSplineFunc with identity coefficients)")
        except Exception as e:      # noqa: BLE001
            rec.add("project_L2:BSplineFunc:exception:%s" % type(e).__name__, "BSplineFunc data raised %r" % (e,))
        if d == 1:
            for j in range(ntot):
                fj = B.single(j)
                lv, _ = _l2_call(rec, "bspline.load_vector", bspline.load_vector, kvs[0], fj)
                _cmp(rec, "bspline.load_vector", lv, M[:, j], 1e-13 * float(np.abs(M).max()), "load_vector(basis function %d) vs the exact mass column" % j)
                xj, _ = _l2_call(rec, "bspline.project_L2", bspline.project_L2, kvs[0], fj)
                _cmp_l2(rec, "bspline.project_L2:unit", xj, I[..., j], M, tol, "bspline.project_L2(basis function %d)" % j)
        # orthogonality of the residual for polynomials outside the space which the documented p+1 Gauss rule
        # integrates exactly (degree p_k + extra + p_k <= 2 pmax + 1 on every axis)
        for extra in (1, 2):
            f, degs = _monomials(sp, seed, extra)
            if any(dk + a.p > 2 * pmax + 1 for dk, a in zip(degs, sp)):
                continue
            bref = load(f)
            u, _ = _l2_call(rec, "project_L2", approx.project_L2, kvs, f)
            if u is not None and u.shape == N:
                r = bref - M @ u.ravel()
                sc = float(np.linalg.norm(bref)) or 1.0
                rec.note("l2/orth", float(np.linalg.norm(r)) / (TOL_MATCH * sc))
                if np.linalg.norm(r) > TOL_MATCH * sc:
                    rec.add("project_L2:orthogonality", "residual of the degree-%s monomial is not orthogonal to the space: "
                            "||b - M u|| = %.3g ||b||" % (degs, np.linalg.norm(r) / sc))
            elif u is not None:
                rec.add("project_L2:function:shape", "result shape %s for scalar data, expected %s" % (u.shape, N))
        return rec

    # geometry-weighted projection (preconditioned CG); scalar data only (documented restriction)
    E = np.eye(ntot)
    for j in range(ntot):
        x, warn = _l2_call(rec, "project_L2:geo", approx.project_L2, kvs, B.single(j), geo=geo)
        if x is None:
            continue
        if x.shape != N:
            rec.add("project_L2:geo:shape", "result shape %s, expected %s" % (x.shape, N))
            continue
        _cg_verdict(rec, x, E[j], M, warn, "project_L2(geo=%s)" % gname, "basis function %d" % j)
    if gname == "identity":
        for j in range(ntot):
            x, warn = _l2_call(rec, "project_L2:geo", approx.project_L2, kvs, B.single(j), f_physical=True, geo=geo)
            if x is not None and x.shape == N:
                _cg_verdict(rec, x, E[j], M, warn, "project_L2(f_physical=True, geo=identity)", "basis function %d" % j)
    # physical data vs pull-back; orthogonality where the documented quadrature is exact
    G = L.geo_map(gname, d, [a.ext for a in reversed(sp)])
    F = _phys_poly(d, seed)
    Fp = lambda *xi: F(*G(*xi))                     # noqa: E731
    up, w1 = _l2_call(rec, "project_L2:geo", approx.project_L2, kvs, F, f_physical=True, geo=geo)
    ub, w2 = _l2_call(rec, "project_L2:geo", approx.project_L2, kvs, Fp, geo=geo)
    if up is not None and ub is not None and up.shape == N and ub.shape == N:
        dv = (up - ub).ravel()
        nrm = float(np.sqrt(ub.ravel() @ M @ ub.ravel())) or 1.0
        en = float(np.sqrt(max(dv @ M @ dv, 0.0))) / nrm
        stopped_abs = all(np.linalg.norm(M @ v.ravel() - load(Fp)) <= 2 * CG_ATOL for v in (up, ub)) if en > CG_ENERGY else False
        if en > CG_ENERGY and not stopped_abs:
            rec.add("project_L2:geo:physical-vs-pullback", "f_physical=True and the pulled-back data give projections differing by %.3g in the energy norm" % en)
        rec.note("l2/phys-vs-pullback", en / CG_ENERGY if not stopped_abs else 0.0)
    gdeg = L.det_degree(gname, d)
    for extra in (1, 2):
        f, degs = _monomials(sp, seed, extra)
        exact = gdeg is not None and all(dk + a.p + gdeg <= 2 * pmax + 1 for dk, a in zip(degs, sp))
        if not exact and extra == 2:
            continue
        u, warn = _l2_call(rec, "project_L2:geo", approx.project_L2, kvs, f, geo=geo)
        if u is None or u.shape != N:
            continue
        if exact:
            bref, Mref, how = load(f), M, "the geometry-weighted L2 inner product"
        else:
            # the library's p+1 point rule is not exact here: orthogonality is demanded in the discrete inner
            # product the library documents to use (its own mass matrix and load vector)
            try:
                Mref = assemble.mass(kvs, geo=geo).toarray()
                bref = np.asarray(assemble.inner_products(kvs, f, geo=geo)).ravel()
                how = "the library's own mass matrix and load vector"
            except Exception as e:      # noqa: BLE001
                rec.add("input:assemble:exception:%s" % type(e).__name__, "assemble.mass/inner_products raised %r" % (e,))
                continue
        r = bref - Mref @ u.ravel()
        sc = float(np.linalg.norm(bref)) or 1.0
        rel = float(np.linalg.norm(r)) / sc
        if rel > CG_RELRES:
            if np.linalg.norm(r) <= 2 * CG_ATOL and sc < 1.0 and not warn:
                rec.add("project_L2:geo:cg-atol:early-stop", "projection of the degree-%s monomial: CG stopped at the absolute tolerance %g "
                        "(relative residual %.3g, ||b||=%.3g)" % (degs, CG_ATOL, rel, sc))
            elif warn:
                rec.add("project_L2:geo:cg-not-converged", "projection of the degree-%s monomial: %s" % (degs, warn.strip()))
            else:
                rec.add("project_L2:geo:orthogonality", "residual of the degree-%s monomial is not orthogonal to the space in %s: "
                        "||b - M u|| = %.3g ||b||" % (degs, how, rel))
        else:
            rec.note("l2/geo-orth", rel / CG_RELRES)
    return rec
