"""C13 -- form-compilation caching never substitutes a different assembler.

E1 over the in-process cache `pyiga.compile.__vform_asm_cache`: state = cache contents, event =
compile_vform(form, on_demand) for forms of the bounded grammar and their ONE-TOKEN mutation neighbourhood
(operator, function name, constant, shape, derivative index/order/physical flag, measure, boundary flag,
component count, space index, updatable flag, on-demand).  The C/Cython compiler is replaced in the driver by
a stub that returns an object carrying the generated source, so only the real key logic runs.
 (1) all unordered pairs (decided by grouping on the key): equal key => identical generated source;
 (2) every ordered request sequence of length 2 (and 3 for small neighbourhoods) inside each neighbourhood on
     the real cache: each request gets code generated from ITS form;
 (3) freshness: regenerating assemblers.pyx / genericasm.pxi in fresh processes under several PYTHONHASHSEED
     values gives the shipped files; identical source => identical module name; the predefined (form, class)
     cache entries carry matching metadata.
"""
import copy
import hashlib
import itertools
import json
import os
import subprocess
import sys

import numpy as np

from mc import par
from mc.outcome import Outcome
from ref import vgen

ID = "C13"
LEVEL = "model_checking"

CONSTS = [0.5, 1.0, -1.0, -2.0, 2.5, 2.0]


# ---------------------------------------------------------------------------------------------------
# one-token mutation neighbourhood on spec programs
# ---------------------------------------------------------------------------------------------------

def _paths(e, path=()):
    """all (path, node) of list nodes in an expression"""
    if isinstance(e, list) and e and isinstance(e[0], str):
        yield path, e
        for i, c in enumerate(e[1:], 1):
            if isinstance(c, list):
                if c and isinstance(c[0], str):
                    yield from _paths(c, path + (i,))
                else:
                    for j, r in enumerate(c):       # mat rows
                        if isinstance(r, list):
                            for k, cc in enumerate(r):
                                if isinstance(cc, list):
                                    yield from _paths(cc, path + (i, j, k))


def _replace(e, path, new):
    if not path:
        return new
    e = list(e)
    cur = e
    for p in path[:-1]:
        cur[p] = list(cur[p])
        cur = cur[p]
    cur[path[-1]] = new
    return e


def neighbours(prog):
    """list of (axis, mutated program); every mutant differs from prog in exactly one token/declaration and
    denotes a different assembler"""
    out = []
    d = prog["dim"]
    for ti, term in enumerate(prog["terms"]):
        for path, node in _paths(term):
            op = node[0]
            muts = []
            if op == "fn":
                for fn in vgen.FN_NAMES:
                    if fn != node[1]:
                        muts.append(("function", ["fn", fn, node[2]]))
            elif op == "const":
                for cval in CONSTS:
                    if cval != node[1]:
                        muts.append(("constant", ["const", cval]))
            elif op in ("add", "sub"):
                muts.append(("operator", ["sub" if op == "add" else "add", node[1], node[2]]))
            elif op in ("mul", "div"):
                # only where both operands are scalars would '/' be well-formed: try, builder rejects otherwise
                muts.append(("operator", ["div" if op == "mul" else "mul", node[1], node[2]]))
            elif op == "dx":
                for k in range(d):
                    if k != node[2]:
                        muts.append(("deriv-index", ["dx", node[1], k, node[3], node[4]]))
                muts.append(("deriv-physical", ["dx", node[1], node[2], node[3], not node[4]]))
                if node[3] == 1:
                    muts.append(("deriv-order", ["dx", node[1], node[2], 2, node[4]]))
            elif op in ("grad", "hess", "diverg"):
                muts.append(("deriv-physical", [op, node[1], not node[2]]))
            elif op == "comp":
                idx = node[2]
                if isinstance(idx, int):
                    muts.append(("index", ["comp", node[1], idx + 1]))
                    if idx > 0:
                        muts.append(("index", ["comp", node[1], idx - 1]))
                elif isinstance(idx, list) and all(isinstance(i, int) for i in idx):
                    muts.append(("index", ["comp", node[1], list(reversed(idx))]))
            elif op == "dxm":
                muts.append(("measure", ["gw"]))
            elif op == "pow":
                muts.append(("constant", ["pow", node[1], node[2] + 1]))
            elif op == "dt":
                muts.append(("deriv-order", ["dt", node[1], node[2] + 1]))
            elif op == "field" and node[1] == "f":
                muts.append(("input", ["field", "g"]))
            elif op == "T":
                muts.append(("operator", node[1]))
            for axis, new in muts:
                q = copy.deepcopy(prog)
                q["terms"][ti] = _replace(term, path, new)
                q["inputs"], q["params"] = {}, {}
                for t in q["terms"]:
                    vgen.decl_for(q, t)
                for n_, dcl in prog["inputs"].items():
                    if n_ in q["inputs"]:
                        q["inputs"][n_] = copy.deepcopy(dcl)
                q["tag"] = prog["tag"] + "~" + axis
                out.append((axis, q))
    # the same term added once more (a form is a *sum* of its terms: the multiplicity matters)
    q = copy.deepcopy(prog)
    q["terms"] = q["terms"] + [copy.deepcopy(q["terms"][0])]
    q["tag"] = prog["tag"] + "~term-multiplicity"
    out.append(("term-multiplicity", q))
    # declaration-level mutations
    for name, dcl in prog.get("inputs", {}).items():
        q = copy.deepcopy(prog)
        q["inputs"][name]["updatable"] = not dcl.get("updatable", False)
        q["tag"] = prog["tag"] + "~updatable"
        out.append(("updatable", q))
        if not dcl["shape"]:
            q = copy.deepcopy(prog)
            q["inputs"][name]["physical"] = not dcl.get("physical", False)
            q["tag"] = prog["tag"] + "~input-physical"
            out.append(("input-physical", q))
    if prog["arity"] == 2:
        q = copy.deepcopy(prog)
        q["bfuns"]["v"][1] = 1 - q["bfuns"]["v"][1]
        q["tag"] = prog["tag"] + "~space-index"
        out.append(("space-index", q))
    for bn, (nc, sp) in prog["bfuns"].items():
        if nc is not None and nc >= 2:
            q = copy.deepcopy(prog)
            q["bfuns"][bn][0] = nc + 1
            q["tag"] = prog["tag"] + "~component-count"
            out.append(("component-count", q))
    if prog.get("boundary") is None and prog.get("geo_dim", d) == d and d >= 2:
        q = copy.deepcopy(prog)
        q["boundary"] = [0, 0]
        q["tag"] = prog["tag"] + "~boundary-flag"
        out.append(("boundary-flag", q))
    return out


def base_programs(tier):
    progs = vgen.all_programs(dims=(1, 2) if tier == "quick" else (1, 2, 3))
    if tier == "quick":
        # all families, thinned among the plain operator-pair products
        keep = []
        n = 0
        for p in progs:
            fam = p["tag"].split(":")[0]
            if fam == "bilin":
                n += 1
                if n % 4:
                    continue
            keep.append(p)
        progs = keep
    return progs


# ---------------------------------------------------------------------------------------------------
# key / source of a program
# ---------------------------------------------------------------------------------------------------

def interface(prog, on_demand):
    """everything about the assembler's signature that the cache key must separate"""
    d = prog["dim"]
    return (d, prog.get("geo_dim", d), prog.get("boundary") is not None, prog["arity"],
            tuple(sorted((n, nc, sp) for n, (nc, sp) in prog["bfuns"].items())),
            tuple(sorted((n, tuple(dc["shape"]), bool(dc.get("physical")), bool(dc.get("updatable")))
                         for n, dc in prog.get("inputs", {}).items())),
            tuple(sorted((n, tuple(sh)) for n, sh in prog.get("params", {}).items())),
            bool(on_demand))


SEM_SEEDS = (11, 12)


def key_and_source(prog, on_demand):
    """(cache key exactly as compile_vform computes it, semantic signature) or (None, reason) if the form is
    rejected.  The generated code itself cannot be compared textually: the generator's statement order and
    temporary names depend on set iteration order and differ between two generations of the SAME form.  Two
    forms 'generate identical code' is therefore decided semantically: same assembler interface and the same
    integrand value (independent semantics, ref/vsem.py) in fixed generic environments."""
    from pyiga import compile as C
    from ref import vsem, venv
    try:
        vf = vgen.build_vform(prog)
        key = (vf.hash(), (on_demand,))
        vf2 = vgen.build_vform(prog)
        if on_demand and vf2.is_boundary_integral():
            return None, "boundary on demand not implemented"
        C.generate(vf2, on_demand=on_demand)          # must be accepted by the generator
    except (TypeError, NotImplementedError, ZeroDivisionError, IndexError, ValueError) as e:
        return None, "%s: %s" % (type(e).__name__, e)
    except AssertionError as e:
        return None, "AssertionError: %s" % e
    except RuntimeError as e:
        return None, "RuntimeError: %s" % e
    vals = []
    if prog.get("boundary") is not None:
        # the face is a run-time argument of the assembler, not part of the form: evaluate on a canonical face
        prog = dict(prog, boundary=[0, 0])
    for sd in SEM_SEEDS:
        env = venv.random_env(prog, sd)
        with np.errstate(all="ignore"):
            v = np.asarray(vsem.denote_terms(prog, env), dtype=float)
        vals.append(v.reshape(-1))
    return key, (interface(prog, on_demand), np.concatenate(vals))


def same_assembler(sa, sb):
    (ia, va), (ib, vb) = sa, sb
    if ia != ib or va.shape != vb.shape:
        return False
    fin = np.isfinite(va) & np.isfinite(vb)
    if not np.array_equal(np.isfinite(va), np.isfinite(vb)):
        return False
    return bool(np.all(np.abs(va[fin] - vb[fin]) <= 1e-9 * np.maximum(1.0, np.abs(va[fin]))))


def _nb_worker(prog):
    """for one base program: (list of (axis, tag, on_demand, key, source digest, prog)), count rejected"""
    items = []
    rejected = 0
    fam = [("base", prog)] + neighbours(prog)
    for axis, q in fam:
        for od in (False, True):
            k, s = key_and_source(q, od)
            if k is None:
                rejected += 1
                continue
            items.append((axis, q.get("tag", prog["tag"]), od, k, s, q))
    return prog["tag"], items, rejected


# ---------------------------------------------------------------------------------------------------
# request sequences on the real cache (compiler stubbed)
# ---------------------------------------------------------------------------------------------------

# programs of the grammar that ARE shipped forms (same terms, same declarations): for these a request is answered with
# the shipped class from the pre-seeded cache, which is the right assembler (its semantics are decided by C01, its
# metadata by predefined_problems below).  Any other form that is served a shipped class has been given a wrong assembler.
PREDEFINED_OK = {}
for _d in (2, 3):
    PREDEFINED_OK[("bilin:%dD:w*w" % _d, False)] = "MassAssembler%dD" % _d
    PREDEFINED_OK[("func:%dD:f*v" % _d, False)] = "L2FunctionalAssembler%dD" % _d
    PREDEFINED_OK[("vecbf:%dD:(%d,%d):divdiv" % (_d, _d, _d), False)] = "DivDivAssembler%dD" % _d


_ANCHORS = {}


def _anchor_sems():
    """shipped class name -> semantic signature of the grammar program that is this shipped form (the programs of
    PREDEFINED_OK, plus f*v*dx with the field given in physical coordinates = L2functional_vf(physical=True))"""
    if not _ANCHORS:
        progs = {p["tag"]: p for p in vgen.all_programs(dims=(1, 2, 3))}
        for (tag, od), cname in PREDEFINED_OK.items():
            k, sem = key_and_source(progs[tag], od)
            if k is not None:
                _ANCHORS[cname] = sem
        for d in (2, 3):
            q = copy.deepcopy(progs["func:%dD:f*v" % d])
            q["inputs"]["f"]["physical"] = True
            k, sem = key_and_source(q, False)
            if k is not None:
                _ANCHORS["L2FunctionalAssemblerPhys%dD" % d] = sem
    return _ANCHORS


def _predefined_ok(prog, od, asm):
    """a request answered with a shipped class is right iff the requested form is the same assembler as the grammar
    program known to be that shipped form"""
    cname = getattr(asm, "__name__", None)
    if od or cname not in _anchor_sems():
        return False
    k, sem = key_and_source(prog, od)
    return k is not None and same_assembler(sem, _anchor_sems()[cname])


class _StubModule:
    def __init__(self, src):
        self.src = src
        self.CustomAssembler = type("StubAssembler", (), {"src": src})


def sequence_problems(case):
    """all ordered request sequences of length <= maxlen over the forms of one neighbourhood, each on a fresh copy
    of the real cache: every request must return an assembler generated from a form that is the same assembler
    as the requested one.  `generate` is wrapped to stamp the code with the index of the requesting form."""
    from pyiga import compile as C
    forms = case["forms"]            # list of (prog, on_demand)
    cache = C.__dict__["__vform_asm_cache"]
    snapshot = dict(cache)
    real_compile, real_generate = C.compile_cython_module, C.generate
    current = {"i": None}

    def gen(vf, classname="CustomAssembler", on_demand=False):
        real_generate(vf, classname, on_demand=on_demand)       # the real generator must still accept the form
        return "FORM %d" % current["i"]

    sems = []
    for prog, od in forms:
        k, s = key_and_source(prog, od)
        sems.append(s if k is not None else None)
    idxs = [i for i, w in enumerate(sems) if w is not None]
    C.compile_cython_module = lambda src, verbose=False: _StubModule(src)
    C.generate = gen
    probs = []
    nseq = 0
    try:
        for L in range(2, case["maxlen"] + 1):
            for seq in itertools.permutations(idxs, L):
                cache.clear()
                cache.update(snapshot)
                nseq += 1
                for i in seq:
                    prog, od = forms[i]
                    current["i"] = i
                    asm = C.compile_vform(vgen.build_vform(prog), on_demand=od)
                    got = getattr(asm, "src", None)
                    if got is None:
                        if _predefined_ok(prog, od, asm):
                            continue
                        probs.append(("cache:predefined-substituted", "request for %s returned the predefined class %s"
                                      % (prog["tag"], getattr(asm, "__name__", asm))))
                        break
                    j = int(got.split()[1])
                    if j != i and not same_assembler(sems[j], sems[i]):
                        first = [forms[q][0]["tag"] + ("/od" if forms[q][1] else "") for q in seq]
                        probs.append(("cache:wrong-assembler", "in the request sequence %s the request for %s (on_demand=%s) was served the assembler of %s (on_demand=%s)"
                                      % (first, prog["tag"], od, forms[j][0]["tag"], forms[j][1])))
                        break
                if probs:
                    break
            if probs:
                break
    finally:
        C.compile_cython_module, C.generate = real_compile, real_generate
        cache.clear()
        cache.update(snapshot)
    return nseq, probs


def extend_problems(case):
    """A form object whose hash() was taken while it was still under construction and which then received another
    term: either the API refuses the modification (RuntimeError), or the finished form must be served its own
    assembler -- before and after a request for the shorter form in the same process."""
    from pyiga import compile as C
    prog, od = case["prog"], case["on_demand"]
    ext = copy.deepcopy(prog)
    ext["terms"] = ext["terms"] + [copy.deepcopy(ext["terms"][0])]
    k1, s1 = key_and_source(prog, od)
    k2, s2 = key_and_source(ext, od)
    if k1 is None or k2 is None or same_assembler(s1, s2):
        return 0, []
    cache = C.__dict__["__vform_asm_cache"]
    snapshot = dict(cache)
    real_compile, real_generate = C.compile_cython_module, C.generate
    current = {"i": None}

    def gen(vf, classname="CustomAssembler", on_demand=False):
        real_generate(vf, classname, on_demand=on_demand)
        return "FORM %d" % current["i"]

    nterms = len(prog["terms"])

    def hook(vf, i):
        if i == nterms - 1:
            vf.hash()               # the form is, at this moment, exactly `prog`

    C.compile_cython_module = lambda src, verbose=False: _StubModule(src)
    C.generate = gen
    probs, n = [], 0
    sems = {1: s1, 2: s2}
    try:
        for order in ("short-first", "extended-first", "extended-only"):
            cache.clear()
            cache.update(snapshot)
            n += 1
            served = []
            steps = {"short-first": (1, 2), "extended-first": (2, 1), "extended-only": (2,)}[order]
            refused = False
            for which in steps:
                current["i"] = which
                if which == 1:
                    vf = vgen.build_vform(prog)
                else:
                    try:
                        vf = vgen.build_vform(ext, after_term=hook)
                    except RuntimeError:
                        refused = True      # modification after hash() refused: nothing to request
                        continue
                asm = C.compile_vform(vf, on_demand=od)
                got = getattr(asm, "src", None)
                if got is None:
                    if which == 1 and _predefined_ok(prog, od, asm):
                        continue
                    probs.append(("cache:hash-then-add", "%s (%s): the %s form was served the predefined class %s"
                                  % (prog["tag"], order, "extended" if which == 2 else "short", getattr(asm, "__name__", asm))))
                    break
                j = int(got.split()[1])
                if j != which:
                    probs.append(("cache:hash-then-add", "%s (%s): a form whose hash() was taken before its last term was added: the request for the "
                                  "%s form was served the assembler generated for the %s form"
                                  % (prog["tag"], order, "extended" if which == 2 else "short", "extended" if j == 2 else "short")))
                    break
            if probs:
                break
    finally:
        C.compile_cython_module, C.generate = real_compile, real_generate
        cache.clear()
        cache.update(snapshot)
    return n, probs


# ---------------------------------------------------------------------------------------------------
# freshness of the shipped generated files
# ---------------------------------------------------------------------------------------------------

FRESH_CODE = r'''
import sys, hashlib, json
sys.path.insert(0, %(repo)r)
from pyiga import vform
from pyiga.codegen import cython as backend
def generate(dim):
    code = backend.CodeGen()
    def gen(vf, classname):
        backend.AsmGenerator(vf, classname, code).generate()
    nD = str(dim) + 'D'
    gen(vform.mass_vf(dim), 'MassAssembler'+nD)
    gen(vform.stiffness_vf(dim), 'StiffnessAssembler'+nD)
    gen(vform.heat_st_vf(dim), 'HeatAssembler_ST'+nD)
    gen(vform.wave_st_vf(dim), 'WaveAssembler_ST'+nD)
    gen(vform.divdiv_vf(dim), 'DivDivAssembler'+nD)
    gen(vform.L2functional_vf(dim), 'L2FunctionalAssembler'+nD)
    gen(vform.L2functional_vf(dim, physical=True), 'L2FunctionalAssemblerPhys'+nD)
    return code.result()
asm = backend.preamble() + generate(2) + generate(3)
gen = '# file generated by generate-assemblers.py\n' + backend.generate_generic(dim=1) + backend.generate_generic(dim=2) + backend.generate_generic(dim=3)
from pyiga import compile as C
src = C.generate(vform.mass_vf(2).__class__(2) if False else vform.mass_vf(2))
modname = 'mod' + hashlib.shake_128(src.encode()).hexdigest(8)
json.dump({"asm": asm, "gen": gen, "src_digest": hashlib.sha256(src.encode()).hexdigest(), "modname": modname}, sys.stdout)
'''


def _statement_multiset(text):
    return sorted(l.rstrip() for l in text.splitlines() if l.strip())


def freshness_problems(case):
    repo = os.environ.get("VERIF_REPO", "/repo")
    env = dict(os.environ)
    env["PYTHONHASHSEED"] = str(case["hashseed"])
    r = subprocess.run([sys.executable, "-c", FRESH_CODE % {"repo": repo}], capture_output=True, text=True, env=env)
    if r.returncode != 0:
        return [("fresh:exception", "regenerating the shipped assemblers failed: %s" % r.stderr[-400:])]
    out = json.loads(r.stdout)
    probs = []
    for name, fname in (("asm", "assemblers.pyx"), ("gen", "genericasm.pxi")):
        with open(os.path.join(repo, "pyiga", fname)) as f:
            shipped = f.read()
        if out[name] != shipped:
            # identical up to the order of independent statements?  (same multiset of lines is the weakest
            # observable form of that; anything else is a stale file)
            if _statement_multiset(out[name]) != _statement_multiset(shipped):
                a, b = out[name].splitlines(), shipped.splitlines()
                k = next((i for i, (x, y) in enumerate(zip(a, b)) if x != y), min(len(a), len(b)))
                probs.append(("fresh:%s" % fname, "%s differs from what the generator produces today (first difference at line %d: %r vs shipped %r)"
                              % (fname, k + 1, a[k] if k < len(a) else None, b[k] if k < len(b) else None)))
    return probs + [("__info__", json.dumps({"seed": case["hashseed"], "modname": out["modname"], "src": out["src_digest"]}))]


def predefined_problems():
    """the pre-seeded cache entries map forms to classes with matching metadata"""
    from pyiga import compile as C, vform, assemblers
    probs = []
    for dim in (2, 3):
        nD = "%dD" % dim
        table = [(vform.mass_vf(dim), "MassAssembler"), (vform.stiffness_vf(dim), "StiffnessAssembler"),
                 (vform.heat_st_vf(dim), "HeatAssembler_ST"), (vform.wave_st_vf(dim), "WaveAssembler_ST"),
                 (vform.divdiv_vf(dim), "DivDivAssembler"), (vform.L2functional_vf(dim), "L2FunctionalAssembler"),
                 (vform.L2functional_vf(dim, physical=True), "L2FunctionalAssemblerPhys")]
        for vf, cname in table:
            cls = C.compile_vform(vf)
            want = getattr(assemblers, cname + nD)
            if cls is not want:
                probs.append(("predefined:class", "compile_vform(%s %s) returned %r instead of the shipped class" % (cname, nD, cls)))
                continue
            inputs = {i.name: tuple(i.shape) for i in vf.inputs}
            if dict(cls.inputs()) != inputs:
                probs.append(("predefined:inputs", "%s%s.inputs() = %r, the form declares %r" % (cname, nD, cls.inputs(), inputs)))
    return probs


# ---------------------------------------------------------------------------------------------------

def check_case(case):
    part = case["part"]
    if part == "pair":
        out = []
        (k1, s1), (k2, s2) = key_and_source(case["a"], case["od_a"]), key_and_source(case["b"], case["od_b"])
        if k1 is not None and k2 is not None and k1 == k2 and not same_assembler(s1, s2):
            out.append((case["key"], "forms %s and %s have the same cache key but generate different code" % (case["a"]["tag"], case["b"]["tag"])))
        return out
    if part == "seq":
        return sequence_problems(case)[1]
    if part == "extend":
        return extend_problems(case)[1]
    if part == "fresh":
        return [p for p in freshness_problems(case) if p[0] != "__info__"]
    if part == "predefined":
        return predefined_problems()
    raise ValueError(part)


def _seq_worker(case):
    return sequence_problems(case)


def _ext_worker(case):
    return extend_problems(case)


def _fresh_worker(case):
    return freshness_problems(case)


def run(ctx):
    out = Outcome()
    bases = base_programs(ctx.tier)
    res = par.pmap(_nb_worker, bases, min_parallel=8)
    groups = {}
    nforms = 0
    rejected = 0
    axes = {}
    neighbourhoods = []
    for tag, items, rej in res:
        rejected += rej
        nb = []
        for axis, t, od, k, dg, q in items:
            nforms += 1
            axes[axis] = axes.get(axis, 0) + 1
            groups.setdefault(k, []).append((axis, t, od, dg, q))
            nb.append((q, od))
        neighbourhoods.append(nb)
    out.states += nforms
    out.part("keys", forms=nforms, distinct_keys=len(groups), rejected=rejected, axes=axes)
    ctx.log("forms=%d distinct keys=%d rejected=%d" % (nforms, len(groups), rejected))
    # (1) equal key => identical source, over all unordered pairs (grouping decides it)
    for k, members in groups.items():
        out.transitions += len(members)
        a = members[0]
        for b in members[1:]:
            if not same_assembler(a[3], b[3]):
                axis = b[0] if b[0] != "base" else a[0]
                if a[2] != b[2]:
                    axis = "on-demand"
                out.add_violation("key-collision:%s" % axis,
                                  "forms %s (on_demand=%s) and %s (on_demand=%s) share one cache key but are different assemblers"
                                  % (a[1], a[2], b[1], b[2]),
                                  {"part": "pair", "a": a[4], "od_a": a[2], "b": b[4], "od_b": b[2], "key": "key-collision:%s" % axis})
                break
    out.nontrivial |= {("key", i) for i in range(len(groups))}
    # (2) request sequences on the real cache
    scases = []
    for nb in neighbourhoods:
        forms = nb[: (16 if ctx.tier == "thorough" else 10)]
        if len(forms) >= 2:
            scases.append({"part": "seq", "forms": forms, "maxlen": 3 if len(forms) <= 6 else 2})
    if ctx.tier == "quick":
        # every third neighbourhood, and always the neighbourhoods of the shipped forms (pre-seeded cache entries)
        shipped = {t for (t, _od) in PREDEFINED_OK}
        scases = [c for k, c in enumerate(scases) if k % 3 == 0 or c["forms"][0][0].get("tag") in shipped]
    for case, (nseq, probs) in zip(scases, par.pmap(_seq_worker, scases, min_parallel=8)):
        out.traces += nseq
        out.transitions += nseq
        out.part("sequences", neighbourhoods=1, sequences=nseq)
        for key, msg in probs:
            out.add_violation(key, msg, case)
    ecases = [{"part": "extend", "prog": b, "on_demand": od} for k, b in enumerate(bases) for od in (False, True)
              if ctx.tier == "thorough" or k % 2 == 0 or b.get("tag") in {t for (t, _od) in PREDEFINED_OK}]
    for case, (n, probs) in zip(ecases, par.pmap(_ext_worker, ecases, min_parallel=8)):
        out.traces += n
        out.transitions += n
        out.part("hash-then-add", forms=1, sequences=n)
        for key, msg in probs:
            out.add_violation(key, msg, case)
    ctx.log("request sequences=%d" % out.traces)
    # (3) freshness / predefined
    seeds = [0, 1, 2, 3, "random"] if ctx.tier == "thorough" else [0, 1, "random"]
    infos = []
    for case, probs in zip([{"part": "fresh", "hashseed": s} for s in seeds],
                           par.pmap(_fresh_worker, [{"part": "fresh", "hashseed": s} for s in seeds], min_parallel=2, chunk=1)):
        out.part("freshness", runs=1)
        out.transitions += 1
        for key, msg in probs:
            if key == "__info__":
                infos.append(json.loads(msg))
            else:
                out.add_violation(key, "PYTHONHASHSEED=%s: %s" % (case["hashseed"], msg), case)
    if len({i["src"] for i in infos}) > 1:
        out.add_violation("fresh:source-depends-on-hashseed", "the generated source of mass_vf(2) differs between PYTHONHASHSEED values", {"part": "fresh", "hashseed": 0})
    elif len({i["modname"] for i in infos}) > 1:
        out.add_violation("fresh:modname", "identical generated source maps to different module names across processes", {"part": "fresh", "hashseed": 0})
    for key, msg in predefined_problems():
        out.add_violation(key, msg, {"part": "predefined"})
    out.part("predefined", forms=14)
    out.evaluations = out.transitions
    out.sample({"base": bases[0]["tag"], "neighbour_axes": sorted(axes)})
    out.sample({"tag": neighbourhoods[len(neighbourhoods) // 2][0][0]["tag"], "terms": neighbourhoods[len(neighbourhoods) // 2][0][0]["terms"]})
    out.rule = ("P = the bounded grammar's programs + every one-token mutant (axes: %s) x on_demand in {False,True}; all unordered "
                "pairs decided by grouping on the real cache key: equal key => identical generated source; all ordered request "
                "sequences of length 2 (3 for neighbourhoods of <= 6 forms) on the real cache with the compiler stubbed; "
                "freshness of the shipped generated files under several hash seeds. Non-trivial = distinct cache keys." % ", ".join(sorted(axes)))
    out.assumptions += ["the C/Cython compiler is stubbed (module object carrying the source); the on-disk module name is checked "
                        "through its defining formula only", "generated source equality is textual"]
    return out
