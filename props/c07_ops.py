"""C07 part B -- geometry operations (E1: depth-bounded enumeration of operation histories, no state merging).

State = the history of operations applied to a pool of real geometry objects (seed, three auxiliary
partners, every object created so far).  Every object carries a *model*: a pure closure evaluating its
mathematical definition (per the docstrings) on a tensor grid, plus kind / sdim / output shape / support.
After every operation
  * the new object equals its model on a point set (1e-12 relative), has the documented class, sdim, support;
  * EVERY pre-existing object is byte-identical to its snapshot (coefficients incl. weights, knot arrays,
    degrees, support) -- "no operation on an existing geometry object alters that object".

Where the documentation is silent the event is not generated: objects with an overridden support only
admit boundary / copy / another restriction; boundary functions only admit boundary.
"""
import itertools
import math

import numpy as np

from ref import tp
from props.c07_funcs import exc_slug, FACES

RTOL = 1e-12


# --------------------------------------------------------------------------------------------------
# model objects
# --------------------------------------------------------------------------------------------------

class M:
    def __init__(self, kind, shape, axes, grid, mag, restricted=False, terminal=False):
        self.kind = kind                  # 'bspline' | 'nurbs' | 'bdfunc'
        self.shape = tuple(shape)         # output shape
        self.axes = [(float(lo), float(hi), tuple(float(b) for b in br)) for lo, hi, br in axes]   # kv order (x LAST)
        self.grid = grid                  # list of 1D point lists (kv order) -> array grid + shape
        self.mag = float(mag)             # magnitude bound of the control data (tolerance scale)
        self.restricted = restricted
        self.terminal = terminal

    @property
    def sdim(self):
        return len(self.axes)

    @property
    def support(self):
        return tuple((lo, hi) for lo, hi, _ in self.axes)

    def vec(self):
        return len(self.shape) == 1

    def scal(self):
        return self.shape == ()


def m_from_spline(obj, kind):
    """model of a seed given by control data: reference evaluation of (knots, degrees, control points, weights)"""
    knots = [np.array(kv.kv, dtype=float) for kv in obj.kvs]
    degs = [int(kv.p) for kv in obj.kvs]
    sp = tp.TPSpace(knots, degs)
    C = np.array(obj.coeffs, dtype=float)
    if kind == "nurbs":
        W = C[..., -1].copy()
        num = C[..., :-1].copy()
        if tuple(obj.output_shape()) == ():
            num = num[..., 0]
        sref = tp.SplineRef(sp, num, W, premultiplied=True)
        mag = float(np.abs(num).max() / W.min())
    else:
        sref = tp.SplineRef(sp, C)
        mag = float(np.abs(C).max())
    axes = [(R.knf[0], R.knf[-1], sorted(set(R.knf))) for R in sp.R]
    return M(kind, sref.oshape, axes, lambda ax: sref.on_grid(ax, want=0)["val"], max(mag, 1.0))


def m_line(x0, x1, support, intervals=1):
    x0 = np.atleast_1d(np.asarray(x0, dtype=float))
    x1 = np.atleast_1d(np.asarray(x1, dtype=float))
    a, b = support

    def grid(ax):
        t = (np.asarray(ax[0], dtype=float) - a) / (b - a)
        return x0 + t[:, None] * (x1 - x0)
    br = [a + (b - a) * k / intervals for k in range(intervals + 1)]
    br[-1] = b
    return M("bspline", (len(x0),), [(a, b, br)], grid, max(1.0, np.abs(x0).max(), np.abs(x1).max()))


def m_identity(d):
    def grid(ax):
        G = np.meshgrid(*[np.asarray(a, dtype=float) for a in ax], indexing="ij")
        return np.stack([G[d - 1 - c] for c in range(d)], axis=-1)          # component c = c-th coordinate, x first
    return M("bspline", (d,), [(0.0, 1.0, (0.0, 1.0))] * d, grid, 1.0)


def _kind2(a, b):
    return "nurbs" if "nurbs" in (a.kind, b.kind) else "bspline"


def m_tensor(m1, m2):
    """G(x, y) = G2(x) x G1(y): parameters of G1 come first in kv order, components of G2 come first"""
    s1 = m1.sdim
    v1 = m1 if m1.vec() else m_as_vector(m1)
    v2 = m2 if m2.vec() else m_as_vector(m2)

    def grid(ax):
        A1 = v1.grid(ax[:s1])
        A2 = v2.grid(ax[s1:])
        g1, g2 = A1.shape[:-1], A2.shape[:-1]
        B1 = np.broadcast_to(A1.reshape(g1 + (1,) * len(g2) + A1.shape[-1:]), g1 + g2 + A1.shape[-1:])
        B2 = np.broadcast_to(A2.reshape((1,) * len(g1) + g2 + A2.shape[-1:]), g1 + g2 + A2.shape[-1:])
        return np.concatenate((B2, B1), axis=-1)
    return M(_kind2(m1, m2), (v1.shape[0] + v2.shape[0],), m1.axes + m2.axes, grid, max(m1.mag, m2.mag))


def m_outer(m1, m2, op):
    """G(x, y) = G1(y) op G2(x), numpy broadcasting between the output shapes"""
    s1 = m1.sdim

    def grid(ax):
        A1 = m1.grid(ax[:s1])
        A2 = m2.grid(ax[s1:])
        g1, g2 = A1.shape[:A1.ndim - len(m1.shape)], A2.shape[:A2.ndim - len(m2.shape)]
        r = max(len(m1.shape), len(m2.shape))          # broadcasting is between the OUTPUT shapes only
        B1 = A1.reshape(g1 + (1,) * len(g2) + (1,) * (r - len(m1.shape)) + m1.shape)
        B2 = A2.reshape((1,) * len(g1) + g2 + (1,) * (r - len(m2.shape)) + m2.shape)
        return B1 + B2 if op == "sum" else B1 * B2
    shape = np.broadcast_shapes(m1.shape, m2.shape)
    mag = m1.mag + m2.mag if op == "sum" else m1.mag * m2.mag
    # matrix-valued results are compared on all routes but not used as operands of further operations
    return M(_kind2(m1, m2), shape, m1.axes + m2.axes, grid, max(1.0, mag), terminal=len(shape) >= 2)


def m_as_vector(m):
    if m.vec():
        return m
    return M(m.kind, (1,), m.axes, lambda ax: m.grid(ax)[..., None], m.mag)


def m_boundary(m, axis, side):
    lo, hi, _ = m.axes[axis]
    c = lo if side == 0 else hi

    def grid(ax):
        full = list(ax[:axis]) + [[c]] + list(ax[axis:])
        return np.take(m.grid(full), 0, axis=axis)
    kind = "bdfunc" if (m.restricted or m.kind == "bdfunc") else m.kind
    return M(kind, m.shape, m.axes[:axis] + m.axes[axis + 1:], grid, m.mag)


def m_restrict(m, box):
    axes = [(lo, hi, [lo] + [b for b in br if lo < b < hi] + [hi]) for (lo, hi), (_, _, br) in zip(box, m.axes)]
    return M(m.kind, m.shape, axes, m.grid, m.mag, restricted=True)


def apply_model(models, ev):
    """-> (new model, list of pool indices it replaces (in-place operation) or None)"""
    op = ev[0]
    if op in ("tensor_product", "outer_sum", "outer_product"):
        a, b = models[ev[1]], models[ev[2]]
        if op == "tensor_product":
            return m_tensor(a, b), None
        return m_outer(a, b, "sum" if op == "outer_sum" else "prod"), None
    m = models[ev[1]]
    if op == "translate":
        v = np.asarray(ev[2], dtype=float)
        return M(m.kind, m.shape, m.axes, lambda ax: m.grid(ax) + v, m.mag + np.abs(v).max()), None
    if op == "scale":
        s = np.asarray(ev[2], dtype=float)
        return M(m.kind, m.shape, m.axes, lambda ax: m.grid(ax) * s, max(1.0, m.mag * np.abs(s).max())), None
    if op in ("apply_matrix", "rotate_2d"):
        if op == "rotate_2d":
            A = np.array([[math.cos(ev[2]), -math.sin(ev[2])], [math.sin(ev[2]), math.cos(ev[2])]])
        else:
            A = np.asarray(ev[2], dtype=float)
        return M(m.kind, (A.shape[0],), m.axes, lambda ax: np.einsum("ij,...j->...i", A, m.grid(ax)),
                 max(1.0, m.mag * np.abs(A).sum(axis=1).max())), None
    if op == "boundary":
        axis, side = parse_bd(ev[2], m.sdim)
        return m_boundary(m, axis, side), None
    if op == "getitem":
        k = ev[2]
        return M(m.kind, (), m.axes, lambda ax: m.grid(ax)[..., k], m.mag), None
    if op == "as_nurbs":      # a NurbsFunc returns itself
        return (m if m.kind == "nurbs" else M("nurbs", m.shape, m.axes, m.grid, m.mag)), None
    if op == "as_vector":     # a vector function returns itself
        return m_as_vector(m), None
    if op == "copy":
        return M(m.kind, m.shape, m.axes, m.grid, m.mag, restricted=m.restricted, terminal=m.restricted), None
    if op == "cylinderize":
        z0, z1, supp = ev[2], ev[3], ev[4]
        return m_tensor(m_line(z0, z1, supp), m), None
    if op == "restrict":      # in place: every pool entry that IS the target object sees the new support
        return m_restrict(m, [tuple(b) for b in ev[2]]), [k for k, x in enumerate(models) if x is m]
    raise ValueError(op)


def parse_bd(spec, d):
    """documented meaning: 'left'/'right' = x low/high, 'bottom'/'top' = y, 'front'/'back' = z; x is the LAST axis"""
    if isinstance(spec, str):
        k = FACES.index(spec)
        return d - 1 - k // 2, k % 2
    return int(spec[0]), int(spec[1])


# --------------------------------------------------------------------------------------------------
# seeds and auxiliary partners
# --------------------------------------------------------------------------------------------------

SEEDS = ("line", "line1", "square", "cube", "qann", "bqann", "arc3", "arc7", "tbox", "quad", "scal", "nscal")
AUX = ("auxL", "auxA", "auxS", "auxM")


def make_seed(name):
    from pyiga import bspline, geometry
    if name == "line":
        return geometry.line_segment((1, 0), (4, 2), support=(1, 2), intervals=2), m_line((1, 0), (4, 2), (1.0, 2.0), 2)
    if name == "line1":
        return geometry.line_segment(3, 5), m_line(3, 5, (0.0, 1.0))
    if name == "square":
        return geometry.unit_square(), m_identity(2)
    if name == "cube":
        return geometry.unit_cube(), m_identity(3)
    if name == "qann":
        g = geometry.quarter_annulus()
        return g, m_from_spline(g, "nurbs")
    if name == "bqann":
        g = geometry.bspline_quarter_annulus(0.5, 2.0)
        return g, m_from_spline(g, "bspline")
    if name == "arc3":
        g = geometry.circular_arc(np.pi / 3, 2.0)
        return g, m_from_spline(g, "nurbs")
    if name == "arc7":
        g = geometry.circular_arc(1.5 * np.pi)
        return g, m_from_spline(g, "nurbs")
    if name == "tbox":
        g = geometry.twisted_box()
        return g, m_from_spline(g, "bspline")
    if name == "quad":          # fixed quadratic patch: repeated knot, shifted non-unit domain
        kvy = bspline.KnotVector(np.array([0, 0, 0, .5, .5, 1, 1, 1.]), 2)
        kvx = bspline.KnotVector(np.array([-1, -1, -1, .25, 2, 2, 2.]), 2)
        I, J = np.indices((5, 4))
        C = np.stack((2.0 * J + ((I * J) % 3) * 0.5 - 1.0, 1.0 * I - ((I + 2 * J) % 4) * 0.25), axis=-1)
        g = bspline.BSplineFunc((kvy, kvx), C)
        return g, m_from_spline(g, "bspline")
    if name == "scal":          # scalar-valued B-spline function of two variables
        kvy = bspline.KnotVector(np.array([0, 0, 1, 1.]), 1)
        kvx = bspline.KnotVector(np.array([0, 0, 0, .5, 1, 1, 1.]), 2)
        C = np.array([[1, -2, 3, 0.5], [0, 4, -1, 2.]])
        g = bspline.BSplineFunc((kvy, kvx), C)
        return g, m_from_spline(g, "bspline")
    if name == "nscal":         # scalar-valued NURBS curve
        kv = bspline.KnotVector(np.array([0, 0, 0, .5, 1, 1, 1.]), 2)
        g = geometry.NurbsFunc(kv, np.array([1, -2, 3, 0.5]), np.array([1, 2, .5, 1.]))
        return g, m_from_spline(g, "nurbs")
    if name == "auxL":
        return geometry.line_segment(0.5, 2.0), m_line(0.5, 2.0, (0.0, 1.0))
    if name == "auxA":
        g = geometry.circular_arc(np.pi / 2, 1.5)
        return g, m_from_spline(g, "nurbs")
    if name == "auxS":
        kv = bspline.KnotVector(np.array([0, 0, 0, 1, 1, 1.]), 2)
        g = bspline.BSplineFunc(kv, np.array([2.0, -1.0, 0.5]))
        return g, m_from_spline(g, "bspline")
    if name == "auxM":          # matrix-valued (2x2) curve: value shapes of different rank meet in outer_sum/outer_product
        kv = bspline.KnotVector(np.array([0, 0, 0, 1, 1, 1.]), 2)
        C = np.array([[[1.0, -2.0], [0.5, 3.0]], [[0.0, 1.5], [-1.0, 2.0]], [[2.5, 0.25], [4.0, -0.5]]])
        g = bspline.BSplineFunc(kv, C)
        return g, m_from_spline(g, "bspline")
    raise ValueError(name)


NAUX = len(AUX)          # pool layout: [seed, auxL, auxA, auxS, created objects...]


# --------------------------------------------------------------------------------------------------
# event alphabet (decided on the models only)
# --------------------------------------------------------------------------------------------------

_V1 = (1.5, -2.0, 0.25, 3.0, -1.0, 0.5)
_V2 = (-0.75, 4.0, 2.5, -3.0, 1.25, -0.5)
_S2 = (3.0, 0.5, -1.0, 2.0, -0.25, 1.5)


def _matrix(rows, cols):
    return [[float(((3 * i + 5 * j + 1) % 7) - 3) + (0.5 if i == j else 0.0) for j in range(cols)] for i in range(rows)]


def _box(m):
    return [[lo + 0.25 * (hi - lo), hi - 0.125 * (hi - lo)] for lo, hi, _ in m.axes]


def _bdspecs(d):
    out = [FACES[k] for k in range(2 * d)]
    out += [[a, s] for a in range(d) for s in (0, 1)]
    return out


def unary_events(m, t, level):
    """level 'full' | 'reduced' (third step / bystander targets)"""
    full = level == "full"
    evs = []
    if m.terminal:
        return evs
    d = m.sdim
    if m.kind == "bdfunc":
        if d >= 2:
            evs += [["boundary", t, s] for s in (_bdspecs(d) if full else ["right", [0, 0]])]
        return evs
    if m.restricted:
        if d >= 2:
            evs += [["boundary", t, s] for s in (_bdspecs(d) if full else ["right", [0, 0]])]
        evs.append(["copy", t])
        if full:
            evs.append(["restrict", t, [[lo + 0.25 * (hi - lo), hi - 0.25 * (hi - lo)] for lo, hi, _ in m.axes]])
        return evs
    dim = m.shape[0] if m.vec() else None
    if m.vec():
        evs.append(["translate", t, list(_V1[:dim])])
        if full:
            evs.append(["translate", t, list(_V2[:dim])])
            evs.append(["scale", t, -1.0])
        evs.append(["scale", t, list(_S2[:dim])])
        if dim == 2:
            evs.append(["rotate_2d", t, math.pi / 4])
            if full:
                evs.append(["rotate_2d", t, -2.0])
        if full:
            evs.append(["apply_matrix", t, _matrix(dim, dim)])
        evs.append(["apply_matrix", t, _matrix(dim + 1 if dim < 3 else dim - 1, dim)])
        ks = range(dim) if full else [dim - 1]
        evs += [["getitem", t, k] for k in ks]
    elif m.scal():
        evs.append(["translate", t, 1.5])
        evs.append(["scale", t, -2.0])
        if full:
            evs.append(["translate", t, -0.75])
    if d >= 2:
        evs += [["boundary", t, s] for s in (_bdspecs(d) if full else ["right", [0, 0]])]
    evs.append(["as_nurbs", t])
    evs.append(["as_vector", t])
    evs.append(["copy", t])
    if m.kind == "bspline" and d <= 2 and len(m.shape) <= 1:
        evs.append(["cylinderize", t, 0.0, 1.0, [0.0, 1.0]])
        if full:
            evs.append(["cylinderize", t, -1.0, 2.5, [1.0, 3.0]])
    evs.append(["restrict", t, _box(m)])
    return evs


def _plain(m):
    return m.kind in ("bspline", "nurbs") and not m.restricted and not m.terminal


def binary_events(models, t, partners, level):
    evs = []
    m = models[t]
    if not _plain(m):
        return evs
    for q in partners:
        mq = models[q]
        if not _plain(mq) or m.sdim + mq.sdim > 3:
            continue
        orders = [(t, q)] if q == t else [(t, q), (q, t)]
        if level != "full":
            orders = orders[:1] if (t + q) % 2 else orders[-1:]
        for a, b in orders:
            ma, mb = models[a], models[b]
            if len(ma.shape) <= 1 and len(mb.shape) <= 1:
                evs.append(["tensor_product", a, b])
            try:
                np.broadcast_shapes(ma.shape, mb.shape)
            except ValueError:
                continue
            evs.append(["outer_sum", a, b])
            if level == "full":
                evs.append(["outer_product", a, b])
    return evs


def enabled(models, step, depth):
    """events offered in a state.  step = index of the operation about to be applied (0-based)."""
    latest = len(models) - 1 if len(models) > 1 + NAUX else 0
    level = "full" if step < 2 else "reduced"
    evs = unary_events(models[latest], latest, level)
    partners = [latest] + list(range(1, 1 + NAUX)) + ([0] if latest != 0 else [])
    if level != "full":
        partners = [latest, 1 + (step + latest) % NAUX] + ([0] if latest != 0 else [])
    evs += binary_events(models, latest, partners, level)
    if latest != 0:
        # the seed again, with the objects derived from it as bystanders
        evs += unary_events(models[0], 0, "reduced")
        # every older created object once (aliasing between siblings)
        for t in range(1 + NAUX, latest):
            evs += unary_events(models[t], t, "reduced")[:2]
    return evs


# --------------------------------------------------------------------------------------------------
# execution on the real code
# --------------------------------------------------------------------------------------------------

def snapshot(o):
    from pyiga import geometry
    if isinstance(o, geometry._BoundaryFunction):
        return ("bdfunc", id(o.f), repr(o.fixed_coord), o.axis, repr(tuple(map(tuple, o.support))), o.dim, o.sdim)
    parts = [type(o).__name__, o.coeffs.shape, str(o.coeffs.dtype), o.coeffs.tobytes()]
    for kv in o.kvs:
        parts += [int(kv.p), np.asarray(kv.kv).tobytes()]
    parts.append(repr(tuple(tuple(float(x) for x in s) for s in o.support)))
    parts.append(repr(o._support_override))
    parts.append((o.sdim, repr(o.dim)))
    return tuple(parts)


def snapshot_diff(a, b):
    if a[0] == "bdfunc":
        return "boundary-function fields"
    names = ["class", "coeffs.shape", "coeffs.dtype", "coeffs (incl. weights)"]
    k = 4
    while k < len(a) - 3:
        names += ["degree", "knot array"]
        k += 2
    names += ["support", "_support_override", "sdim/dim"]
    return ", ".join(n for n, x, y in zip(names, a, b) if x != y) or "length"


def apply_real(objs, ev):
    from pyiga import geometry
    op = ev[0]
    if op == "tensor_product":
        return geometry.tensor_product(objs[ev[1]], objs[ev[2]])
    if op == "outer_sum":
        return geometry.outer_sum(objs[ev[1]], objs[ev[2]])
    if op == "outer_product":
        return geometry.outer_product(objs[ev[1]], objs[ev[2]])
    o = objs[ev[1]]
    if op == "translate":
        v = ev[2]
        return o.translate(tuple(v) if isinstance(v, list) and len(v) % 2 else (np.array(v) if isinstance(v, list) else v))
    if op == "scale":
        s = ev[2]
        return o.scale(tuple(s) if isinstance(s, list) else s)
    if op == "rotate_2d":
        return o.rotate_2d(ev[2])
    if op == "apply_matrix":
        return o.apply_matrix(np.array(ev[2]))
    if op == "boundary":
        return o.boundary(ev[2] if isinstance(ev[2], str) else tuple(ev[2]))
    if op == "getitem":
        return o[ev[2]]
    if op == "as_nurbs":
        return o.as_nurbs()
    if op == "as_vector":
        return o.as_vector()
    if op == "copy":
        return o.copy()
    if op == "cylinderize":
        if (ev[2], ev[3], list(ev[4])) == (0.0, 1.0, [0.0, 1.0]):
            return o.cylinderize()
        return o.cylinderize(ev[2], ev[3], support=tuple(ev[4]))
    if op == "restrict":
        o.support = tuple(tuple(b) for b in ev[2])
        return o
    raise ValueError(op)


def test_axes(m):
    axes = []
    for lo, hi, br in m.axes:
        pts = {lo, hi, lo + 0.3 * (hi - lo)}
        inner = [b for b in br if lo < b < hi]
        pts |= set(inner)
        seq = [lo] + inner + [hi]
        pts |= {(a + b) / 2 for a, b in zip(seq[:-1], seq[1:])}
        axes.append(sorted(pts))
    return axes


def compare(o, m, opname, probs, calls):
    """new (or modified) object against its model"""
    from pyiga import bspline, geometry
    key = "ops:%s" % opname
    cls = {"bspline": bspline.BSplineFunc, "nurbs": geometry.NurbsFunc, "bdfunc": geometry._BoundaryFunction}[m.kind]
    if type(o) is not cls:
        probs.append((key + ":class", "result is a %s, documented: %s" % (type(o).__name__, cls.__name__)))
    try:
        if o.sdim != m.sdim:
            probs.append((key + ":sdim", "sdim=%r, expected %d" % (o.sdim, m.sdim)))
            return
        supp = tuple(tuple(float(x) for x in s) for s in o.support)
        if supp != m.support:
            probs.append((key + ":support", "support=%r, expected %r" % (supp, m.support)))
            return
        axes = test_axes(m)
        ref = m.grid(axes)
        calls[0] += 1
        got = np.asarray(o.grid_eval(tuple(np.array(a) for a in axes)), dtype=float)
        tolerated = False
        if got.shape != ref.shape:
            # a scalar function coming back with a component axis of length 1 is still "scalar-valued" in the
            # words of the class docstring: tolerated (noted), values must agree
            if m.shape == () and got.shape == ref.shape + (1,):
                got = got[..., 0]
                tolerated = True
            else:
                probs.append((key + ":shape", "grid_eval has shape %s, expected %s (output shape %s)" % (got.shape, ref.shape, m.shape)))
                return
        scale = max(float(np.abs(ref).max()), m.mag)
        err = float(np.abs(got - ref).max()) if ref.size else 0.0
        if not np.all(np.isfinite(got)) or err > RTOL * scale:
            probs.append((key + ":value", "grid_eval deviates from the documented map by %.3g (scale %.3g)" % (err, scale)))
            return
        # single points through __call__ (x first)
        d = m.sdim
        for t in (tuple(0 for _ in axes), tuple(len(a) // 2 for a in axes), tuple((len(a) - 1 - k) % len(a) for k, a in enumerate(axes))):
            args = [float(axes[d - 1 - c][t[d - 1 - c]]) for c in range(d)]
            calls[0] += 1
            v = np.asarray(o(*args), dtype=float)
            if tolerated and v.shape == (1,):
                v = v[0]
            if v.shape != ref[t].shape:
                probs.append((key + ":call:shape", "f(*%r) has shape %s, expected %s" % (args, v.shape, ref[t].shape)))
                break
            if np.abs(v - ref[t]).max() > RTOL * scale if v.size else False:
                probs.append((key + ":call:value", "f(*%r) deviates from the documented map by %.3g" % (args, np.abs(v - ref[t]).max())))
                break
        return "scalar->(1,)" if tolerated else None
    except Exception as e:
        probs.append(("exception:%s" % exc_slug(e), "evaluating the result of %s raised %r" % (opname, e)))


class Pool:
    def __init__(self, seed):
        self.seed = seed
        self.objs, self.models = [], []
        for name in (seed,) + AUX:
            o, m = make_seed(name)
            self.objs.append(o)
            self.models.append(m)
        self.snaps = [snapshot(o) for o in self.objs]
        self.calls = [0]
        self.notes = set()

    def step(self, ev, check=True):
        """apply one event to the real pool and the model; returns the problems of this transition"""
        probs = []
        m2, replaces = apply_model(self.models, ev)
        try:
            o2 = apply_real(self.objs, ev)
        except Exception as e:
            if isinstance(e, NotImplementedError) or (isinstance(e, AssertionError) and "not implemented" in str(e).lower()):
                return probs, False         # explicit refusal (e.g. tensor-valued NURBS functions): nothing is claimed
            if ev[0] in ("outer_sum", "outer_product", "tensor_product"):
                # one key per operand pattern (the same defect surfaces at different places for the two orders)
                pat = "-x-".join(sorted({0: "scalar", 1: "vector", 2: "matrix"}[len(self.models[k].shape)] for k in ev[1:3]))
                fam = "outer" if ev[0].startswith("outer") else ev[0]
                probs.append(("ops:%s[%s,%s]:exception" % (fam, pat, _kind2(self.models[ev[1]], self.models[ev[2]])),
                              "%s of functions with output shapes %s and %s raised %r"
                              % (ev[0], self.models[ev[1]].shape, self.models[ev[2]].shape, e)))
            else:
                probs.append(("ops:%s:exception:%s" % (ev[0], exc_slug(e)), "%s raised %r" % (ev[0], e)))
            return probs, False
        self.calls[0] += 1
        if replaces is None:
            self.objs.append(o2)
            self.models.append(m2)
        else:
            # in-place operation (support setter): every pool entry that IS the target object sees it -- as_vector /
            # as_nurbs may have returned their argument itself
            replaces = [k for k, o in enumerate(self.objs) if o is o2]
            for k in replaces:
                self.models[k] = m2 if self.models[k] is self.models[ev[1]] or k == ev[1] else m_restrict(self.models[k], [tuple(b) for b in ev[2]])
        if check:
            note = compare(o2, m2, ev[0], probs, self.calls)
            if note:
                self.notes.add("%s: scalar-valued %s returned with output shape (1,) instead of ()" % (ev[0], type(o2).__name__))
        # no operation alters an existing object
        for k, (o, s) in enumerate(zip(self.objs[:len(self.snaps)], self.snaps)):
            now = snapshot(o)
            if replaces is not None and k in replaces:
                # the support setter changes the support of its target and nothing else
                if now[:-3] != s[:-3]:
                    probs.append(("ops:restrict:mutates-data", "the support setter altered %s of its target" % snapshot_diff(s, now)))
                self.snaps[k] = now
            elif now != s:
                who = "the seed" if k == 0 else ("auxiliary object %d" % k if k <= NAUX else "object created by step %d" % (k - NAUX))
                probs.append(("ops:%s:mutates-existing-object" % ev[0], "%s altered %s of %s" % (ev[0], snapshot_diff(s, now), who)))
                self.snaps[k] = now
        if replaces is None:
            self.snaps.append(snapshot(o2))
        return probs, True

    def pop(self):
        self.objs.pop()
        self.models.pop()
        self.snaps.pop()


def run_history(seed, history):
    """explorer-free oracle: execute the whole history, checking every transition"""
    pool = Pool(seed)
    out = []
    for k, ev in enumerate(history):
        probs, ok = pool.step(ev)
        out += probs
        if not ok:
            break
    return out, pool


def dedupe(probs):
    seen, out = set(), []
    for k, m in probs:
        if k not in seen:
            seen.add(k)
            out.append((k, m))
    return out


def expand_prefix(args):
    """worker: execute a prefix (checked), then every enabled last event; returns
    (list of (history, problems), transitions, maximal traces, notes, calls)"""
    seed, prefix, depth = args
    results = []
    pool = Pool(seed)
    trans = traces = 0
    for k, ev in enumerate(prefix):
        probs, ok = pool.step(ev)
        trans += 1
        if probs:
            results.append((prefix[:k + 1], dedupe(probs)))
        if not ok:
            return results, trans, 1, sorted(pool.notes), pool.calls[0]
    if len(prefix) >= depth:
        return results, trans, 1, sorted(pool.notes), pool.calls[0]
    evs = enabled(pool.models, len(prefix), depth)
    if not evs:
        traces = 1
    notes = set(pool.notes)
    calls = pool.calls[0]
    for ev in evs:
        nobj = len(pool.objs)
        probs, ok = pool.step(ev)
        trans += 1
        traces += 1
        if probs:
            results.append((prefix + [ev], dedupe(probs)))
        dirty = ev[0] == "restrict" or any("mutates" in k for k, _ in probs)
        if dirty:
            notes |= pool.notes
            calls += pool.calls[0]
            pool = Pool(seed)
            pool.calls = [0]
            for e in prefix:
                pool.step(e, check=False)
            pool.calls = [0]
        elif len(pool.objs) > nobj:
            pool.pop()
    notes |= pool.notes
    calls += pool.calls[0]
    return results, trans, traces, sorted(notes), calls


def prefixes(seed, depth):
    """all histories of length depth-1 (model-level enumeration), plus shorter maximal ones; also returns the
    number of distinct histories of every length (states of the history tree)"""
    pool = Pool(seed)
    counts = [1] + [0] * depth
    out = []

    def rec(models, hist):
        if len(hist) == depth - 1:
            out.append(list(hist))
            return
        evs = enabled(models, len(hist), depth)
        if not evs:
            out.append(list(hist))
            return
        for ev in evs:
            m2, rep = apply_model(models, ev)
            ms = list(models)
            if rep is None:
                ms.append(m2)
            else:
                for k in rep:
                    ms[k] = m2
            counts[len(hist) + 1] += 1
            rec(ms, hist + [ev])
    rec(pool.models, [])
    return out, counts


def check_ops(case):
    probs, pool = run_history(case["seed"], case["history"])
    return dedupe(probs)
