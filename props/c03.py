"""C03 -- hierarchical assembly is the level-wise Galerkin restriction of tensor-product assembly.

E1 on the C04 state graphs: for EVERY reachable state of the rows below x form x geometry x basis
(HB/THB) x symmetric flag, the matrix/vector assembled over the hierarchical space is compared entry by entry
with the level-wise oracle  A[i,j] = (R_l^T A_l R_l)[i,j],  l = finer of the two levels, where A_l is the
tensor-product assembly on level l (decided by C01) and R_l the REFERENCE representation matrix
(ref/hmodel.py); for integrands that are piecewise polynomial of degree <= 2p+1 additionally with
I^T A_fine I; THB = congruence with the THB->HB transform; symmetric == general assembly.
"""
import os
import sys

import numpy as np

from mc import par
from mc.outcome import Outcome

ID = "C03"
LEVEL = "model_checking"
TOL = 1e-11


def rows_cfg(tier):
    R = []
    def add(name, k, L, p, disp, tmark=False):
        R.append({"row": name, "k": list(k), "L": L, "p": list(p), "disparity": disp, "mark_truncate": tmark, "maxmark": None})
    if tier == "quick":
        add("1D-k3-L2", (3,), 2, (2,), "inf")
        add("1D-k2-L3", (2,), 3, (1,), 1)
        # refine(..., truncate=True): the marking only bounds the interactions of the *truncated* basis, HB functions
        # interact across more levels than the disparity of the space
        add("1D-k2-L3", (2,), 3, (2,), 1, tmark=True)
        add("2D-2x1-L2", (2, 1), 2, (2, 2), "inf")
    else:
        add("1D-k2-L3", (2,), 3, (2,), 1, tmark=True)
        add("1D-k2-L3", (2,), 3, (3,), 1, tmark=True)
        add("1D-k2-L3", (2,), 3, (3,), 2, tmark=True)
        add("2D-2x1-L2", (2, 1), 2, (2, 2), 1, tmark=True)
        for p in (1, 2, 3):
            add("1D-k3-L2", (3,), 2, (p,), "inf")
        add("1D-k2-L3", (2,), 3, (2,), "inf")
        add("1D-k2-L3", (2,), 3, (1,), 1)
        add("1D-k2-L3", (2,), 3, (2,), 2)
        add("2D-2x1-L2", (2, 1), 2, (2, 2), "inf")
        add("2D-2x1-L2", (2, 1), 2, (1, 1), 1)
        add("2D-2x1-L2", (2, 1), 2, (2, 1), "inf")
        add("2D-2x2-L1", (2, 2), 1, (3, 2), "inf")
    return R


def _refine(hs, marks):
    """refine the way the row prescribes (plain or THB-admissible marking)"""
    from props import c04
    if c04._G["cfg"].get("mark_truncate"):
        return hs.refine(marks, truncate=True)
    return hs.refine(marks)


FORMS = ["mass", "stiffness", "laplace_str", "convection", "reaction_f", "functional", "functional_para"]
SYMMETRIC_FORMS = {"mass", "stiffness", "laplace_str", "reaction_f"}
GEOS = ["identity", "affine", "curved"]


def make_form(name, dim):
    """(problem, extra args, arity); problem is a VForm or a string"""
    from pyiga import vform
    if name == "mass":
        return vform.mass_vf(dim), {}, 2
    if name == "stiffness":
        return vform.stiffness_vf(dim), {}, 2
    if name == "laplace_str":
        return "inner(grad(u), grad(v)) * dx", {}, 2
    if name == "convection":
        b = tuple([1.0, -0.5][:dim]) if dim <= 2 else (1.0, -0.5, 0.3)
        return "inner(grad(u), b) * v * dx", {"b": np.array(b)}, 2
    if name == "reaction_f":
        return "f * u * v * dx", {"f": _field(dim, False)}, 2
    if name == "functional":
        return vform.L2functional_vf(dim, physical=True), {"f": _field(dim, True)}, 1
    if name == "functional_para":
        return vform.L2functional_vf(dim, physical=False), {"f": _field(dim, False)}, 1
    raise ValueError(name)


def _field(dim, physical):
    from pyiga import bspline
    if physical:
        return (lambda *X: 1.0 + sum((i + 1) * x for i, x in enumerate(X)))       # degree-1 polynomial
    kv = bspline.make_knots(1, 0.0, 1.0, 1)
    C = np.arange(1.0, 2 ** dim + 1).reshape((2,) * dim) * 0.5                    # multilinear field
    return bspline.BSplineFunc((kv,) * dim, C)


def make_geo(name, dim):
    from pyiga import bspline, geometry
    if name == "identity":
        return geometry.unit_square() if dim == 2 else geometry.line_segment(0.0, 1.0)
    if name == "affine":
        if dim == 1:
            return geometry.line_segment(0.5, 2.5)
        return geometry.unit_square().apply_matrix(np.array([[1.5, 0.4], [0.2, 0.8]])).translate((0.3, -0.2))
    if name == "curved":
        if dim == 1:
            kq = bspline.make_knots(2, 0.0, 1.0, 1)
            return bspline.BSplineFunc((kq,), np.array([[0.0], [0.4], [1.5]]))
        return geometry.quarter_annulus()
    raise ValueError(name)


def polynomial_exact(form, geo):
    """is the integrand piecewise polynomial of degree <= 2p+1 per direction (Gauss rule exact on every level)?"""
    if geo == "curved":
        return False
    return True     # affine maps: constant Jacobian; fields of degree 1; products stay within 2p+1


class _Quiet:
    def __enter__(self):
        sys.stdout.flush(); sys.stderr.flush()
        self.saved = (os.dup(1), os.dup(2))
        self.null = os.open(os.devnull, os.O_WRONLY)
        os.dup2(self.null, 1); os.dup2(self.null, 2)

    def __exit__(self, *a):
        sys.stdout.flush(); sys.stderr.flush()
        os.dup2(self.saved[0], 1); os.dup2(self.saved[1], 2)
        os.close(self.saved[0]); os.close(self.saved[1]); os.close(self.null)


_TP = {}


def tp_assembly(cfg, form, geoname, lv):
    """tensor-product assembly on level lv (cached per worker)"""
    from pyiga import assemble
    from props import c04
    key = (cfg["row"], tuple(cfg["p"]), form, geoname, lv)
    if key not in _TP:
        M = c04._G["model"]
        from pyiga import bspline
        kvs = tuple(bspline.KnotVector(np.array(M.knots(lv, d)), M.degs[d]) for d in range(M.dim))
        problem, extra, arity = make_form(form, M.dim)
        geo = make_geo(geoname, M.dim)
        with _Quiet():
            A = assemble.assemble(problem, kvs, geo=geo, **extra)
        _TP[key] = np.asarray(A.todense()) if arity == 2 else np.asarray(A).reshape(-1)
    return _TP[key]


def state_problems(case):
    from pyiga import assemble, hierarchical
    from props import c04
    cfg = case["cfg"]
    c04.setup(cfg)
    hist = [tuple((lv, tuple(c)) for lv, c in ev) for ev in case["history"]]
    st = c04.build(hist)
    if st.error:
        return 0, []
    M = c04._G["model"]
    L = st.hs.numlevels
    refined = st.refined
    actf, _ = M.functions(refined, L)
    levels = [l for l in range(L) for _ in actf[l]]
    n = len(levels)
    probs = []
    ncmp = 0
    bds = case.get("bdspecs", "none")
    for form in case["forms"]:
        problem, extra, arity = make_form(form, M.dim)
        for geoname in case["geos"]:
            geo = make_geo(geoname, M.dim)
            # level-wise oracle
            if arity == 2:
                ref = np.zeros((n, n))
                lv_i = np.array(levels)
                for l in range(L):
                    Rl = M.rep_hb(refined, L, l)
                    nl = sum(len(actf[k]) for k in range(l + 1))
                    Ml = Rl[:, :nl].T @ tp_assembly(cfg, form, geoname, l) @ Rl[:, :nl]
                    mask = (np.maximum.outer(lv_i[:nl], lv_i[:nl]) == l)
                    ref[:nl, :nl][mask] = Ml[mask]
            else:
                ref = np.zeros(n)
                pos = 0
                for l in range(L):
                    bl = tp_assembly(cfg, form, geoname, l)
                    idx = [M.ravel_fun(l, f) for f in sorted(actf[l])]
                    ref[pos:pos + len(idx)] = bl[idx]
                    pos += len(idx)
            scale = max(np.abs(ref).max(), 1e-300)
            for truncate in (False, True):
                try:
                    bdspecs = {"none": None, "empty": [], "all": [(a, s) for a in range(M.dim) for s in (0, 1)], "one": [(0, 0)]}[bds]
                    hs = hierarchical.HSpace(c04._G["kvs"], truncate=truncate, disparity=c04._G["disp"], bdspecs=bdspecs)
                    for ev in hist:
                        marks, _ = c04.marks_of(ev)
                        _refine(hs, marks)
                    T = hs.thb_to_hb().toarray() if truncate else None
                    want = ref if not truncate else (T.T @ ref @ T if arity == 2 else T.T @ ref)
                    tag = "thb" if truncate else "hb"
                    syms = (False, True) if (arity == 2 and form in SYMMETRIC_FORMS) else (False,)
                    for sym in syms:
                        problem, extra, arity = make_form(form, M.dim)
                        with _Quiet():
                            A = assemble.assemble(problem, hs, geo=geo, symmetric=sym, **dict(extra))
                        got = np.asarray(A.todense()) if arity == 2 else np.asarray(A).reshape(-1)
                        ncmp += 1
                        if got.shape != want.shape:
                            probs.append(("hier:%s:%s:shape" % (form, tag), "assembled shape %s, expected %s" % (got.shape, want.shape)))
                            continue
                        err = np.abs(got - want).max()
                        if not err <= TOL * scale:
                            where = np.unravel_index(int(np.argmax(np.abs(got - want))), got.shape)
                            lv_pair = tuple(levels[w] for w in where)
                            kind = "symmetric" if sym else "general"
                            rel = "same-level" if len(set(lv_pair)) == 1 else "interlevel"
                            probs.append(("hier:%s:%s:%s:%s" % ("matrix" if arity == 2 else "vector", tag, kind, rel),
                                          "%s on %s geometry: entry %s (levels %s) deviates from the level-wise Galerkin value by %.3g (scale %.3g)"
                                          % (form, geoname, where, lv_pair, err, scale)))
                    # polynomial integrands: equals I^T A_fine I with the finest-level assembly
                    if polynomial_exact(form, geoname) and not truncate:
                        R = M.rep_hb(refined, L)
                        fine = tp_assembly(cfg, form, geoname, L - 1)
                        want2 = R.T @ fine @ R if arity == 2 else R.T @ fine
                        # NB: for the functional the level-k quadrature of a level-k function is exact as well
                        ncmp += 1
                        if not np.abs(got_general(form, M.dim, hs, geo) - want2).max() <= 1e-10 * max(np.abs(want2).max(), 1e-300):
                            probs.append(("hier:%s:fine-galerkin" % ("matrix" if arity == 2 else "vector"),
                                          "%s on %s geometry: polynomial integrand, but the result differs from I^T A_fine I" % (form, geoname)))
                except Exception as e:
                    import traceback
                    tb = traceback.extract_tb(e.__traceback__)
                    if tb[-1].filename.startswith("/verif/"):
                        raise
                    probs.append(("hier:exception:%s" % type(e).__name__, "%s on %s (truncate=%s, bdspecs=%s) raised %r at %s:%d"
                                  % (form, geoname, truncate, bds, e, tb[-1].filename.split("/")[-1], tb[-1].lineno)))
    # warm-object history: assemble, refine the SAME object once more (last event of the history), assemble again;
    # must equal the assembly over a freshly built space
    if hist and "mass" in case["forms"]:
        try:
            geo = make_geo("identity", M.dim)
            hs_f = hierarchical.HSpace(c04._G["kvs"], truncate=False, disparity=c04._G["disp"], bdspecs=[(0, 0)])
            for ev in hist:
                _refine(hs_f, c04.marks_of(ev)[0])
            A_f = got_general("mass", M.dim, hs_f, geo)
            # variants of the last refinement call: (a) as recorded, (b) split into two calls (first cell, then the
            # rest) so that the second call does not add a level -- with an assembly in between every two calls
            last = hist[-1]
            variants = [[last]]
            if len(last) >= 2:
                variants.append([last[:1], last[1:]])
                variants.append([last[-1:], last[:-1]])
            for var in variants:
                hs_w = hierarchical.HSpace(c04._G["kvs"], truncate=False, disparity=c04._G["disp"], bdspecs=[(0, 0)])
                for ev in hist[:-1]:
                    _refine(hs_w, c04.marks_of(ev)[0])
                for ev in var:
                    got_general("mass", M.dim, hs_w, geo)
                    hs_w.dirichlet_dofs()
                    cells = [(lv, c) for lv, c in ev if lv < hs_w.numlevels and tuple(c) in {tuple(int(x) for x in cc) for cc in hs_w.active_cells(lv)}]
                    if cells:
                        _refine(hs_w, c04.marks_of(tuple(cells))[0])
                A_w = got_general("mass", M.dim, hs_w, geo)
                ncmp += 1
                if A_w.shape != A_f.shape or np.abs(A_w - A_f).max() > TOL * max(np.abs(A_f).max(), 1e-300):
                    if hs_w.numdofs == hs_f.numdofs or len(var) == 1:
                        probs.append(("hier:warm-object", "assembling, refining the same space object again (%d call(s)) and assembling "
                                      "again gives a different matrix than assembling over the freshly built space (stale index caches)" % len(var)))
                        break
        except Exception as e:
            import traceback
            tb = traceback.extract_tb(e.__traceback__)
            if tb[-1].filename.startswith("/verif/"):
                raise
            probs.append(("hier:warm-object:exception:%s" % type(e).__name__, "%r" % (e,)))
    # discretization object reused after a failed call: an assembly that raises (an input is missing) must leave the
    # object in a state from which the corrected call gives the same result as a fresh object
    if "reaction_f" in case["forms"]:
        try:
            from pyiga import vform
            geo = make_geo("identity", M.dim)

            def reaction_vf():
                vf = vform.VForm(M.dim)
                u, v = vf.basisfuns()
                f = vf.input("f")
                vf.add(f * u * v * vform.dx)
                return vf
            for truncate in (False, True):
                hs = hierarchical.HSpace(c04._G["kvs"], truncate=truncate, disparity=c04._G["disp"], bdspecs=[(0, 0)])
                for ev in hist:
                    _refine(hs, c04.marks_of(ev)[0])
                with _Quiet():
                    fresh = hierarchical.HDiscretization(hs, reaction_vf(), {"geo": geo, "f": _field(M.dim, False)})
                    A_f = np.asarray(fresh.assemble_matrix().todense())
                    b_f = np.asarray(fresh.assemble_rhs(vform.L2functional_vf(M.dim, physical=False))).ravel()
                    hd = hierarchical.HDiscretization(hs, reaction_vf(), {"geo": geo})
                    failed = False
                    try:
                        hd.assemble_matrix()
                    except Exception:
                        failed = True
                    hd.asm_args["f"] = _field(M.dim, False)
                    A_r = np.asarray(hd.assemble_matrix().todense())
                    b_r = np.asarray(hd.assemble_rhs(vform.L2functional_vf(M.dim, physical=False))).ravel()
                ncmp += 1
                if failed and (A_r.shape != A_f.shape or np.abs(A_r - A_f).max() > TOL * max(np.abs(A_f).max(), 1e-300)
                               or np.abs(b_r - b_f).max() > TOL * max(np.abs(b_f).max(), 1e-300)):
                    probs.append(("hier:retry-after-failed-call:%s" % ("thb" if truncate else "hb"),
                                  "HDiscretization whose first assemble_matrix() raised (input 'f' missing): after supplying the input, "
                                  "the same object assembles a different matrix/vector than a fresh object (max deviation %.3g / %.3g)"
                                  % (np.abs(A_r - A_f).max() if A_r.shape == A_f.shape else np.inf, np.abs(b_r - b_f).max())))
        except Exception as e:
            import traceback
            tb = traceback.extract_tb(e.__traceback__)
            if tb[-1].filename.startswith("/verif/"):
                raise
            probs.append(("hier:retry-after-failed-call:exception:%s" % type(e).__name__, "%r" % (e,)))
    seen, out = set(), []
    for k, m in probs:
        if k not in seen:
            seen.add(k)
            out.append((k, m))
    return ncmp, out


def got_general(form, dim, hs, geo):
    from pyiga import assemble
    problem, extra, arity = make_form(form, dim)
    with _Quiet():
        A = assemble.assemble(problem, hs, geo=geo, **dict(extra))
    return np.asarray(A.todense()) if arity == 2 else np.asarray(A).reshape(-1)


def check_case(case):
    return state_problems(case)[1]


def _w(case):
    return state_problems(case)


def _graph_worker(cfg):
    from props import c04
    g = c04.state_graph(cfg, check=False, workers=1)
    return cfg, sorted(g.rep.values(), key=lambda h: (len(h), repr(h)))


def _warm(item):
    """compile the on-demand assemblers once per tree (cached on disk)"""
    from pyiga import assemble, hierarchical, bspline
    form, dim = item
    kv = bspline.make_knots(2, 0.0, 1.0, 2)
    hs = hierarchical.HSpace((kv,) * dim)
    hs.refine({0: [(0,) * dim]})
    problem, extra, arity = make_form(form, dim)
    with _Quiet():
        assemble.assemble(problem, hs, geo=make_geo("identity", dim), **extra)
        problem, extra, arity = make_form(form, dim)      # a VForm object can only be compiled once
        assemble.assemble(problem, (kv,) * dim, geo=make_geo("identity", dim), **extra)
    return True


def run(ctx):
    out = Outcome()
    cfgs = rows_cfg(ctx.tier)
    dims = sorted({len(c["k"]) for c in cfgs})
    par.pmap(_warm, [(f, d) for f in FORMS for d in dims], min_parallel=2, chunk=1)
    ctx.log("assemblers compiled/cached")
    graphs = par.pmap(_graph_worker, cfgs, min_parallel=2, chunk=1)
    cases = []
    for cfg, hists in graphs:
        out.states += len(hists)
        out.traces += len(hists)
        out.part(cfg["row"], states=len(hists))
        dim = len(cfg["k"])
        for i, hist in enumerate(hists):
            h = [[[lv, list(c)] for lv, c in ev] for ev in hist]
            if ctx.tier == "quick":
                # every state gets every form; geometries and bdspecs rotate deterministically over the states
                geos = [GEOS[i % 3]] if dim == 2 else [GEOS[i % 3], GEOS[(i + 1) % 3]]
                forms = FORMS if dim == 1 else [FORMS[j] for j in range(len(FORMS)) if (i + j) % 2 == 0]
            else:
                geos, forms = GEOS, FORMS
            cases.append({"cfg": cfg, "history": h, "forms": forms, "geos": geos,
                          "bdspecs": ("none", "empty", "all", "one")[i % 4]})
    ctx.log("states=%d" % len(cases))
    for case, (ncmp, probs) in zip(cases, par.pmap(_w, cases, min_parallel=8)):
        out.transitions += ncmp
        if case["history"]:
            out.nontrivial.add((case["cfg"]["row"], tuple(case["cfg"]["p"]), str(case["cfg"]["disparity"]), bool(case["cfg"].get("mark_truncate")), repr(case["history"])))
        out.outcomes.add(len(probs))
        for key, msg in probs:
            out.add_violation(key, "%s p=%s disp=%s%s after %s: %s" % (case["cfg"]["row"], case["cfg"]["p"], case["cfg"]["disparity"], " refine(truncate=True)" if case["cfg"].get("mark_truncate") else "", case["history"], msg), case)
    out.evaluations = out.transitions
    out.sample(cases[0]); out.sample(cases[len(cases) // 2])
    out.rule = ("every reachable state of the listed C04 rows x forms {mass, stiffness (predefined and string), non-symmetric "
                "convection, reaction with a degree-1 field, physical and parametric L2 functionals} x geometries {identity, "
                "affine, curved (NURBS annulus / quadratic)} x {HB, THB} x symmetric flag x bdspecs {None, [], all faces, one "
                "face} (quick: geometries/bdspecs rotate over the states); a transition = one hierarchical assembly compared "
                "entrywise with the level-wise oracle. Non-trivial = states with non-empty history.")
    out.assumptions += ["tensor-product assembly on each level is taken from the library (decided by C01/C09); representation matrices from ref/hmodel.py",
                        "1D and 2D hierarchical spaces, degrees 1-3, scalar-valued forms"]
    return out
