"""Evaluation of the library's own expression trees (pyiga.vform.Expr) in an environment of ref/vsem.py.

Used after every transformation pass: each node type gets its obvious meaning; variables defined by an
expression are evaluated through their definition (memoised per call); sourced variables (input fields
with derivative tags, parameters) and basis-function derivatives read the environment; physical
derivatives that are still symbolic (before the replacement pass) use the reference chain rule.
"""
import numpy as np

from ref import vsem


class Unevaluable(Exception):
    pass


class ImplEval:
    def __init__(self, vf, env, prog, jac_to_boundary=None):
        from pyiga import vform as V
        self.V = V
        self.vf = vf
        self.env = env
        self.prog = prog
        self.d = env.d
        self.cache = {}
        self.varcache = {}
        self.jac_to_boundary = jac_to_boundary
        self.defined = None     # optional: set of variable names that may be read (def-before-use machine)

    # -- leaves -----------------------------------------------------------------------------------
    def bf_jet(self, basisfun):
        name = basisfun.name
        if self.prog["arity"] == 1:
            name = "v"
        return self.env.bf[name]

    def pderiv(self, e):
        jet = self.bf_jet(e.basisfun)
        if e.basisfun.component is not None:
            raise Unevaluable("component basis function outside substitute_vec_components")
        return self.jet_deriv(jet, e.D, e.physical)

    def jet_deriv(self, jet, D, physical):
        order = sum(D)
        if order == 0:
            return jet.v
        idx = []
        for k, n in enumerate(D):
            idx += [k] * n
        if order > 2:
            raise Unevaluable("derivative order %d" % order)
        if not physical:
            return jet.g[..., idx[0]] if order == 1 else jet.h[..., idx[0], idx[1]]
        a = vsem.phys_D(jet, idx[0], self.env)
        if order == 1:
            return a.v
        return vsem.phys_D(a, idx[1], self.env).v

    def field_entry(self, var, I):
        """value of entry I of a sourced input-field variable with derivative tag var.deriv"""
        inp = var.src
        nshape = len(inp.shape)
        if inp.name == "geo":
            jets = vsem.T(list(self.env.G))
        else:
            jets = self.env.fields[inp.name]["jets"]
        base = jets[tuple(I[:nshape])] if nshape else jets[()]
        rest = I[nshape:]
        if var.deriv == 0:
            return base
        if var.deriv == 1:
            return ("g", base, rest[0])
        if var.deriv == 2:
            # packed symmetric second derivatives (00, 01, 02, 11, 12, 22)
            d = self.d
            pairs = [(i, j) for i in range(d) for j in range(i, d)]
            return ("h", base, pairs[rest[0]])
        raise Unevaluable("deriv tag %r" % var.deriv)

    def varref(self, e):
        V = self.V
        var = e.var
        if self.defined is not None and var.name not in self.defined:
            raise Unevaluable("variable %s read before it is defined" % var.name)
        if var.expr is not None:
            if sum(e.D):
                raise Unevaluable("derivative of an expression variable")
            ex = var.expr
            I = e.I
            if var.symmetric and len(I) == 2 and I[0] > I[1]:
                I = (I[1], I[0])         # symmetric variables are stored (and read) through the packed index
            key = (var.name, I)
            if key not in self.varcache:
                if len(I) == 0:
                    sub = ex
                elif len(I) == 1:
                    sub = ex[I[0]]
                else:
                    sub = ex[I]
                self.varcache[key] = self.ev(sub)
            return self.varcache[key]
        src = var.src
        if isinstance(src, V.Parameter):
            if src.name == "Jac_to_boundary":
                val = np.asarray(self.jac_to_boundary, dtype=float)
            else:
                val = np.asarray(self.env.params[src.name], dtype=float)
            nshape = len(src.shape)
            if val.ndim > nshape:          # a batch of parameter values (identity grids)
                return val[(Ellipsis,) + tuple(e.I)] if e.I else val
            return val[tuple(e.I)] if e.I else val[()]
        if isinstance(src, V.InputField):
            r = self.field_entry(var, tuple(e.I))
            if isinstance(r, tuple):
                kind, jet, k = r
                if sum(e.D):
                    raise Unevaluable("derivative of a derivative array")
                return jet.g[..., k] if kind == "g" else jet.h[..., k[0], k[1]]
            jet = r
            if sum(e.D) == 0:
                return jet.v
            if src.physical:
                raise Unevaluable("derivative of a physical input field")
            return self.jet_deriv(jet, e.D, not e.parametric)
        raise Unevaluable("variable source %r" % (src,))

    # -- nodes ------------------------------------------------------------------------------------
    def ev(self, e):
        key = id(e)
        if key in self.cache and self.cache[key][0] is e:
            return self.cache[key][1]
        v = self._ev(e)
        self.cache[key] = (e, v)
        return v

    def _ev(self, e):
        V = self.V
        if isinstance(e, V.ConstExpr):
            return np.asarray(e.value)
        if isinstance(e, V.VarRefExpr):
            return self.varref(e)
        if isinstance(e, V.PartialDerivExpr):
            return self.pderiv(e)
        if isinstance(e, V.NegExpr):
            return -self.ev(e.x)
        if isinstance(e, V.BuiltinFuncExpr):
            return vsem.FUNCS[e.funcname][0](self.ev(e.x))
        if isinstance(e, V.ScalarOperExpr):
            a, b = self.ev(e.x), self.ev(e.y)
            return {"+": np.add, "-": np.subtract, "*": np.multiply, "/": np.divide}[e.oper](a, b)
        if isinstance(e, V.GaussWeightExpr):
            return self.env.gw[..., self.axis_of_gw(e.axis)]
        if isinstance(e, V.VolumeMeasureExpr):
            return vsem.Spec(self.prog, self.env).measure("dx")[()].v
        if isinstance(e, V.SurfaceMeasureExpr):
            return vsem.Spec(self.prog, self.env).measure("ds")[()].v
        # tensor-valued nodes: evaluate entry-wise through the node's own indexing
        if e.is_vector():
            vals = [self.ev(e[i]) for i in range(e.shape[0])]
            return _stack(vals, e.shape)
        if e.is_matrix():
            vals = [self.ev(e[i, j]) for i in range(e.shape[0]) for j in range(e.shape[1])]
            return _stack(vals, e.shape)
        raise Unevaluable("node %s" % type(e).__name__)

    def axis_of_gw(self, axis):
        # GaussWeightExpr(k) multiplies the weight of kvs axis k; env.gw is stored per vform axis
        return self.d - 1 - axis


def _stack(vals, shape):
    shp = np.broadcast_shapes(*[np.shape(v) for v in vals])
    return np.stack([np.broadcast_to(v, shp) for v in vals], axis=-1).reshape(shp + tuple(shape))


def eval_exprs(vf, env, prog, jac_to_boundary=None):
    """value of the form's integrand as the library's current expression list says: sum over vf.exprs;
    vector-valued forms give (..., nv*nu) resp. (..., nv)"""
    I = ImplEval(vf, env, prog, jac_to_boundary)
    tot = None
    for ex in vf.exprs:
        v = I.ev(ex)
        tot = v if tot is None else tot + v
    return tot
