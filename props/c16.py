"""C16 -- linear-operator building blocks equal their dense definitions.

Bounded-exhaustive enumeration (E2) over operand kinds x shapes x argument forms.  Payloads are small distinct
integers, so every sum/product on either side is exact in float64 and the comparison with the dense
definition (np.kron, np.block, sum P B P^T, ...) is `==`.  Linear maps are decided on *every unit vector*
(vector forms) / the identity (multi-column forms).  Solver factories: B @ S(e_j) == e_j up to 1e-10*cond(B).

Parts (case["part"]):
  null, identity, diagonal          the trivial operators, every argument form, T/H/compositions
  kron                              KroneckerOperator, 1..3 (thorough: 4) factors, shape x kind product
  block, blockdiag                  BlockOperator layouts up to 2x3/3x2 with every null subset; BlockDiagonalOperator
  subspace                          SubspaceOperator for all ordered families of <= 3 coordinate subspaces of R^1..R^4
  tprod, modek, applykron           tensor.apply_tprod (None placeholders, trailing axes), modek_tprod, apply_kronecker
  rowslice, rowsubset               utils.CSRRowSlice / CSRRowSubset over all sparsity patterns of small matrices
  make_solver, kron_solver, fastdiag  the solver factories
"""
import itertools

import numpy as np

from mc import par
from mc.outcome import Outcome
from props import c16_ops as P
from props import c16_tensor as T
from props import c16_solvers as S

ID = "C16"
LEVEL = "model_checking"

SHAPES3 = sorted(((m, n) for m in (1, 2, 3) for n in (1, 2, 3)), key=lambda s: (s[0] * s[1], s))
SHAPES2 = [(1, 1), (1, 2), (2, 1), (2, 2)]
KINDS5 = "drclk"

_DISPATCH = {
    "kron": P.kron_problems, "block": P.block_problems, "blockdiag": P.blockdiag_problems,
    "diagonal": P.simple_problems, "identity": P.simple_problems, "null": P.simple_problems,
    "subspace": P.subspace_problems,
    "tprod": T.tprod_problems, "modek": T.modek_problems, "applykron": T.applykron_problems,
    "rowslice": T.rowslice_problems, "rowsubset": T.rowsubset_problems,
    "make_solver": S.make_solver_problems, "kron_solver": S.kron_solver_problems, "fastdiag": S.fastdiag_problems,
}


SANDBOXED = ("rowslice", "rowsubset")      # raw index arrays go to C kernels: evaluated in a child process
SANDBOX_BATCH = 1500


def _evaluate(case):
    if case["part"] in SANDBOXED:
        return T.sandbox_eval([case])[0]
    probs, stats = _DISPATCH[case["part"]](case)
    return probs, stats


def check_case(case):
    """explorer-free oracle for one case: list of (key, message)"""
    return [(k, m) for k, m, _, _ in _evaluate(case)[0]]


def _worker(item):
    """item = one case, or a list of sandboxed cases; returns the list of (problems, stats)"""
    if isinstance(item, list):
        return T.sandbox_eval(item)
    return [_evaluate(item)]


def _work_items(cases):
    items, batch = [], []
    for c in cases:
        if c["part"] in SANDBOXED:
            batch.append(c)
            if len(batch) >= SANDBOX_BATCH:
                items.append(batch)
                batch = []
        else:
            if batch:
                items.append(batch)
                batch = []
            items.append(c)
    if batch:
        items.append(batch)
    return items


def reduce_case(case, mode, form):
    """smallest case that still contains the failing mode/argument form"""
    c = dict(case)
    if mode is not None and "modes" in c:
        c["modes"] = [[m, ([form] if form is not None else f)] for m, f in c["modes"] if m == mode]
    elif form is not None and "forms" in c:
        c["forms"] = [form]
    return c


# ------------------------------------------------------------------------------------------------
# enumerators (simplest first)
# ------------------------------------------------------------------------------------------------

def _alphabet(shapes, kinds):
    return [(m, n, k) for (m, n) in shapes for k in kinds]


def kron_cases(tier, seed):
    quick = tier == "quick"
    cases = []

    def add(factors, forms=None, compose=True, dtypes=None):
        sq = all(m == n for m, n, _ in factors)
        c = {"part": "kron", "factors": [list(f) for f in factors], "seed": seed,
             "modes": P.std_modes(forms, compose=compose, square=sq)}
        if dtypes:
            c["dtypes"] = list(dtypes)
        cases.append(c)

    full = _alphabet(SHAPES3, KINDS5)
    for d in (1, 2):
        for fs in itertools.product(full, repeat=d):
            add(fs)
    a3 = _alphabet(SHAPES3, "dl") if quick else full
    for fs in itertools.product(a3, repeat=3):
        add(fs, forms=["v", "c", "m2F", "m3C", "I"] if quick else None, compose=not quick)
    if not quick:
        lean = ["v", "c", "m2F", "m3C", "I"]
        for fs in itertools.product(_alphabet(SHAPES2, "drl"), repeat=4):
            add(fs, forms=lean, compose=False)
        for fs in itertools.product(_alphabet([(2, 2), (2, 3), (3, 2), (3, 3)], "dl"), repeat=4):
            add(fs, forms=["v", "m2F", "I"], compose=False)
        # all-square 4-factor tuples: the column-major linear-operator sweep with four factors
        for fs in itertools.product(_alphabet([(1, 1), (2, 2), (3, 3)], "drl"), repeat=4):
            if not all(f[0] <= 2 for f in fs) and not all(f[2] in "dl" and f[0] >= 2 for f in fs):
                add(fs, forms=["v", "m2F", "m3C", "I"], compose=False)
    # nested pyiga operators as factors (null, identity, diagonal, subspace, block) next to dense / scipy operands
    nest = []
    for k in "dlzb":
        nest += [(m, n, k) for (m, n) in [(1, 1), (2, 2), (2, 3), (3, 2), (3, 3)]]
    nest += [(n, n, "i") for n in (1, 2, 3)] + [(n, n, "g") for n in (2, 3)] + [(n, n, "s") for n in (1, 2, 3)]
    for d in (1, 2):
        for fs in itertools.product(nest, repeat=d):
            if any(f[2] in "zigs" for f in fs):
                add(fs)
    # operand dtypes other than float64 (payload values are small integers: exact in every dtype used)
    if not quick:
        for fs in itertools.product(_alphabet([(2, 2), (2, 3)], "drl"), repeat=2):
            for dts in itertools.product(("f8", "f4", "i8"), repeat=2):
                if dts != ("f8", "f8"):
                    add(fs, dtypes=dts)
    return cases


def _kind_patterns(tier):
    return ["d", "l", "mix0"] if tier == "quick" else ["d", "r", "c", "l", "k", "mix0", "mix1", "mix2", "mix3"]


def _expand_kinds(pat, nblocks):
    if pat.startswith("mix"):
        r = int(pat[3:])
        return "".join(KINDS5[(pos + r) % 5] for pos in range(nblocks))
    return pat * nblocks


def block_cases(tier, seed):
    quick = tier == "quick"
    cases = []
    layouts = [(1, 1), (1, 2), (2, 1), (1, 3), (3, 1), (2, 2), (2, 3), (3, 2)]
    for Mb, Nb in layouts:
        nb = Mb * Nb
        sizes = (1, 2)
        for hs in itertools.product(sizes, repeat=Mb):
            for ws in itertools.product(sizes, repeat=Nb):
                for nullmask in range(2 ** nb):
                    for pat in _kind_patterns(tier):
                        base = _expand_kinds(pat, nb)
                        if nullmask == 2 ** nb - 1 and pat != _kind_patterns(tier)[0]:
                            continue        # all blocks null: the kinds do not matter
                        kinds = "".join("z" if (nullmask >> pos) & 1 else base[pos] for pos in range(nb))
                        forms = None if nb <= 4 else ["v", "c", "m2F", "m3C", "I"]
                        cases.append({"part": "block", "heights": list(hs), "widths": list(ws), "kinds": kinds, "seed": seed,
                                      "modes": P.std_modes(forms, compose=(not quick or nb <= 2),
                                                           square=sum(hs) == sum(ws))})
    # a few layouts with blocks of size 3 (rectangular 3x1 / 1x3 / 2x3 blocks)
    for hs, ws in [((3,), (1, 2)), ((1, 3), (2,)), ((2, 3), (3, 1)), ((3, 1), (1, 2, 3))]:
        nb = len(hs) * len(ws)
        for nullmask in range(2 ** nb - 1):
            for pat in _kind_patterns(tier):
                base = _expand_kinds(pat, nb)
                kinds = "".join("z" if (nullmask >> pos) & 1 else base[pos] for pos in range(nb))
                cases.append({"part": "block", "heights": list(hs), "widths": list(ws), "kinds": kinds, "seed": seed,
                              "modes": P.std_modes(None, compose=not quick, square=sum(hs) == sum(ws))})
    return cases


def blockdiag_cases(tier, seed):
    quick = tier == "quick"
    cases = []
    for nb in (1, 2, 3):
        shapes = SHAPES3 if (nb < 3 or not quick) else SHAPES2 + [(1, 3), (3, 2)]
        for shp in itertools.product(shapes, repeat=nb):
            pats = _kind_patterns(tier) + ["null%d" % j for j in range(nb)]
            for pat in pats:
                if pat.startswith("null"):
                    j = int(pat[4:])
                    kinds = "".join("z" if pos == j else "dl"[pos % 2] for pos in range(nb))
                else:
                    kinds = _expand_kinds(pat, nb)
                blocks = [[m, n, k] for (m, n), k in zip(shp, kinds)]
                sq = sum(b[0] for b in blocks) == sum(b[1] for b in blocks)
                cases.append({"part": "blockdiag", "blocks": blocks, "seed": seed,
                              "modes": P.std_modes(None, compose=(nb < 3 or not quick), square=sq)})
    return cases


def simple_cases(tier, seed):
    cases = []
    nmax = 4 if tier == "quick" else 6
    for shape in SHAPES3 + ([] if tier == "quick" else [(4, 1), (1, 4), (4, 4), (5, 2)]):
        cases.append({"part": "null", "shape": list(shape), "seed": seed,
                      "modes": P.std_modes(None, square=shape[0] == shape[1])})
    for n in range(1, nmax + 1):
        cases.append({"part": "identity", "n": n, "seed": seed, "modes": P.std_modes(None, square=True)})
    for n in range(1, nmax + 1):
        for df in ("vec", "col", "row"):
            cases.append({"part": "diagonal", "n": n, "diagform": df, "seed": seed, "modes": P.std_modes(None, square=True)})
    return cases


def _subsets(n):
    out = []
    for mask in range(1, 2 ** n):
        out.append([i for i in range(n) if (mask >> i) & 1])
    return sorted(out, key=lambda s: (len(s), s))


def subspace_cases(tier, seed):
    quick = tier == "quick"
    cases = []
    for n in (1, 2, 3, 4):
        subs = _subsets(n)
        for k in (1, 2, 3):
            if quick and n == 4 and k == 3:
                continue
            for fam in itertools.product(subs, repeat=k):
                variants = [fam]
                if not quick and any(len(s) > 1 for s in fam):
                    variants.append(tuple(list(reversed(s)) for s in fam))     # P_j with permuted columns
                for v in variants:
                    for pk in ("d", "r"):
                        for bk in (("d", "l") if (quick or (n == 4 and k == 3)) else ("d", "r", "l", "k")):
                            if quick and pk == "r" and bk == "l":
                                continue
                            forms = None if (n <= 3 or not quick) else ["v", "c", "m2F", "I"]
                            cases.append({"part": "subspace", "n": n, "subsets": [list(s) for s in v], "pkind": pk, "bkind": bk,
                                          "seed": seed, "modes": P.std_modes(forms, compose=(k < 3), square=True)})
    return cases


def tprod_cases(tier, seed):
    quick = tier == "quick"
    cases = []
    none3 = [(n, n, "-") for n in (1, 2, 3)]
    full = none3 + _alphabet(SHAPES3, KINDS5)
    trails = [[], [2]] if quick else [[], [1], [2], [2, 3]]

    def add(ops, trail):
        n_in = int(np.prod([o[1] for o in ops])) * int(np.prod(trail or [1]))
        forms = (["unit"] if n_in <= 36 else []) + ["C", "F"] + ([] if quick else ["V"]) + (["eye"] if n_in <= 36 else [])
        cases.append({"part": "tprod", "ops": [list(o) for o in ops], "trail": list(trail), "forms": forms, "seed": seed})

    for d in (1, 2):
        for ops in itertools.product(full, repeat=d):
            for tr in trails:
                add(ops, tr)
    a3 = none3 + _alphabet(SHAPES3, "dl" if quick else "drl")
    for ops in itertools.product(a3, repeat=3):
        for tr in (trails[:2] if not quick else trails):
            add(ops, tr)
    if not quick:
        a4 = [(1, 1, "-"), (2, 2, "-")] + _alphabet(SHAPES2, "dl")
        for ops in itertools.product(a4, repeat=4):
            for tr in ([], [2]):
                add(ops, tr)
    return cases


def modek_cases(tier, seed):
    cases = []
    dims = (1, 2, 3)
    shapes = [s for nd in (1, 2, 3) for s in itertools.product(dims, repeat=nd)]
    if tier != "quick":
        shapes += list(itertools.product((1, 2), repeat=4))
    for xs in shapes:
        for k in range(len(xs)):
            for m in (1, 2, 3):
                for kind in KINDS5:
                    cases.append({"part": "modek", "xshape": list(xs), "k": k, "m": m, "kind": kind, "seed": seed,
                                  "forms": ["unit", "C", "F"] + ([] if tier == "quick" else ["V"])})
    return cases


def applykron_cases(tier, seed):
    quick = tier == "quick"
    cases = []
    full = [(n, k) for n in (1, 2, 3) for k in KINDS5]
    forms = ["v", "c", "m2C", "m2F", "m3C", "m3F", "I"]
    for d in (1, 2):
        for fs in itertools.product(full, repeat=d):
            cases.append({"part": "applykron", "factors": [list(f) for f in fs], "forms": forms, "seed": seed})
    a3 = [(n, k) for n in (1, 2, 3) for k in ("drl" if quick else KINDS5)]
    for fs in itertools.product(a3, repeat=3):
        cases.append({"part": "applykron", "factors": [list(f) for f in fs], "forms": forms, "seed": seed})
    if not quick:
        for fs in itertools.product([(n, k) for n in (1, 2) for k in KINDS5], repeat=4):
            cases.append({"part": "applykron", "factors": [list(f) for f in fs], "forms": ["v", "c", "m2F", "m3C", "I"], "seed": seed})
    return cases


def csr_cases(tier, seed):
    quick = tier == "quick"
    cases = []
    shapes = [(m, n) for m in (1, 2, 3) for n in (1, 2, 3) if (m * n <= 6 or not quick)]
    if not quick:
        shapes += [(4, 2), (4, 3)]
    shapes.sort(key=lambda s: (s[0] * s[1], s))
    for (m, n) in shapes:
        for pattern in range(2 ** (m * n)):
            for r0 in range(m + 1):
                for r1 in range(r0, m + 1):
                    cases.append({"part": "rowslice", "shape": [m, n], "pattern": pattern, "bounds": [r0, r1],
                                  "forms": ["v", "c", "IC", "IF"], "seed": seed})
    for (m, n) in shapes:
        if m * n > 9:
            continue
        rowsets = [list(r) for k in range(0, 4) for r in itertools.product(range(m), repeat=k)]
        for pattern in range(2 ** (m * n)):
            for rows in rowsets:
                cases.append({"part": "rowsubset", "shape": [m, n], "pattern": pattern, "rows": rows,
                              "rowkinds": ["list", "array"], "seed": seed})
    return cases


def solver_matrices(tier):
    """finite alphabets of small invertible integer matrices (simplest first)"""
    quick = tier == "quick"
    mats = [np.array([[v]], dtype=float) for v in (1, -2, 3)]
    for ent in itertools.product((-1, 0, 1, 2), repeat=4):
        mats.append(np.array(ent, dtype=float).reshape(2, 2))
    for ent in itertools.product((-1, 0, 1), repeat=9):
        M = np.array(ent, dtype=float).reshape(3, 3)
        if quick and not (np.array_equal(M, M.T) or (M[0, 2] == 0 and M[2, 0] == 0)):
            continue        # quick: all symmetric + all tridiagonal 3x3 sign matrices
        mats.append(M)
    # 3x3 / 4x4 diagonally heavier matrices (SPD members: the classical [-1 2 -1] family and relatives)
    for n in (3, 4):
        offs = list(itertools.product((-1, 0, 1), repeat=n - 1))
        for dg in itertools.product((2, 3), repeat=n):
            for lo in offs:
                ups = [lo] if quick else offs
                for up in ups:
                    if n == 4 and not quick and up != lo and dg != (2,) * n:
                        continue
                    M = np.diag(np.array(dg, dtype=float)) + np.diag(np.array(lo, dtype=float), -1) + np.diag(np.array(up, dtype=float), 1)
                    mats.append(M)
    out = []
    for M in mats:
        d = round(float(np.linalg.det(M)))
        if d != 0:
            out.append(M)
    return out


def make_solver_cases(tier, seed):
    cases = []
    for M in solver_matrices(tier):
        sym, spd = S.classify(M)
        flags = [(False, False)]
        if sym:
            flags.append((True, False))
        if spd:
            flags += [(False, True), (True, True)]
        for fmt in ("dense", "denseF", "csr", "csc"):
            for (fs, fp) in flags:
                cases.append({"part": "make_solver", "matrix": M.tolist(), "fmt": fmt, "symmetric": fs, "spd": fp,
                              "forms": list(S.SOLVER_FORMS), "seed": seed})
    return cases


KS_MATS = [
    [[2.0]], [[-3.0]],
    [[2.0, 1.0], [1.0, 3.0]], [[0.0, 1.0], [2.0, 0.0]], [[1.0, 2.0], [3.0, 4.0]],
    [[2.0, -1.0, 0.0], [-1.0, 2.0, -1.0], [0.0, -1.0, 2.0]], [[0.0, 2.0, 1.0], [1.0, 0.0, 3.0], [4.0, 1.0, 0.0]],
]


def kron_solver_cases(tier, seed):
    quick = tier == "quick"
    cases = []
    alpha = [(i, f) for i in range(len(KS_MATS)) for f in ("dense", "csr", "csc")]
    for d in (1, 2, 3):
        a = alpha if (d < 3 or not quick) else [(i, f) for (i, f) in alpha if f != "csc" and i in (0, 3, 4, 6)]
        for fs in itertools.product(a, repeat=d):
            cases.append({"part": "kron_solver", "matrices": [KS_MATS[i] for i, _ in fs], "fmts": [f for _, f in fs],
                          "forms": list(S.SOLVER_FORMS), "seed": seed})
    # column-major dense factors, equal factors passed as one object
    aF = [(i, "denseF") for i in range(len(KS_MATS))]
    for d in (1, 2, 3):
        for fs in itertools.product(aF if d < 3 else [aF[k] for k in (3, 4, 6)], repeat=d):
            cases.append({"part": "kron_solver", "matrices": [KS_MATS[i] for i, _ in fs], "fmts": [f for _, f in fs],
                          "forms": ["v", "IC"], "seed": seed, "share": True})
    return cases


def kv_specs(tier):
    """1D inputs for fast diagonalisation: spline spaces over the shared KV alphabet (all interior multiplicity
    vectors in 1..p) with Dirichlet / Robin-type pairs, and explicit integer pairs"""
    pats = {"U1": [0.0, 1.0], "U2": [0.0, 0.5, 1.0], "U3": [0.0, 1 / 3, 2 / 3, 1.0], "G3": [0.0, 1e-3, 0.5, 1.0], "S3": [-2.5, -1.0, 3.0, 7.0]}
    specs = [
        {"src": "int", "K": [[3.0]], "M": [[2.0]]},
        {"src": "int", "K": [[2.0, -1.0], [-1.0, 2.0]], "M": [[4.0, 1.0], [1.0, 4.0]]},
        {"src": "int", "K": [[2.0, -1.0, 0.0], [-1.0, 2.0, -1.0], [0.0, -1.0, 2.0]], "M": [[4.0, 1.0, 0.0], [1.0, 4.0, 1.0], [0.0, 1.0, 4.0]]},
    ]
    pmax = 3
    for p in range(1, pmax + 1):
        for name in ("U1", "U2", "U3", "G3", "S3"):
            br = pats[name]
            for mults in itertools.product(range(1, p + 1), repeat=len(br) - 2):
                ndofs = p + 1 + sum(mults)
                for src in ("dir", "rob"):
                    if src == "dir" and ndofs - 2 < 1:
                        continue
                    specs.append({"src": src, "p": p, "breaks": list(br), "mults": list(mults), "name": name})
    return specs


def _spec_size(s):
    if s["src"] == "int":
        return len(s["K"])
    n = s["p"] + 1 + sum(s["mults"])
    return n - 2 if s["src"] == "dir" else n


def fastdiag_cases(tier, seed):
    quick = tier == "quick"
    specs = kv_specs(tier)
    cases = []
    nadd = [0]

    def add(dims, fmts=("dense", "csr")):
        N = int(np.prod([_spec_size(s) for s in dims]))
        forms = list(S.SOLVER_FORMS) if N <= 40 else ["IC", "IF"]
        nadd[0] += 1
        for fmt in fmts:
            cases.append({"part": "fastdiag", "dims": [dict(s) for s in dims], "fmt": fmt, "forms": forms, "seed": seed,
                          "container": "list" if nadd[0] % 2 == 0 else "tuple"})

    for s in specs:
        add([s])
    small = [s for s in specs if s["src"] == "int" or (s.get("name") in ("U1", "U2", "G3") and max(s["mults"] or [1]) == 1 and s["p"] <= 2)]
    two = small if quick else [s for s in specs if _spec_size(s) <= 6]
    for a, b in itertools.product(two, repeat=2):
        add([a, b], fmts=("dense",) if (quick and a is not b) else ("dense", "csr"))
    three = [s for s in small if _spec_size(s) <= (3 if quick else 4)]
    if quick:
        three = three[::2]
    for a, b, c in itertools.product(three, repeat=3):
        add([a, b, c], fmts=("dense",))
    return cases


# ------------------------------------------------------------------------------------------------
# run
# ------------------------------------------------------------------------------------------------

def all_cases(tier, seed):
    gens = [("null/identity/diagonal", simple_cases), ("subspace", subspace_cases), ("kron", kron_cases),
            ("block", block_cases), ("blockdiag", blockdiag_cases), ("tprod", tprod_cases),
            ("modek", modek_cases), ("applykron", applykron_cases), ("csr-rows", csr_cases),
            ("make_solver", make_solver_cases), ("kron_solver", kron_solver_cases), ("fastdiag", fastdiag_cases)]
    out = []
    for name, g in gens:
        cs = g(tier, seed)
        out.append((name, cs))
    return out


def run(ctx):
    out = Outcome()
    import pyiga.operators  # noqa: F401  (import once in the parent, workers are forked)
    import pyiga.solvers    # noqa: F401
    import pyiga.assemble   # noqa: F401
    groups = all_cases(ctx.tier, ctx.seed)
    cases = [c for _, cs in groups for c in cs]
    ctx.log("enumerated %d cases: %s" % (len(cases), ", ".join("%s=%d" % (n, len(cs)) for n, cs in groups)))
    results = [r for rs in par.pmap(_worker, _work_items(cases), chunk=48) for r in rs]
    if len(results) != len(cases):
        raise RuntimeError("harness: %d results for %d cases" % (len(results), len(cases)))
    per_key = {}
    worst = {}
    sampled = set()
    for case, (probs, stats) in zip(cases, results):
        part = case["part"]
        out.states += 1
        out.evaluations += 1
        out.traces += 1
        calls = int(stats.get("calls", 0))
        out.transitions += calls
        out.part(part, cases=1, calls=calls)
        if stats.get("nontrivial"):
            out.nontrivial_extra += 1          # cases are pairwise distinct by construction of the enumeration
            out.part(part, nontrivial=1)
        if "digest" in stats:
            out.outcomes.add((part, stats["digest"]))
        if "branch" in stats:
            out.part("kron", **{"branch_" + stats["branch"]: 1})
        if "worst" in stats:
            worst[part] = max(worst.get(part, 0.0), float(stats["worst"]))
        if part not in sampled and stats.get("nontrivial"):
            sampled.add(part)
            out.sample({k: v for k, v in case.items() if k not in ("modes",)}, limit=8)
        if probs:
            out.part(part, cases_with_problems=1)
        for key, msg, mode, form in probs:
            per_key[key] = per_key.get(key, 0) + 1
            if per_key[key] <= 2:
                out.add_violation(key, "%s: %s" % (describe(case), msg), reduce_case(case, mode, form))
    for key in sorted(per_key):
        ctx.log("problem key %-50s cases=%d" % (key, per_key[key]))
    out.extra["problem_case_counts"] = {k: per_key[k] for k in sorted(per_key)}
    out.extra["solver_worst_residual_over_cond"] = {k: worst[k] for k in sorted(worst)}
    out.rule = ("one state = one enumerated operator/routine instance (operand kinds x shapes x layout); one transition = "
                "one implementation call (dot/@/matvec/matmat/rmatvec/apply_tprod/...) compared with the dense definition. "
                "Non-trivial = the dense definition has >= 4 entries with >= 3 distinct non-zero values and the instance "
                "combines >= 2 operands (kron/blockdiag/applykron/solvers: >= 2 factors; block: >= 2 blocks with a proper "
                "non-empty null subset; subspace: >= 2 overlapping subspaces; tprod: a None placeholder next to a real "
                "operator; modek: tensor with >= 2 axes; rowslice: interior bounds or empty rows; rowsubset: repeated or "
                "unsorted rows).")
    out.assumptions += [
        "payloads are small distinct integers (float64 exact); the code paths have no value-dependent control flow, so a "
        "linear map is decided by its action on every unit vector / the identity",
        "multi-column arguments (n,2),(n,3): the disjoint k-column windows of the identity plus one dense payload, "
        "C- and F-ordered; the full (n,n) identity in both orders",
        "real dtypes only (adjoint == transpose); float32/int64 operands only for 2-factor Kronecker operators (thorough)",
        "sparse operands are scipy csr_matrix/csc_matrix (spmatrix interface), abstract operands scipy aslinearoperator / nested pyiga operators",
        "pyMKL is not installed: make_solver's sparse branch is exercised through SuperLU only",
        "solver oracle: max|B S(rhs) - rhs| <= 1e-10 * cond_2(B); worst observed ratio recorded in solver_worst_residual_over_cond",
        "NullOperator is the only null-block placeholder generated for BlockOperator (None is not documented)",
    ]
    return out


def describe(case):
    p = case["part"]
    if p == "kron":
        return "KroneckerOperator(%s)" % ", ".join("%s%dx%d" % (k, m, n) for m, n, k in case["factors"]) + \
            (" dtypes=%s" % case["dtypes"] if case.get("dtypes") else "")
    if p == "block":
        return "BlockOperator heights=%s widths=%s kinds=%s" % (case["heights"], case["widths"], case["kinds"])
    if p == "blockdiag":
        return "BlockDiagonalOperator(%s)" % ", ".join("%s%dx%d" % (k, m, n) for m, n, k in case["blocks"])
    if p == "subspace":
        return "SubspaceOperator n=%d subsets=%s P:%s B:%s" % (case["n"], case["subsets"], case["pkind"], case["bkind"])
    if p == "tprod":
        return "apply_tprod(%s) trailing=%s" % (", ".join("None[%d]" % n if k == "-" else "%s%dx%d" % (k, m, n)
                                                               for m, n, k in case["ops"]), case["trail"])
    if p == "applykron":
        return "apply_kronecker(%s)" % ", ".join("%s%d" % (k, n) for n, k in case["factors"])
    if p == "make_solver":
        return "make_solver(%s %s, symmetric=%s, spd=%s)" % (case["fmt"], case["matrix"], case["symmetric"], case["spd"])
    if p == "kron_solver":
        return "make_kronecker_solver(%s)" % ", ".join("%s%d" % (f, len(m)) for m, f in zip(case["matrices"], case["fmts"]))
    if p == "fastdiag":
        return "fastdiag_solver(%s; %s)" % (case["fmt"], ", ".join(
            ("int%d" % len(s["K"])) if s["src"] == "int" else "%s p=%d %s mult=%s" % (s["src"], s["p"], s.get("name", s["breaks"]), s["mults"])
            for s in case["dims"]))
    return " ".join("%s=%s" % (k, v) for k, v in case.items() if k not in ("modes", "forms", "seed"))
