"""C11 part A -- Gauss-Seidel relaxation against the textbook update in exact rational arithmetic.

One case = one integer matrix (size, off-diagonal sparsity pattern, value set, seed) together with the list of
storage forms / sweeps / iteration counts / index lists to run on it.  For every (sweep, iterations, indices):

  * the reference pair (E, G) with  x_out = E x_in + G b  is computed in Fractions (ref/gs.py);
  * primary forms (dense ndarray, canonical CSR): the implementation is run on *every unit vector* of x (b = 0)
    and of b (x = 0), i.e. its affine map is assembled and compared with (E, G) -- this decides the update for
    every starting vector and right-hand side;
  * secondary forms (CSR with explicit zeros / unsorted columns, CSC, COO and their variants): one run with a
    distinct-integer payload (x, b) compared with E x + G b;
  * every form: an integer exact solution x*, b = A x*, must come back bit-identical (all operations exact);
  * SPD / PSD value sets: A - E^T A E >= -1e-10 |A| for the implementation's assembled E (device 5).
"""
import warnings
from fractions import Fraction

import numpy as np

from ref import gs as R

SWEEPS = ("forward", "backward", "symmetric")
FORMS = ("dense", "csr", "csr+xz", "csr+unsorted", "csc", "csc+xz", "csc+unsorted", "coo", "coo+xz", "coo+unsorted")
PRIMARY = ("dense", "csr")
SYM_VALUES = ("spd", "psd", "gram")
TOL = 1e-11          # norm-wise, times the largest magnitude met by the exact computation
ETOL = 1e-10         # energy: smallest eigenvalue of A - E^T A E  >=  -ETOL * |A|_2


def build_form(A, form):
    """A: nested int list -> the matrix in the requested storage form (float64 data)"""
    import scipy.sparse as sp
    n = len(A)
    D = np.array(A, dtype=np.float64)
    if form == "dense":
        return D
    fmt, _, var = form.partition("+")
    stored = [(i, j) for i in range(n) for j in range(n) if i == j or A[i][j] != 0 or var == "xz"]
    if fmt == "csr":
        rows = [[j for (i, j) in stored if i == r] for r in range(n)]
        if var == "unsorted":
            rows = [r[::-1] for r in rows]
        indptr = np.cumsum([0] + [len(r) for r in rows]).astype(np.int32)
        indices = np.array([j for r in rows for j in r], dtype=np.int32)
        data = np.array([D[i, j] for i, r in enumerate(rows) for j in r], dtype=np.float64)
        M = sp.csr_matrix((data, indices, indptr), shape=(n, n))
    elif fmt == "csc":
        cols = [[i for (i, j) in stored if j == c] for c in range(n)]
        if var == "unsorted":
            cols = [c[::-1] for c in cols]
        indptr = np.cumsum([0] + [len(c) for c in cols]).astype(np.int32)
        indices = np.array([i for c in cols for i in c], dtype=np.int32)
        data = np.array([D[i, j] for j, c in enumerate(cols) for i in c], dtype=np.float64)
        M = sp.csc_matrix((data, indices, indptr), shape=(n, n))
    elif fmt == "coo":
        ent = stored[::-1] if var == "unsorted" else stored
        M = sp.coo_matrix((np.array([D[i, j] for i, j in ent], dtype=np.float64),
                           (np.array([i for i, j in ent], dtype=np.int32), np.array([j for i, j in ent], dtype=np.int32))),
                          shape=(n, n))
    else:
        raise ValueError(form)
    return M


_CONTAINERS = ("list", "int64", "tuple", "intc")


def _container(indices, k):
    if indices is None:
        return None
    c = _CONTAINERS[k % 4]
    if c == "list":
        return list(indices)
    if c == "tuple":
        return tuple(indices)
    return np.array(indices, dtype=np.int64 if c == "int64" else np.intc)


def _call(M, x, b, iterations, indices, sweep):
    """one call of the implementation on copies; returns the updated x"""
    from pyiga import solvers
    x = np.array(x, dtype=np.float64)
    b = np.array(b, dtype=np.float64)
    solvers.gauss_seidel(M, x, b, iterations=iterations, indices=indices, sweep=sweep)
    return x


def payload(n, seed):
    x = [((j + seed) % 4 + 1) * (-1 if (j + seed) % 2 else 1) for j in range(n)]
    b = [((2 * j + seed) % 5 - 2) or 3 for j in range(n)]
    xs = [((j + 2 + seed) % 3 + 1) * (1 if (j + seed) % 3 else -1) for j in range(n)]
    return x, b, xs


def space(case):
    """the (forms, sweeps, iteration counts, index lists) a case runs"""
    n = case["n"]
    forms = FORMS if case.get("forms", "all") == "all" else tuple(case["forms"])
    sweeps = tuple(case.get("sweeps") or SWEEPS)
    iters = tuple(case.get("iters") or (1, 2, 3))
    ind = case.get("indices", "all")
    if ind == "all":
        ilists = [None] + R.ordered_subsets(n)
    elif ind == "none":
        ilists = [None]
    else:
        ilists = [None if i is None else list(i) for i in ind]
    return forms, sweeps, iters, ilists


def describe(A, form, x, b, it, indices, sweep):
    return ("gauss_seidel(A=%s%s, x=%s, b=%s, iterations=%d, indices=%s, sweep=%r)"
            % (form, A, list(x), list(b), it, indices, sweep))


def check(case):
    """returns (problems, stats); problems: list of (key, message, focus)"""
    n, code, values, seed = case["n"], case["pattern"], case["values"], case.get("seed", 0)
    A = R.matrix(n, code, values, seed)
    AF = np.array(A, dtype=np.float64)
    forms, sweeps, iters, ilists = space(case)
    focus = case.get("focus")
    mats = {}
    probs = []
    stats = {"configs": 0, "calls": 0, "energy": 0, "outcomes": set()}
    x0, b0, xs = payload(n, seed)
    bs = [sum(A[i][j] * xs[j] for j in range(n)) for i in range(n)]
    normA = float(np.linalg.norm(AF, 2))
    k = 0
    with warnings.catch_warnings():
        warnings.simplefilter("ignore")
        for f in forms:
            try:
                mats[f] = build_form(A, f)
            except Exception as e:     # scipy refusing our own construction would be a harness problem
                raise RuntimeError("cannot build form %s: %r" % (f, e))
        for sweep in sweeps:
            for it in iters:
                for il in ilists:
                    k += 1
                    if focus and (focus["sweep"], focus["iters"], focus["indices"]) != (sweep, it, il):
                        continue
                    stats["configs"] += 1
                    order = R.row_order(n, il, sweep, it)
                    E, G, scale = R.operators(A, order)
                    Ef = np.array([[float(v) for v in r] for r in E])
                    Gf = np.array([[float(v) for v in r] for r in G])
                    tol = TOL * float(scale)
                    want = [float(v) for v in R.apply_affine(E, G, x0, b0)]
                    ptol = tol * n * 4
                    stats["outcomes"].add(tuple(order))
                    failed_csr = set()
                    for f in forms:
                        if focus and focus.get("form") and focus["form"] != f:
                            continue
                        cls = "dense" if f == "dense" else "sparse"
                        ix = "indexed" if il is not None else "full"

                        def key(kind):
                            if f in ("dense", "csr") or kind in failed_csr:
                                return "gs:%s:%s:%s:%s" % (cls, ix, sweep, kind)
                            return "gs:sparse[%s]:%s:%s:%s" % (f, ix, sweep, kind)

                        def bad(kind, msg):
                            if f == "csr":
                                failed_csr.add(kind)
                            probs.append((key(kind), msg, {"form": f, "sweep": sweep, "iters": it, "indices": il}))

                        M = mats[f]
                        ind = _container(il, k)
                        try:
                            # exact solution is a fixed point (bit-identical: every operation is exact)
                            got = _call(M, xs, bs, it, ind, sweep)
                            stats["calls"] += 1
                            if not np.array_equal(got, np.array(xs, dtype=float)):
                                bad("fixed-point", "%s changed the exact solution to %s"
                                    % (describe(A, f, xs, bs, it, il, sweep), got.tolist()))
                            if f in PRIMARY:
                                Ei = np.zeros((n, n))
                                Gi = np.zeros((n, n))
                                z = [0.0] * n
                                for j in range(n):
                                    e = [float(i == j) for i in range(n)]
                                    Ei[:, j] = _call(M, e, z, it, ind, sweep)
                                    Gi[:, j] = _call(M, z, e, it, ind, sweep)
                                    stats["calls"] += 2
                                dev = max(np.abs(Ei - Ef).max(), np.abs(Gi - Gf).max())
                                if not dev <= tol:
                                    j = int(np.argmax(np.abs(Ei - Ef).max(axis=0)))
                                    if np.abs(Ei - Ef).max() >= np.abs(Gi - Gf).max():
                                        e = [float(i == j) for i in range(n)]
                                        msg = "%s -> %s, textbook update in row order %s gives %s" % (
                                            describe(A, f, e, z, it, il, sweep), Ei[:, j].tolist(), order, Ef[:, j].tolist())
                                    else:
                                        j = int(np.argmax(np.abs(Gi - Gf).max(axis=0)))
                                        e = [float(i == j) for i in range(n)]
                                        msg = "%s -> %s, textbook update in row order %s gives %s" % (
                                            describe(A, f, z, e, it, il, sweep), Gi[:, j].tolist(), order, Gf[:, j].tolist())
                                    bad("update", msg)
                                elif values in SYM_VALUES:
                                    S = AF - Ei.T @ AF @ Ei
                                    S = 0.5 * (S + S.T)
                                    lam = float(np.linalg.eigvalsh(S).min())
                                    stats["energy"] += 1
                                    if not lam >= -ETOL * normA:
                                        bad("energy", "%s increases the energy norm of some error: min eig(A - E^T A E) = %.3g"
                                            % (describe(A, f, "e_j", "0", it, il, sweep), lam))
                            else:
                                got = _call(M, x0, b0, it, ind, sweep)
                                stats["calls"] += 1
                                if not np.abs(got - np.array(want)).max() <= ptol:
                                    bad("update", "%s -> %s, textbook update in row order %s gives %s"
                                        % (describe(A, f, x0, b0, it, il, sweep), got.tolist(), order, want))
                        except Exception as e:
                            bad("exception:%s" % type(e).__name__, "%s raised %r" % (describe(A, f, x0, b0, it, il, sweep), e))
    return probs, stats


# ----------------------------------------------------------------------------------------------------
# enumeration
# ----------------------------------------------------------------------------------------------------

FEW_INDICES_4 = [None, [], [2], [3, 1], [1, 3], [0, 3, 1], [2, 0, 3], [3, 2, 1, 0], [1, 0, 3, 2], [0, 1, 2, 3]]


def cases(tier, seed):
    out = []

    def add(n, code, values, **kw):
        c = {"part": "gs", "n": n, "pattern": code, "values": values, "seed": seed}
        c.update(kw)
        out.append(c)

    # n <= 3: every pattern, every form, every sweep, 1-3 iterations, every ordered index subset
    for n in (1, 2, 3):
        sym = set(R.symmetric_patterns(n))
        for code in range(2 ** (n * (n - 1))):
            for v in ("dom", "nonsym"):
                add(n, code, v)
            if code in sym:
                for v in SYM_VALUES:
                    add(n, code, v)
    n = 4
    sym4 = R.symmetric_patterns(4)
    if tier == "quick":
        # subset for n = 4: all 64 symmetric patterns (SPD sets) + every 32nd pattern, a few index lists
        for code in sym4:
            add(n, code, "spd", indices=FEW_INDICES_4, iters=[1, 2])
        for code in sorted(set(range(0, 4096, 32)) | {4095}):
            add(n, code, "dom", indices=FEW_INDICES_4, iters=[1, 3])
    else:
        # every one of the 4096 patterns: all forms, sweeps, iteration counts; full sweeps (indices=None)
        for code in range(4096):
            for v in ("dom", "nonsym"):
                add(n, code, v, indices="none")
        # every ordered index subset (65) on the 64 symmetric patterns (SPD/PSD/Gram sets) and on every 64th
        # pattern + the full one (dominant / non-symmetric sets)
        for code in sym4:
            for v in SYM_VALUES:
                add(n, code, v, indices="all")
        for code in sorted(set(range(0, 4096, 64)) | {4095}):
            for v in ("dom", "nonsym"):
                add(n, code, v, indices="all", iters=[1, 2])
    return out


def nontrivial(case):
    """a matrix case is non-trivial if its pattern couples at least two rows in both triangles"""
    m = R.pattern_mask(case["n"], case["pattern"])
    return any(i < j for i, j in m) and any(i > j for i, j in m)
