"""C01 -- compiled assemblers compute exactly the integrand the variational form denotes.

E2: every program of the bounded vform grammar (ref/vgen.py; quick: a fixed deterministic subset) is compiled by
the real generator + C compiler (batched through compile_vforms, a fixed slice individually through
compile_vform and through the string front end) and assembled on spaces that expose index mistakes (mixed
degrees, unequal dof counts, repeated knot, non-uniform spans) with curved geometries; every entry of the
result is compared with the Gauss sum of the program's denotation (props/vspaces.reference).  Entry points:
assemble(), entry(i,j) for ALL pairs (zero without common support), multi_entries, assemble_vector,
on-demand construction with proper sub-bounding boxes.
"""
import os
import sys

import numpy as np

from mc import par
from mc.outcome import Outcome
from ref import vgen
from props import vspaces

ID = "C01"
LEVEL = "model_checking"
TOL = 1e-10
BATCH = 12


# coefficient atoms that only the compiled route can decide (operator precedence / folding of the emitted text):
# always part of the quick selection (2D, u*v)
MUST_ATOMS = ("quot-prod", "fm2", "sub-neg", "sub-divm1", "near1", "div-nearm1", "tiny", "sub-tiny", "mirror-sub", "mirror-div")


def select_programs(tier):
    progs = vgen.all_programs(dims=(1, 2, 3))
    out = []
    counters = {}
    for p in progs:
        fam = p["tag"].split(":")[0]
        d = p["dim"]
        key = (fam, d, bool(p.get("spacetime")))
        counters[key] = counters.get(key, 0) + 1
        n = counters[key]
        if tier == "thorough":
            if d == 3 and fam in ("bilin", "coef") and n % 3 != 1:
                continue
            out.append(p)
            continue
        # quick: every family is represented; the big product families are thinned with a fixed stride
        stride = {"bilin": 9, "coef": 5}.get(fam, 1)
        if d == 3:
            stride = {"bilin": 40, "coef": 12, "vcoef": 3, "vecbf": 2, "bdry": 6, "func": 3}.get(fam, 2)
        if p.get("spacetime"):
            stride = {"bilin": 12, "coef": 14}.get(fam, 4)
        if fam == "bdry" and d == 2:
            stride = 2
        parts = p["tag"].split(":")
        must = fam == "coef" and d == 2 and not p.get("spacetime") and parts[2] in MUST_ATOMS and parts[3] == "w*w"
        if (n - 1) % stride == 0 or must:
            out.append(p)
    return out


class _Quiet:
    """silence the C compiler / cythonize chatter (fd level)"""
    def __enter__(self):
        sys.stdout.flush(); sys.stderr.flush()
        self.saved = (os.dup(1), os.dup(2))
        self.null = os.open(os.devnull, os.O_WRONLY)
        os.dup2(self.null, 1); os.dup2(self.null, 2)

    def __exit__(self, *a):
        sys.stdout.flush(); sys.stderr.flush()
        os.dup2(self.saved[0], 1); os.dup2(self.saved[1], 2)
        os.close(self.saved[0]); os.close(self.saved[1]); os.close(self.null)


def _rejection(e):
    if isinstance(e, (TypeError, NotImplementedError)):
        return True
    return isinstance(e, AssertionError) and "not implemented" in str(e)


def instantiate(cls, prog, geo, args, bbox=None):
    from pyiga import assemble
    d = prog["dim"]
    bf = prog["bfuns"]
    two = any(s == 1 for _, s in bf.values())
    kvs0 = vspaces.make_kvs(vspaces.space(d, 0))
    a = dict(args)
    a["geo"] = geo
    if bbox is not None:
        used = {k: a[k] for k in list(cls.inputs().keys()) + list(cls.parameters().keys())}
        return cls(kvs0, bbox=bbox, **used)
    if two:
        # an assembler CLASS for two spaces is instantiated directly (instantiate_assembler only knows the number
        # of spaces when it is given the VForm)
        used = {k: a[k] for k in list(cls.inputs().keys()) + list(cls.parameters().keys())}
        return cls(kvs0, vspaces.make_kvs(vspaces.space(d, 1)), **used)
    bd = tuple(prog["boundary"]) if prog.get("boundary") is not None else None
    return assemble.instantiate_assembler(cls, kvs0, a, None, boundary=bd)


def compare(prog, asm, ref, label, deep=False, geo=None, args=None):
    """assembled result vs reference; returns problems"""
    from pyiga import assemble
    probs = []
    vec = any(nc is not None for nc, _ in prog["bfuns"].values())
    fam = prog["tag"].split(":")[0]
    scale = max(np.abs(ref).max(), 1e-300)
    if prog["arity"] == 1:
        got = np.asarray(assemble.assemble_entries(asm))
        want = ref
        if vec:
            got = got.reshape(got.shape[0], -1)
        else:
            got = got.reshape(-1)
        if got.shape != want.shape:
            return [("%s:%s:shape" % (label, fam), "assembled vector has %d entries %s, reference %s" % (got.size, got.shape, want.shape))]
        err = np.abs(got - want).max()
        if not err <= TOL * scale:
            probs.append(("%s:%s:value" % (label, fam), "assembled vector deviates from the Gauss sum of the integrand by %.3g (max entry %.3g)" % (err, scale)))
        return probs
    A = assemble.assemble_entries(asm)
    got = np.asarray(A.todense() if hasattr(A, "todense") else A.toarray())
    if vec:
        cv, Nv, cu, Nu = ref.shape
        want = ref.reshape(cv * Nv, cu * Nu)          # 'blocked': rows test-component * N + dof
    else:
        want = ref
    if got.shape != want.shape:
        return [("%s:%s:shape" % (label, fam), "assembled matrix has shape %s, reference %s" % (got.shape, want.shape))]
    err = np.abs(got - want).max()
    if not err <= TOL * scale:
        i, j = np.unravel_index(int(np.argmax(np.abs(got - want))), got.shape)
        probs.append(("%s:%s:value" % (label, fam), "assembled matrix deviates from the Gauss sum of the integrand by %.3g at entry (%d,%d) (max entry %.3g)" % (err, i, j, scale)))
        return probs
    if deep and not vec:
        # entry(i,j) for ALL pairs, including pairs without common support (must be exactly zero)
        Nv, Nu = want.shape
        E = np.array([[asm.entry(i, j) for j in range(Nu)] for i in range(Nv)])
        if np.abs(E - want).max() > TOL * scale:
            probs.append(("%s:%s:entry" % (label, fam), "entry(i,j) deviates from the reference by %.3g" % np.abs(E - want).max()))
        structural = ~vspaces.reference(prog, geo, args, want_support=True)
        if np.any(E[structural] != 0.0):
            probs.append(("%s:%s:entry-nonzero-without-support" % (label, fam), "entry(i,j) is non-zero for a pair without common support"))
        idx = np.array([(i, j) for i in range(Nv) for j in range(Nu)][::3], dtype=np.uintp)
        M = np.asarray(asm.multi_entries(idx))
        if np.abs(M - want[idx[:, 0], idx[:, 1]]).max() > TOL * scale:
            probs.append(("%s:%s:multi_entries" % (label, fam), "multi_entries deviates from the reference"))
    return probs


def run_batch(batch):
    """compile a list of programs in one module, assemble and compare each.  Returns list of (tag, probs, info)"""
    from pyiga import compile as C
    results = []
    built = []
    for prog in batch:
        try:
            vf = vgen.build_vform(prog)
            built.append((prog, vf))
        except Exception as e:
            if _rejection(e):
                results.append((prog, [], "rejected:%s" % type(e).__name__))
            else:
                results.append((prog, [("build:exception:%s" % type(e).__name__, "building the form raised %r" % (e,))], "error"))
    if not built:
        return results
    classes = None
    try:
        with _Quiet():
            classes = C.compile_vforms([vf for _, vf in built])
    except Exception as e:
        # find the culprit(s) individually
        for prog, _ in built:
            try:
                with _Quiet():
                    cls = C.compile_vform(vgen.build_vform(prog))
                results += check_compiled(prog, cls, "single")
            except Exception as e2:
                if _rejection(e2):
                    results.append((prog, [], "rejected:%s" % type(e2).__name__))
                else:
                    fam = prog["tag"].split(":")[0]
                    results.append((prog, [("compile:%s:exception:%s" % (fam, type(e2).__name__), "the accepted form does not build/load: %s" % (str(e2)[:300],))], "error"))
        return results
    for (prog, _), cls in zip(built, classes):
        results += check_compiled(prog, cls, "batch")
    return results


def check_compiled(prog, cls, how, deep=None):
    fam = prog["tag"].split(":")[0]
    if deep is None:
        deep = fam in ("bilin", "pg", "gw", "surf") or prog["tag"].endswith(":w*w")
    try:
        variants = [0, 1] if (prog["dim"] == 2 and prog.get("geo_dim", 2) == 2 and not prog.get("spacetime")
                              and fam in ("vcoef", "func", "bdry", "shared")) else [0]
        probs = []
        for var in variants:
            geo = vspaces.make_geo(prog, var)
            args = vspaces.make_inputs(prog)
            ref = vspaces.reference(prog, geo, args)
            asm = instantiate(cls, prog, geo, args)
            probs += compare(prog, asm, ref, "asm" if var == 0 else "asm:nurbs", deep=deep and var == 0, geo=geo, args=args)
        return [(prog, probs, "ok")]
    except Exception as e:
        if isinstance(e, (IndexError, KeyError)) and "/verif/" in (e.__traceback__.tb_frame.f_code.co_filename or "") and False:
            raise
        import traceback
        tb = traceback.extract_tb(e.__traceback__)
        where = "%s:%d" % (tb[-1].filename.split("/")[-1], tb[-1].lineno)
        return [(prog, [("assemble:%s:exception:%s" % (fam, type(e).__name__), "instantiating/assembling raised %r at %s" % (e, where))], "error")]


# ---------------------------------------------------------------------------------------------------
# other front ends / entry points
# ---------------------------------------------------------------------------------------------------

def string_case(prog):
    """the same form through assemble('<string>', ...)"""
    from pyiga import assemble
    fam = prog["tag"].split(":")[0]
    try:
        s = " + ".join(vgen.to_string(t) for t in prog["terms"])
    except ValueError:
        return [(prog, [], "nostring")]
    d = prog["dim"]
    try:
        geo = vspaces.make_geo(prog, 0)
        args = vspaces.make_inputs(prog)
        bfuns = None
        bf = prog["bfuns"]
        if any(nc is not None for nc, _ in bf.values()) or any(sp for _, sp in bf.values()):
            bfuns = [(n, bf[n][0] or 1, bf[n][1]) for n in (("u", "v") if prog["arity"] == 2 else ("v",))]
        two = any(sp == 1 for _, sp in bf.values())
        kvs0 = vspaces.make_kvs(vspaces.space(d, 0))
        kvs = (kvs0, vspaces.make_kvs(vspaces.space(d, 1))) if two else kvs0
        bd = tuple(prog["boundary"]) if prog.get("boundary") is not None else None
        with _Quiet():
            asm = assemble.instantiate_assembler(s, kvs, dict(args, geo=geo), bfuns, boundary=bd)
        ref = vspaces.reference(prog, geo, args)
        return [(prog, compare(prog, asm, ref, "string"), "ok")]
    except Exception as e:
        if _rejection(e):
            return [(prog, [], "rejected:%s" % type(e).__name__)]
        return [(prog, [("string:%s:exception:%s" % (fam, type(e).__name__), "assemble(%r) raised %r" % (s, e))], "error")]


def ondemand_case(prog):
    """on-demand assembler restricted to every proper sub-box of the cell grid: entries of dof pairs supported
    inside the box equal the full reference"""
    from pyiga import compile as C
    fam = prog["tag"].split(":")[0]
    d = prog["dim"]
    try:
        with _Quiet():
            cls = C.compile_vform(vgen.build_vform(prog), on_demand=True)
        geo = vspaces.make_geo(prog, 0)
        args = vspaces.make_inputs(prog)
        full = vspaces.reference(prog, geo, args)
        axes = vspaces.space(d, 0)
        ncell = [len(br) - 1 for (_, br, _) in axes]
        kvs0 = vspaces.make_kvs(axes)
        probs = []
        import itertools
        boxes = []
        for lo_hi in itertools.product(*[[(a, b) for a in range(n) for b in range(a + 1, n + 1)] for n in ncell]):
            boxes.append(tuple(lo_hi))
        for bbox in boxes:
            asm = instantiate(cls, prog, geo, args, bbox=bbox)
            # dofs whose support lies inside the box
            inside = []
            for a, kv in enumerate(kvs0):
                msi = np.asarray(kv.mesh_support_idx_all())
                inside.append([i for i in range(kv.numdofs) if msi[i, 0] >= bbox[a][0] and msi[i, 1] <= bbox[a][1]])
            shape = [kv.numdofs for kv in kvs0]
            dofs = [int(np.ravel_multi_index(mi, shape)) for mi in itertools.product(*inside)]
            for i in dofs:
                for j in dofs:
                    e = asm.entry(i, j)
                    if abs(e - full[i, j]) > TOL * np.abs(full).max():
                        probs.append(("ondemand:%s:value" % fam, "on-demand assembler with bbox %s: entry(%d,%d)=%r, reference %r" % (bbox, i, j, e, full[i, j])))
                        break
                if probs:
                    break
            if probs:
                break
        return [(prog, probs, "ok:%d boxes" % len(boxes))]
    except Exception as e:
        if _rejection(e):
            return [(prog, [], "rejected:%s" % type(e).__name__)]
        return [(prog, [("ondemand:%s:exception:%s" % (fam, type(e).__name__), "on-demand construction raised %r" % (e,))], "error")]


def predefined_case(case):
    from pyiga import vform, compile as C
    name, d = case["name"], case["d"]
    prog = vgen.spec_of_predefined(name, d)
    try:
        if name.startswith("L2functional_vf"):
            vf = vform.L2functional_vf(d, physical=name.endswith("physical"))
        else:
            vf = getattr(vform, name)(d)
        cls = C.compile_vform(vf)
        return check_compiled(prog, cls, "predefined", deep=(d == 2))
    except Exception as e:
        return [(prog, [("predefined:exception:%s" % type(e).__name__, "%s(%d) raised %r" % (name, d, e))], "error")]


# ---------------------------------------------------------------------------------------------------

def check_case(case):
    kind = case.get("kind", "batch")
    if kind == "batch":
        res = run_batch([case["prog"]])
    elif kind == "string":
        res = string_case(case["prog"])
    elif kind == "ondemand":
        res = ondemand_case(case["prog"])
    elif kind == "predefined":
        res = predefined_case(case)
    else:
        raise ValueError(kind)
    out = []
    for _, probs, _ in res:
        out += probs
    seen, ded = set(), []
    for k, m in out:
        if k not in seen:
            seen.add(k)
            ded.append((k, m))
    return ded


def _w(item):
    kind, payload = item
    if kind == "batch":
        return kind, run_batch(payload)
    if kind == "string":
        return kind, string_case(payload)
    if kind == "ondemand":
        return kind, ondemand_case(payload)
    return kind, predefined_case(payload)


def run(ctx):
    out = Outcome()
    progs = select_programs(ctx.tier)
    items = []
    for k in range(0, len(progs), BATCH):
        items.append(("batch", progs[k:k + BATCH]))
    strs = [p for i, p in enumerate(progs) if i % (10 if ctx.tier == "quick" else 5) == 0]
    items += [("string", p) for p in strs]
    od = [p for p in progs if p["tag"].split(":")[0] in ("bilin",) and p["dim"] <= 2 and not p.get("spacetime")]
    od = od[:: (6 if ctx.tier == "quick" else 2)]
    items += [("ondemand", p) for p in od]
    for d in (2, 3):
        for name in vgen.predefined(d):
            items.append(("predefined", {"kind": "predefined", "name": name, "d": d}))
    ctx.log("programs=%d batches=%d string=%d ondemand=%d" % (len(progs), (len(progs) + BATCH - 1) // BATCH, len(strs), len(od)))
    # simplest-first order is kept inside the batches; the expensive ones are spread by round-robin dealing
    rejected = {}
    for (kind, payload), (k2, res) in zip(items, par.pmap(_w, items, min_parallel=2, chunk=1)):
        for prog, probs, info in res:
            out.states += 1
            out.transitions += 1
            out.part(kind, cases=1)
            if info.startswith("rejected"):
                rejected[info] = rejected.get(info, 0) + 1
                out.part(kind, rejected=1)
                continue
            out.nontrivial.add((kind, prog["tag"]))
            out.outcomes.add((kind, len(probs)))
            for key, msg in probs:
                case = {"kind": kind, "prog": prog} if kind != "predefined" else payload
                out.add_violation(key, "%s [%s]: %s" % (prog["tag"], kind, msg), case)
    out.extra["explicit_rejections"] = rejected
    out.traces = out.states
    out.evaluations = out.transitions
    out.sample({"tag": progs[0]["tag"], "terms": progs[0]["terms"]})
    out.sample({"tag": progs[len(progs) // 2]["tag"], "terms": progs[len(progs) // 2]["terms"]})
    out.sample({"tag": progs[-1]["tag"], "terms": progs[-1]["terms"]})
    out.rule = ("programs of the bounded vform grammar (quick: fixed strides per family, every family and dimension represented; "
                "thorough: all, 3D product families strided) compiled through compile_vforms in batches of %d, a fixed slice "
                "through the string front end, on-demand assemblers on every sub-box of the cell grid, the 12 predefined forms; "
                "one state = one compiled program on spaces with mixed degrees/unequal dof counts/repeated knot and a curved "
                "geometry (plus the NURBS annulus for selected families); every matrix/vector entry vs the Gauss sum of the "
                "denotation; entry(i,j) for all pairs and multi_entries for the scalar families. Non-trivial = accepted programs." % BATCH)
    out.assumptions += ["geometry and input-field values/derivatives at the Gauss nodes come from the library's evaluators (decided by C02/C07)",
                        "one fixed set of numeric payloads (coefficients of fields/parameters); entries are linear in each coefficient field",
                        "tolerance 1e-10 * max|A_ref| entrywise"]
    return out
