"""C07 part A -- every evaluation route of every function kind against the reference (ref/tp.py).

A case fixes one function (kind, spline space, output shape, weights, ...).  Inside a case all routes
{f(x,y,z) scalar / array / mixed arguments, grid_eval, pointwise_eval, grid_jacobian, pointwise_jacobian,
grid_hessian} are evaluated on all point sets {tensor grid of breakpoints / adjacent floats / midpoints,
its scattered permutation, the meshgrid-shaped scattered set, single points, singleton axes} for the
function itself and for its restriction to every boundary side (names and (axis, side) pairs).

Conventions (docstrings; confirmed on f(x,y)=x^2 y): grid axes are given z..y,x (x LAST), scattered
points x FIRST, Jacobian columns (x,y,z), Hessian (xx,xy,xz,yy,yz,zz), 'left' = x low = (sdim-1, 0).

Keys: exceptions are identified by type, message words and the innermost pyiga function on the traceback;
wrong results by object kind and route.  The scattered-point routes of BSplineFunc/NurbsFunc share the
evaluators tp_bsp_*_pointwise and therefore one key family `tp_pointwise:sdim<d>`.
"""
import itertools
import re

import numpy as np

from ref import kvs as KV, tp

RTOL = 1e-10     # norm-wise; scale = max(|reference| over the full grid, 1e-2 * magnitude of the summed terms)

FACES = ("left", "right", "bottom", "top", "front", "back")


# --------------------------------------------------------------------------------------------------
# problem bookkeeping
# --------------------------------------------------------------------------------------------------

class Probs(list):
    def __init__(self):
        super().__init__()
        self._keys = set()
        self.calls = 0          # implementation calls compared against the reference
        self.notes = set()      # tolerated observations (reported in the evidence, not violations)
        self.worst = 0.0        # largest deviation / tolerance-scale ratio seen (calibration)

    def add(self, key, msg):
        if key not in self._keys:
            self._keys.add(key)
            self.append((key, msg))


def exc_slug(e):
    """canonical signature of an exception: type, first words of the message (digits removed) and the innermost
    pyiga function on the traceback (the three copies tp_bsp_*_pointwise count as one location)"""
    words = re.sub(r"[^a-z ]+", " ", str(e).lower()).split()
    where = "?"
    tb = e.__traceback__
    while tb is not None:
        co = tb.tb_frame.f_code
        if "/pyiga/" in co.co_filename.replace("\\", "/"):
            where = getattr(co, "co_qualname", co.co_name)
        tb = tb.tb_next
    where = re.sub(r"tp_bsp_\w+_pointwise", "tp_bsp_*_pointwise", where)
    where = where.replace(".<locals>", "").replace(".<listcomp>", "").replace(".<lambda>", "")
    return "%s:%s@%s" % (type(e).__name__, "-".join(words[:5]), where)


def cmp(P, key, what, got, ref, scale, squeeze_ok=False, rtol=RTOL):
    """|got - ref| <= rtol * scale; `scale` is a number or one number per entry of the last axis (derivative
    direction).  squeeze_ok: a function of output shape (1,) is 'scalar-valued' by the BSplineFunc docstring, so
    an elided component axis is accepted for its derivative arrays."""
    P.calls += 1
    try:
        got = np.asarray(got, dtype=float)
    except Exception as e:
        P.add(key + ":malformed", "%s: result is not an array (%r)" % (what, e))
        return False
    ref = np.asarray(ref, dtype=float)
    if got.shape != ref.shape:
        if squeeze_ok and got.size == ref.size:
            got = got.reshape(ref.shape)
        else:
            P.add(key + ":shape", "%s: result shape %s, expected %s" % (what, got.shape, ref.shape))
            return False
    if ref.size == 0:
        return True
    if not np.all(np.isfinite(got)):
        P.add(key + ":nonfinite", "%s: non-finite values" % what)
        return False
    scale = np.asarray(scale, dtype=float)
    if scale.ndim == 1:
        err = np.abs(got - ref).reshape(-1, ref.shape[-1]).max(axis=0)
        ratio = err / scale
        c = int(np.argmax(ratio))
        P.worst = max(P.worst, float(ratio[c]))
        if ratio[c] > rtol:
            P.add(key + ":value", "%s: derivative component %d deviates from the reference by %.3g (scale %.3g)"
                  % (what, c, err[c], scale[c]))
            return False
        return True
    err = float(np.abs(got - ref).max())
    P.worst = max(P.worst, err / float(scale))
    if err > rtol * scale:
        P.add(key + ":value", "%s: deviates from the reference by %.3g (scale %.3g)" % (what, err, float(scale)))
        return False
    return True


# --------------------------------------------------------------------------------------------------
# reference providers: full-grid reference arrays, everything else is a slice of them
# --------------------------------------------------------------------------------------------------

def _colmax(A):
    return np.abs(A).reshape(-1, A.shape[-1]).max(axis=0)


class Prov:
    """full-grid reference: val grid+oshape, jac grid+oshape+(d,), hess grid+oshape+(d(d+1)/2,); *_s the
    tolerance scales (termscale = magnitude of the terms that are summed, so that cancellation noise in a
    small or vanishing derivative is not mistaken for a deviation)"""

    def __init__(self, pts, oshape, val, jac=None, hess=None, vterm=1.0, jterm=None, hterm=None, jac_full=None, jfterm=None):
        self.pts = [np.asarray(p, dtype=float) for p in pts]
        self.sdim = len(self.pts)
        self.oshape = tuple(oshape)
        self.val, self.jac, self.hess, self.jac_full = val, jac, hess, jac_full
        self.vterm, self.jterm, self.hterm, self.jfterm = vterm, jterm, hterm, jfterm
        self.val_s = max(float(np.abs(val).max()) if val.size else 0.0, 1e-2 * vterm)
        self.jac_s = None if jac is None else np.maximum(_colmax(jac), 1e-2 * np.asarray(jterm))
        self.hess_s = None if hess is None else np.maximum(_colmax(hess), 1e-2 * np.asarray(hterm))
        self.jacf_s = None if jac_full is None else np.maximum(_colmax(jac_full), 1e-2 * np.asarray(jfterm))

    def shape(self):
        return tuple(len(p) for p in self.pts)

    def with_component_axis(self):
        """the same scalar function seen as a function of output shape (1,)"""
        assert self.oshape == ()
        d = self.sdim

        def ex(A, k):
            return None if A is None else np.expand_dims(A, d)
        return Prov(self.pts, (1,), ex(self.val, 0), ex(self.jac, 1), ex(self.hess, 1), self.vterm, self.jterm, self.hterm,
                    ex(self.jac_full, 1), self.jfterm)


def spline_prov(sref, pts, hint):
    r = sref.on_grid(pts, want=2)
    sp, d = sref.sp, sref.d
    D = [[float(np.abs(sp.colloc(a, pts[a], k)).max()) for k in range(3)] for a in range(d)]
    kappa = 1.0 if sref.w is None else float(sref.w.max() / sref.w.min()) ** 2

    def term(t):
        return hint * kappa * float(np.prod([D[a][t[a]] for a in range(d)]))
    jt = [term(t) for t in tp.jac_ders(d)]
    ht = [max(term(t), hint * kappa * D[d - 1 - c1][1] * D[d - 1 - c2][1]) for (c1, c2), t in zip(tp.hess_pairs(d), tp.hess_ders(d))]
    return Prov(pts, sref.oshape, r["val"], r["jac"], r["hess"], hint * kappa, jt, ht)


def bd_prov(par, axis, side):
    """restriction to one side: the parent's grid must contain the boundary coordinate as first/last point"""
    d = par.sdim
    i = 0 if side == 0 else len(par.pts[axis]) - 1
    col = d - 1 - axis                           # Jacobian column of the normal direction (x first)

    def take(A):
        return None if A is None else np.take(A, i, axis=axis)
    jac_full = take(par.jac)
    jac = jterm = None
    if jac_full is not None:
        jac = np.delete(jac_full, col, axis=-1)
        jterm = np.delete(np.asarray(par.jterm), col)
    hess = take(par.hess)
    hterm = None
    if hess is not None:
        keep = [k for k, (c1, c2) in enumerate(tp.hess_pairs(d)) if col not in (c1, c2)]
        hess = hess[..., keep]
        hterm = np.asarray(par.hterm)[keep]
    pts = [p for a, p in enumerate(par.pts) if a != axis]
    return Prov(pts, par.oshape, take(par.val), jac, hess, par.vterm, jterm, hterm, jac_full=jac_full, jfterm=par.jterm)


def bdspecs(d):
    """all admissible boundary specifications of a d-dimensional parameter domain: (spec, axis, side)"""
    out = []
    for k in range(d):
        for side in (0, 1):
            out.append((FACES[2 * k + side], d - 1 - k, side))
    for a in range(d):
        for side in (0, 1):
            out.append(([a, side], a, side))
    return out


# --------------------------------------------------------------------------------------------------
# the generic route checker
# --------------------------------------------------------------------------------------------------

def _single_indices(shape):
    """index tuples of the single points: corners lo/hi, the middle, staggered interior points"""
    d = len(shape)
    out = [tuple(0 for _ in shape), tuple(n - 1 for n in shape), tuple(n // 2 for n in shape)]
    out.append(tuple((n // 3 + a) % n for a, n in enumerate(shape)))
    out.append(tuple((2 * n // 3 + 2 * a + 1) % n for a, n in enumerate(shape)))
    if d == 1 and shape[0] <= 16:
        out = [(i,) for i in range(shape[0])]
    seen, res = set(), []
    for t in out:
        if t not in seen:
            seen.add(t)
            res.append(t)
    return res


_RANK = {0: "", 1: "", 2: "[jacobian of a matrix-valued function]"}


def _strided(g):
    """the same values as a non-contiguous view (every other element of a twice as long last axis)"""
    big = np.full(g.shape[:-1] + (2 * g.shape[-1],), np.nan)
    big[..., ::2] = g
    return big[..., ::2]


_LAYOUTS = (("Fortran-ordered", np.asfortranarray), ("strided view", _strided))


def check_routes(P, f, prov, tag, caps, callsem="grid", pointfam=False, light=False, what=""):
    """compare every route in `caps` of the function object f with the reference provider.
    tag: key prefix of the object kind; pointfam: the scattered-point routes go through tp_bsp_*_pointwise and
    get the family key.  light: main routes on the full grid only.  A route that already failed on the full
    grid is not evaluated on the derived point sets (same key anyway)."""
    d, osh, pts = prov.sdim, prov.oshape, prov.pts
    shape = prov.shape()
    sq = osh == (1,)
    failed = set()

    def run(route, key, desc, fn, ref, scale, squeeze_ok=False):
        if route in failed:
            return
        try:
            v = fn()
        except Exception as e:
            P.calls += 1
            P.add("exception:%s" % exc_slug(e), "%s%s raised %r" % (what, desc, e))
            failed.add(route)
            return
        if not cmp(P, key, what + desc, v, ref, scale, squeeze_ok=squeeze_ok):
            failed.add(route)

    grid = tuple(pts)
    # ---- grid routes on the full tensor grid
    if "grid_eval" in caps:
        run("grid_eval", tag + ":grid_eval", "grid_eval(full grid)", lambda: f.grid_eval(grid), prov.val, prov.val_s)
    if "grid_jacobian" in caps and prov.jac is not None:
        run("grid_jacobian", tag + ":grid_jacobian", "grid_jacobian(full grid)", lambda: f.grid_jacobian(grid), prov.jac, prov.jac_s, sq)
    if "keep_normal" in caps and prov.jac_full is not None:
        run("keep_normal", tag + ":grid_jacobian(keep_normal)", "grid_jacobian(full grid, keep_normal=True)",
            lambda: f.grid_jacobian(grid, keep_normal=True), prov.jac_full, prov.jacf_s, sq)
    if "grid_hessian" in caps and prov.hess is not None:
        run("grid_hessian", tag + ":grid_hessian", "grid_hessian(full grid)", lambda: f.grid_hessian(grid), prov.hess, prov.hess_s, sq)

    # ---- scattered routes: meshgrid-shaped, flat scrambled permutation of the grid, single points
    G = np.meshgrid(*pts, indexing="ij")
    xyz_mesh = [G[d - 1 - c] for c in range(d)]                       # x first
    n = int(np.prod(shape))
    perm = np.argsort((np.arange(n) * 7919) % n, kind="stable")
    xyz_perm = [g.ravel()[perm] for g in xyz_mesh]
    singles = _single_indices(shape)
    fam = ("tp_pointwise:sdim%d" % d) if pointfam else None
    famj = ("tp_pointwise%s:sdim%d" % (_RANK[len(osh)], d)) if pointfam else None

    def flat(A, extra):
        return A.reshape((n,) + osh + extra)[perm]

    def single_pt(t):
        return [np.array([pts[d - 1 - c][t[d - 1 - c]]]) for c in range(d)]

    if "pointwise_eval" in caps:
        key = fam or (tag + ":pointwise_eval")
        run("pointwise_eval", key, "pointwise_eval(meshgrid-shaped points)", lambda: f.pointwise_eval(xyz_mesh), prov.val, prov.val_s)
        # the same points in other memory layouts (Fortran order, every-other-element view): the layout of the
        # coordinate arrays is not part of their meaning
        for lname, lay in _LAYOUTS:
            if d == 1 and lname == "Fortran-ordered":
                continue
            run("pointwise_eval", key, "pointwise_eval(meshgrid-shaped points, %s)" % lname,
                lambda: f.pointwise_eval([lay(g) for g in xyz_mesh]), prov.val, prov.val_s)
        if not light:
            run("pointwise_eval", key, "pointwise_eval(scrambled grid points)", lambda: f.pointwise_eval(xyz_perm), flat(prov.val, ()), prov.val_s)
            for t in singles[:3]:
                run("pointwise_eval", key, "pointwise_eval(single point %s)" % (t,), lambda: f.pointwise_eval(single_pt(t)),
                    prov.val[t][None], prov.val_s)
    if "pointwise_jacobian" in caps and prov.jac is not None:
        key = famj or (tag + ":pointwise_jacobian")
        run("pointwise_jacobian", key, "pointwise_jacobian(meshgrid-shaped points)", lambda: f.pointwise_jacobian(xyz_mesh),
            prov.jac, prov.jac_s, sq)
        for lname, lay in _LAYOUTS:
            if d == 1 and lname == "Fortran-ordered":
                continue
            run("pointwise_jacobian", key, "pointwise_jacobian(meshgrid-shaped points, %s)" % lname,
                lambda: f.pointwise_jacobian([lay(g) for g in xyz_mesh]), prov.jac, prov.jac_s, sq)
        if not light:
            run("pointwise_jacobian", key, "pointwise_jacobian(scrambled grid points)", lambda: f.pointwise_jacobian(xyz_perm),
                flat(prov.jac, (d,)), prov.jac_s, sq)
            for t in singles[:3]:
                run("pointwise_jacobian", key, "pointwise_jacobian(single point %s)" % (t,), lambda: f.pointwise_jacobian(single_pt(t)),
                    prov.jac[t][None], prov.jac_s, sq)

    # ---- calls
    if "call" in caps:
        for t in singles:
            args = [float(pts[d - 1 - c][t[d - 1 - c]]) for c in range(d)]
            for form in ("float", "np.float64"):
                a = args if form == "float" else [np.float64(x) for x in args]
                run("call(scalars)", tag + ":call(scalars)", "f(*%r) [%s arguments]" % (args, form), lambda: f(*a), prov.val[t], prov.val_s)
                if light:
                    break
        if callsem == "grid":
            # array arguments span a tensor grid (test_geometry: geo(x, y, z) == geo.grid_eval((z, y, [x]))[:, :, 0])
            run("call(arrays)", tag + ":call(arrays)", "f(x_axis, y_axis, ...) with array arguments",
                lambda: f(*[pts[d - 1 - c] for c in range(d)]), prov.val, prov.val_s)
            if d >= 2 and not light:
                for c in range(d):          # the c-th argument (xyz order) is a scalar, the others are arrays/lists
                    a = d - 1 - c
                    k = shape[a] // 2
                    args = [float(pts[a][k]) if cc == c else (pts[d - 1 - cc] if (cc + c) % 2 else list(pts[d - 1 - cc])) for cc in range(d)]
                    run("call(mixed)", tag + ":call(mixed)", "f(...) with scalar argument %d and array/list arguments elsewhere" % c,
                        lambda: f(*args), np.take(prov.val, k, axis=a), prov.val_s)
        elif callsem == "pointwise":
            run("call(arrays)", tag + ":call(arrays)", "f(X, Y, ...) with equally shaped arrays", lambda: f(*xyz_mesh), prov.val, prov.val_s)

    if light:
        return
    # ---- singleton axes (given as lists, as in test_geometry) and the all-singleton grid
    variants = []
    for a in range(d):
        idx = [np.arange(m) for m in shape]
        idx[a] = np.array([(shape[a] // 2 + a) % shape[a]])
        variants.append(("axis %d singleton" % a, idx))
    if d >= 2:
        variants.append(("all axes singleton", [np.array([(m // 3) % m]) for m in shape]))
    for name, idx in variants:
        axes = tuple((pts[a][idx[a]] if len(idx[a]) > 1 else [float(pts[a][idx[a][0]])]) for a in range(d))
        ix = np.ix_(*idx)
        if "grid_eval" in caps:
            run("grid_eval", tag + ":grid_eval:singleton", "grid_eval(%s)" % name, lambda: f.grid_eval(axes), prov.val[ix], prov.val_s)
        if "grid_jacobian" in caps and prov.jac is not None:
            run("grid_jacobian", tag + ":grid_jacobian:singleton", "grid_jacobian(%s)" % name, lambda: f.grid_jacobian(axes),
                prov.jac[ix], prov.jac_s, sq)
        if "grid_hessian" in caps and prov.hess is not None and n * max(1, int(np.prod(osh))) < 50000:
            run("grid_hessian", tag + ":grid_hessian:singleton", "grid_hessian(%s)" % name, lambda: f.grid_hessian(axes),
                prov.hess[ix], prov.hess_s, sq)


def check_attrs(P, f, tag, sdim, oshape, support=None):
    try:
        if f.sdim != sdim:
            P.add(tag + ":attr:sdim", "sdim=%r, expected %d" % (f.sdim, sdim))
        if hasattr(f, "output_shape") and tuple(f.output_shape()) != tuple(oshape):
            P.add(tag + ":attr:output_shape", "output_shape()=%r, expected %r" % (f.output_shape(), tuple(oshape)))
        if len(oshape) <= 1:
            want = oshape[0] if oshape else 1
            if f.dim != want:
                P.add(tag + ":attr:dim", "dim=%r, expected %d" % (f.dim, want))
        if support is not None:
            got = tuple(tuple(float(x) for x in s) for s in f.support)
            if got != tuple(tuple(float(x) for x in s) for s in support):
                P.add(tag + ":attr:support", "support=%r, expected %r" % (got, support))
    except Exception as e:
        P.add("exception:%s" % exc_slug(e), "attribute access on %s raised %r" % (tag, e))


SPLINE_CAPS = {"call", "grid_eval", "pointwise_eval", "grid_jacobian", "pointwise_jacobian", "grid_hessian"}


def check_boundaries(P, f, prov, tag, caps, callsem, pointfam=False, names_only=False):
    """every side, by name and by (axis, side) pair.  The name variant gets all routes, the pair variant the
    main ones (both go through the same parser and must denote the same side)."""
    from pyiga import bspline, geometry
    d = prov.sdim
    if d < 2:
        return
    for spec, axis, side in bdspecs(d):
        byname = isinstance(spec, str)
        if names_only and not byname:
            continue
        arg = spec if byname else tuple(spec)
        what = "boundary(%r)." % (arg,)
        try:
            b = f.boundary(arg)
        except Exception as e:
            P.calls += 1
            P.add("exception:%s" % exc_slug(e), "boundary(%r) raised %r" % (arg, e))
            continue
        bp = bd_prov(prov, axis, side)
        if isinstance(b, (bspline.BSplineFunc, geometry.NurbsFunc)):
            # "has sdim reduced by 1 and the same dim": a scalar NURBS comes back with output shape (1,), which the
            # class docstring also calls scalar-valued -> tolerated, noted
            try:
                if bp.oshape == () and tuple(b.output_shape()) == (1,):
                    bp = bp.with_component_axis()
                    P.notes.add("boundary: scalar-valued %s returned with output shape (1,) instead of ()" % type(b).__name__)
            except Exception:
                pass
            # the restriction itself: coefficient slicing must give the parent's values on that side
            try:
                P.calls += 1
                v = b.grid_eval(tuple(bp.pts))
            except Exception as e:
                P.add("exception:%s" % exc_slug(e), what + "grid_eval raised %r" % (e,))
                continue
            if not cmp(P, tag + ".boundary:grid_eval", what + "grid_eval(full grid)", v, bp.val, bp.val_s):
                continue
            btag, bcaps, bfam = tag, set(caps), pointfam       # from here on an ordinary spline function of sdim-1
        elif isinstance(b, geometry.ComposedFunction):
            btag, bcaps, bfam = tag + ".boundary", set(caps), False
        else:
            btag = "bdfunc(%s)" % tag
            bcaps = {"call", "grid_eval"}
            if "grid_jacobian" in caps:
                bcaps |= {"grid_jacobian", "keep_normal"}
            bfam = False
        if len(bp.oshape) > 1:
            bcaps.discard("grid_hessian")
        check_attrs(P, b, btag, d - 1, bp.oshape)
        check_routes(P, b, bp, btag, bcaps, callsem, pointfam=bfam, light=not byname, what=what)


# --------------------------------------------------------------------------------------------------
# spline / NURBS functions
# --------------------------------------------------------------------------------------------------

def axes_data(axes):
    knots, degs, breaks = [], [], []
    for (p, name, m) in axes:
        br = KV.PATTERNS[name]
        knots.append(KV.knots_from(br, m, p))
        degs.append(int(p))
        breaks.append(list(br))
    return knots, degs, breaks


def axis_points(br, p, thin=False):
    """PT of one axis: breakpoints, adjacent floats, midpoints (thin: only the left neighbours of the interior
    breakpoints and of the right end -- the breakpoints themselves belong to the span on their right)"""
    if not thin:
        return KV.eval_points(br, p, gauss=False)
    pts = set(float(b) for b in br)
    pts |= {float((a + b) / 2) for a, b in zip(br[:-1], br[1:])}
    pts |= {float(np.nextafter(b, -np.inf)) for b in br[1:]}
    return sorted(pts)


def make_kvs(knots, degs):
    from pyiga import bspline
    return tuple(bspline.KnotVector(np.array(kn, dtype=float), p) for kn, p in zip(knots, degs))


def payload(N, oshape, seed):
    """unit: all unit coefficient tensors at once (component c = c-th unit tensor); otherwise small integers"""
    N = tuple(N)
    if oshape == "unit":
        ntot = int(np.prod(N))
        return np.eye(ntot).reshape(N + (ntot,))
    shp = N + tuple(oshape)
    k = np.arange(int(np.prod(shp)))
    return (((k * 7 + 3 * seed + k // 5) % 23) - 11).astype(float).reshape(shp)


def weights_of(N, name):
    N = tuple(N)
    if name == "one":
        return np.ones(N)
    if name == "two":
        return 2.0 * np.ones(N)
    I = np.indices(N)
    e = sum((a + 1) * I[a] for a in range(len(N))) % 4
    return 2.0 ** (e - 1.0)            # graded positive: 0.5, 1, 2, 4


def sub_box(breaks):
    """restricted support: strictly inside the first and the last span of every axis"""
    box = []
    for br in breaks:
        lo = br[0] + 0.3 * (br[1] - br[0])
        hi = br[-1] - 0.2 * (br[-1] - br[-2])
        box.append((float(lo), float(hi)))
    return box


def make_spline(case, knots, degs, N):
    """-> (pyiga object, SplineRef, coefficient array)"""
    from pyiga import bspline, geometry
    kvs = make_kvs(knots, degs)
    osh = case["oshape"]
    C = payload(N, osh if osh == "unit" else tuple(osh), case.get("seed", 0))
    space = tp.TPSpace(knots, degs)
    if case["kind"] == "bspline":
        return bspline.BSplineFunc(kvs, C.copy()), tp.SplineRef(space, C), C
    W = weights_of(N, case["weights"])
    ctor = case.get("ctor", "sep")
    ex = (Ellipsis,) + (None,) * (C.ndim - len(N))
    if ctor == "sep":
        f = geometry.NurbsFunc(kvs, C.copy(), W.copy())
    elif ctor == "premult":
        f = geometry.NurbsFunc(kvs, C * W[ex], W.copy(), premultiplied=True)
    elif ctor == "packed":
        assert C.ndim == len(N) + 1
        f = geometry.NurbsFunc(kvs, np.concatenate((C, W[..., None]), axis=-1), None)
    else:
        raise ValueError(ctor)
    return f, tp.SplineRef(space, C, W), C


def check_spline(case):
    P = Probs()
    knots, degs, breaks = axes_data(case["axes"])
    d = len(degs)
    N = tuple(len(kn) - p - 1 for kn, p in zip(knots, degs))
    kind = case["kind"]
    try:
        f, sref, C = make_spline(case, knots, degs, N)
    except Exception as e:
        P.add("exception:%s" % exc_slug(e), "%s constructor raised %r" % (kind, e))
        return P
    osh = sref.oshape
    hint = float(np.abs(C).max())
    caps = set(SPLINE_CAPS)
    if len(osh) > 1:
        caps.discard("grid_hessian")      # documented: Hessian for scalar and vector functions only
    support = [(br[0], br[-1]) for br in breaks]
    heavy = d == 3 and case["oshape"] == "unit"
    if case.get("restrict"):
        box = sub_box(breaks)
        try:
            f.support = tuple(box)
        except Exception as e:
            P.add("exception:%s" % exc_slug(e), "support setter raised %r" % (e,))
            return P
        pts = [axis_points([lo] + [b for b in br[1:-1] if lo < b < hi] + [hi], p) for (lo, hi), br, p in zip(box, breaks, degs)]
        prov = spline_prov(sref, pts, hint)
        tag = kind + "[restricted]"
        check_attrs(P, f, tag, d, osh, support=box)
        check_routes(P, f, prov, tag, caps, "grid", pointfam=True, light=True)
        check_boundaries(P, f, prov, kind, caps, "grid", pointfam=True)
        return P
    pts = [axis_points(br, p, thin=(d == 3)) for br, p in zip(breaks, degs)]
    prov = spline_prov(sref, pts, hint)
    check_attrs(P, f, kind, d, osh, support=support)
    check_routes(P, f, prov, kind, caps, "grid", pointfam=True)
    check_boundaries(P, f, prov, kind, caps, "grid", pointfam=True, names_only=heavy)
    return P


# --------------------------------------------------------------------------------------------------
# user-defined functions
# --------------------------------------------------------------------------------------------------

def _components(s):
    """scalar component functions u, v, w of s variables with their exact gradients (x first)"""
    if s == 1:
        return [(lambda x: x ** 3 - 2 * x, lambda x: (3 * x ** 2 - 2,)),
                (lambda x: np.sin(x), lambda x: (np.cos(x),)),
                (lambda x: 1 / (2 + x), lambda x: (-1 / (2 + x) ** 2,))]
    if s == 2:
        return [(lambda x, y: x ** 2 * y + 0.5 * y, lambda x, y: (2 * x * y, x ** 2 + 0.5)),
                (lambda x, y: x - 3 * y ** 2, lambda x, y: (1 + 0 * x, -6 * y)),
                (lambda x, y: np.exp(x * y / 4), lambda x, y: (y / 4 * np.exp(x * y / 4), x / 4 * np.exp(x * y / 4)))]
    return [(lambda x, y, z: x ** 2 * y + y * z ** 2 - z, lambda x, y, z: (2 * x * y, x ** 2 + z ** 2, 2 * y * z - 1)),
            (lambda x, y, z: x * y * z + 2 * x, lambda x, y, z: (y * z + 2, x * z, x * y)),
            (lambda x, y, z: z - x ** 2, lambda x, y, z: (-2 * x, 0 * y, 1 + 0 * z))]


_LAYOUT = {(): [0], (1,): [0], (2,): [0, 1], (3,): [0, 1, 2], (2, 2): [0, 1, 2, 0]}
USER_SUPPORT = {1: [(-1.0, 2.0)], 2: [(0.5, 1.5), (-1.0, 2.0)], 3: [(0.0, 1.0), (0.5, 1.5), (-1.0, 2.0)]}


def user_callables(s, form, oshape):
    """-> (f, jac or None): f is what a user would write; jac returns grid-shaped (.., *oshape, s) arrays"""
    comps = _components(s)
    oshape = tuple(oshape)
    if form == "array":
        lay = _LAYOUT[oshape]

        def f(*a):
            a = np.broadcast_arrays(*a)
            vals = [comps[k][0](*a) for k in lay]
            if oshape == ():
                return vals[0]
            return np.stack(vals, axis=-1).reshape(np.shape(vals[0]) + oshape)

        def jac(*a):
            a = np.broadcast_arrays(*a)
            rows = []
            for k in lay:
                g = comps[k][1](*a)
                rows.append(np.stack([np.broadcast_to(gi, np.shape(a[0])) + 0.0 for gi in g], axis=-1))
            if oshape == ():
                return rows[0]
            return np.stack(rows, axis=-2).reshape(np.shape(a[0]) + oshape + (s,))
        return f, jac
    if form == "tuple":          # components of different broadcast shapes, one constant
        u = comps[0][0]
        if oshape == (2,):
            return (lambda *a: (a[0] * 2.0, u(*a))), None
        return (lambda *a: (u(*a), 1.5, a[0] * 2.0)), None
    if form == "partial_x":      # ignores all arguments but x
        return (lambda *a: a[0] ** 2), None
    if form == "partial_last":   # depends only on the last argument
        return (lambda *a: 3.0 * a[-1] + 1.0), None
    if form == "const":
        return (lambda *a: 2.5), None
    raise ValueError(form)


def user_prov(f, jac, support, oshape):
    s = len(support)
    pts = [[lo, float(np.nextafter(lo, np.inf)), lo + 0.3 * (hi - lo), (lo + hi) / 2, hi] for lo, hi in support]
    shape = tuple(len(p) for p in pts)
    val = np.empty(shape + tuple(oshape))
    J = np.empty(shape + tuple(oshape) + (s,)) if jac is not None else None
    for t in itertools.product(*[range(m) for m in shape]):
        args = [pts[s - 1 - c][t[s - 1 - c]] for c in range(s)]       # x first
        val[t] = np.asarray(f(*args), dtype=float)
        if jac is not None:
            J[t] = jac(*args)
    vs = max(1.0, float(np.abs(val).max()))
    js = None if J is None else [max(1.0, float(np.abs(J).max()))] * s
    return Prov(pts, oshape, val, J, None, 100 * vs, None if js is None else [100 * x for x in js])


def check_user(case):
    from pyiga import geometry
    P = Probs()
    s, form, osh = case["sdim"], case["form"], tuple(case["oshape"])
    f, jac = user_callables(s, form, osh)
    jacarg = jac if case.get("jac") else None
    support = USER_SUPPORT[s]
    kw = {}
    if case.get("dimarg"):
        kw["dim"] = osh[0]
    try:
        F = geometry.UserFunction(f, [list(x) for x in support], jac=jacarg, **kw)
    except Exception as e:
        P.add("exception:%s" % exc_slug(e), "UserFunction(...) raised %r" % (e,))
        return P
    prov = user_prov(f, jacarg, support, osh)
    caps = {"grid_eval", "call"}
    if jacarg is not None:
        caps.add("grid_jacobian")
    callsem = "none"
    if form == "array":
        caps.add("pointwise_eval")
        callsem = "pointwise"
    check_attrs(P, F, "user", s, osh, support=support)
    check_routes(P, F, prov, "user", caps, callsem)
    check_boundaries(P, F, prov, "user", caps, callsem)
    return P


# --------------------------------------------------------------------------------------------------
# composed functions
# --------------------------------------------------------------------------------------------------

INNER_AXES = {1: [[2, "U2", [1]]], 2: [[1, "U2", [1]], [2, "U1", []]], 3: [[1, "U1", []], [2, "U1", []], [1, "U2", [1]]]}
OUTER_AXES = {1: [[3, "S3", [1, 2]]], 2: [[2, "S3", [1, 2]], [3, "U2", [2]]],
              3: [[1, "U2", [1]], [2, "S3", [2, 1]], [3, "U1", []]]}


def inner_coeffs(N, box_xyz, seed):
    """control points inside the outer support box (xyz order); the parameter corners are mapped to corners of
    the box, every other control point strictly inside"""
    s, m = len(N), len(box_xyz)
    C = np.empty(tuple(N) + (m,))
    for I in itertools.product(*[range(n) for n in N]):
        corner = all(i in (0, n - 1) for i, n in zip(I, N))
        lin = int(np.ravel_multi_index(I, N))
        for c, (lo, hi) in enumerate(box_xyz):
            if corner:
                u = 1.0 if I[c % s] else 0.0
            else:
                u = 0.05 + 0.9 * (((lin + 1) * (c + 2) * 0.6180339887498949 + 0.37 * seed) % 1.0)
            C[I + (c,)] = lo + (hi - lo) * u
    return C


def check_composed(case):
    from pyiga import bspline, geometry
    P = Probs()
    s, m = case["sdim"], case["mdim"]
    seed = case.get("seed", 0)
    osh = tuple(case["oshape"])
    okind = case["outer"]
    if okind == "user":
        support2 = USER_SUPPORT[m]
        uf, ujac = user_callables(m, "array", osh)
        geo2 = geometry.UserFunction(uf, [list(x) for x in support2])
        oref = None
    else:
        knots2, degs2, breaks2 = axes_data(OUTER_AXES[m])
        N2 = tuple(len(kn) - p - 1 for kn, p in zip(knots2, degs2))
        sub = {"kind": okind, "oshape": list(osh), "weights": "graded", "ctor": "sep", "seed": seed}
        geo2, oref, C2 = make_spline(sub, knots2, degs2, N2)
        support2 = [(br[0], br[-1]) for br in breaks2]
    box_xyz = [support2[m - 1 - c] for c in range(m)]
    knots1, degs1, breaks1 = axes_data(INNER_AXES[s])
    N1 = tuple(len(kn) - p - 1 for kn, p in zip(knots1, degs1))
    C1 = inner_coeffs(N1, box_xyz, seed)
    space1 = tp.TPSpace(knots1, degs1)
    kvs1 = make_kvs(knots1, degs1)
    if case["inner"] == "bspline":
        geo1 = bspline.BSplineFunc(kvs1, C1.copy())
        iref = tp.SplineRef(space1, C1)
    else:
        W1 = weights_of(N1, "graded")
        geo1 = geometry.NurbsFunc(kvs1, C1.copy(), W1.copy())
        iref = tp.SplineRef(space1, C1, W1)
    pts = [sorted(set(br) | {(a + b) / 2 for a, b in zip(br[:-1], br[1:])}) for br in breaks1]
    iprov = spline_prov(iref, pts, float(np.abs(C1).max()))
    grid = tuple(np.array(p) for p in pts)
    try:
        XY = np.asarray(geo1.grid_eval(grid))
        J1 = np.asarray(geo1.grid_jacobian(grid))
    except Exception as e:
        P.add("exception:%s" % exc_slug(e), "inner function of the composition raised %r" % (e,))
        return P
    if not (cmp(P, "composed:inner", "inner grid_eval", XY, iprov.val, iprov.val_s, rtol=1e-12)
            and cmp(P, "composed:inner", "inner grid_jacobian", J1, iprov.jac, iprov.jac_s, rtol=1e-12)):
        return P
    # reference of the outer function at the image points actually produced (identical floats)
    Pts = [XY[..., m - 1 - a].ravel() for a in range(m)]           # kv axis order of the outer function
    gshape = XY.shape[:-1]
    j1max = float(np.abs(iprov.jac).max())
    if oref is not None:
        r2 = oref.at_points(Pts, want=1)
        val = r2["val"].reshape(gshape + osh)
        jac2 = r2["jac"].reshape(gshape + osh + (m,))
        oprov = spline_prov(oref, [axis_points(br, p) for br, p in zip(breaks2, degs2)], float(np.abs(C2).max()))
        vterm, j2term = oprov.vterm, oprov.jterm
    else:
        val = np.empty(gshape + osh)
        jac2 = None
        for t in itertools.product(*[range(k) for k in gshape]):
            val[t] = uf(*[float(x) for x in XY[t]])
        vterm = 100 * max(1.0, float(np.abs(val).max()))
    val_s = max(float(np.abs(val).max()), 1e-2 * vterm)
    xyz = np.rollaxis(XY, -1)
    # the outer function's own scattered routes at genuinely scattered points
    fam = ("tp_pointwise:sdim%d" % m) if okind != "user" else "user:pointwise_eval"
    famj = "tp_pointwise%s:sdim%d" % (_RANK[len(osh)], m)
    broken = False
    try:
        v = geo2.pointwise_eval(xyz)
        if not cmp(P, fam, "outer.pointwise_eval(image points of the inner map)", v, val, val_s):
            broken = True
    except Exception as e:
        P.calls += 1
        P.add("exception:%s" % exc_slug(e), "outer.pointwise_eval(image points of the inner map) raised %r" % (e,))
        broken = True
    jac = None
    jbroken = jac2 is None
    if jac2 is not None:
        jac2_s = np.maximum(_colmax(jac2), 1e-2 * np.asarray(j2term))
        try:
            v = geo2.pointwise_jacobian(xyz)
            if not cmp(P, famj, "outer.pointwise_jacobian(image points of the inner map)", v, jac2, jac2_s):
                jbroken = True
        except Exception as e:
            P.calls += 1
            P.add("exception:%s" % exc_slug(e), "outer.pointwise_jacobian(image points of the inner map) raised %r" % (e,))
            jbroken = True
        if osh == ():
            jac = np.einsum("...m,...ms->...s", jac2, iprov.jac)
        else:
            jac = np.einsum("...om,...ms->...os", jac2, iprov.jac)
    if broken:
        return P          # the composition evaluates through the broken route; reported under its own key above
    try:
        geo = geometry.ComposedFunction(geo2, geo1)
    except Exception as e:
        P.add("exception:%s" % exc_slug(e), "ComposedFunction raised %r" % (e,))
        return P
    jterm = None if jac is None else [float(jac2_s.max()) * j1max * m * 100] * s
    scalar_outer = osh == () and not jbroken
    prov = Prov(pts, osh, val, None if (jbroken or scalar_outer) else jac, None, vterm, jterm)
    caps = {"call", "grid_eval"} | (set() if (jbroken or scalar_outer) else {"grid_jacobian"})
    check_attrs(P, geo, "composed", s, osh, support=[(br[0], br[-1]) for br in breaks1])
    check_routes(P, geo, prov, "composed", caps, "grid")
    check_boundaries(P, geo, prov, "composed", caps, "grid")
    if scalar_outer:
        # gradient of a scalar function of the image: one key whatever the symptom (shape, exception, values)
        jprov = Prov(pts, osh, val, jac, None, vterm, jterm)
        Q = Probs()
        try:
            cmp(Q, "j", "grid_jacobian(full grid)", geo.grid_jacobian(grid), jprov.jac, jprov.jac_s)
        except Exception as e:
            Q.add("j", "grid_jacobian(full grid) raised %r" % (e,))
        P.calls += 1
        if Q:
            P.add("composed:grid_jacobian[scalar outer function]", "ComposedFunction of a scalar-valued outer function: " + Q[0][1])
    return P


def check_func(case):
    k = case["kind"]
    if k in ("bspline", "nurbs"):
        return check_spline(case)
    if k == "user":
        return check_user(case)
    if k == "composed":
        return check_composed(case)
    raise ValueError(k)


# --------------------------------------------------------------------------------------------------
# enumeration
# --------------------------------------------------------------------------------------------------

def axis_alphabet(p):
    """knot-vector shapes of one axis: Bezier, one (repeated) interior knot, graded with a C^0 knot,
    shifted non-unit domain with a repeated knot"""
    return [[p, "U1", []], [p, "U2", [min(p, 2)]], [p, "G3", [p, 1]], [p, "S3", [1, min(p, 2)]]]


def spaces(tier):
    """axes lists, simplest first; sdim 1: all degree x pattern; sdim 2/3: all degree tuples over {1,2,3}, the
    pattern tuples rotate through the alphabet (quick) / cover it (thorough, sdim 2) or take 4 per degree triple"""
    out = []
    quick = tier == "quick"
    for p in (1, 2, 3):
        for ax in axis_alphabet(p):
            out.append([ax])
    k = 0
    for degs in itertools.product((1, 2, 3), repeat=2):
        combos = list(itertools.product(range(4), repeat=2))
        if quick:
            combos = [combos[(5 * k + 3 * j + 1) % 16] for j in range(3)]
        for t in combos:
            out.append([axis_alphabet(p)[i] for p, i in zip(degs, t)])
        k += 1
    k = 0
    for degs in itertools.product((1, 2, 3), repeat=3):
        combos = [c for c in itertools.product(range(4), repeat=3)]
        nsel = 1 if quick else 4
        sel = [combos[(7 * k + 21 * j + 9) % 64] for j in range(nsel)]
        for t in sel:
            out.append([axis_alphabet(p)[i] for p, i in zip(degs, t)])
        k += 1
    return out


def func_cases(tier, seed):
    cs = []
    quick = tier == "quick"
    n3 = -1
    for axes in spaces(tier):
        d = len(axes)
        n3 += d == 3          # thorough: the 3D spaces come in groups of 4 per degree triple
        degs = tuple(ax[0] for ax in axes)
        base = {"part": "func", "axes": axes, "seed": seed}
        # all unit tensors in 3D are the expensive cases: quick = the degree triples with pairwise different or
        # all equal degrees
        unit3 = d < 3 or not quick or len(set(degs)) in (1, 3)
        for osh in ("unit", [], [1], [2], [3], [2, 2]):
            if osh == "unit" and not unit3:
                continue
            cs.append(dict(base, kind="bspline", oshape=osh))
        cs.append(dict(base, kind="bspline", oshape=[2], restrict=True))
        for osh in ("unit", [], [1], [2], [3]):
            for wi, w in enumerate(("one", "two", "graded")):
                if osh == [2]:
                    ctors = ("sep", "premult", "packed")
                elif osh in ("unit", [3]):
                    ctors = (("sep", "premult", "packed")[wi],)
                else:
                    ctors = (("sep", "premult", "sep")[wi],)
                if quick and osh in ([1], [3]) and w == "two":
                    continue
                if osh == "unit" and d == 3 and (not unit3 or (w != "graded" and (quick or n3 % 4))):
                    continue
                for c in ctors:
                    cs.append(dict(base, kind="nurbs", oshape=osh, weights=w, ctor=c))
        cs.append(dict(base, kind="nurbs", oshape=[2], weights="graded", ctor="sep", restrict=True))
    for s in (1, 2, 3):
        for osh in ([], [1], [2], [3], [2, 2]):
            for jac in (False, True):
                cs.append({"part": "func", "kind": "user", "sdim": s, "form": "array", "oshape": osh, "jac": jac})
            if len(osh) == 1 and osh[0] > 1:
                cs.append({"part": "func", "kind": "user", "sdim": s, "form": "array", "oshape": osh, "jac": True, "dimarg": True})
                cs.append({"part": "func", "kind": "user", "sdim": s, "form": "tuple", "oshape": osh})
        for form in ("partial_x", "partial_last", "const"):
            cs.append({"part": "func", "kind": "user", "sdim": s, "form": form, "oshape": []})
    for s in (1, 2, 3):
        for m in (1, 2, 3):
            for inner in ("bspline", "nurbs"):
                for outer in ("bspline", "nurbs", "user"):
                    for osh in ([], [2], [3]):
                        cs.append({"part": "func", "kind": "composed", "sdim": s, "mdim": m, "inner": inner,
                                   "outer": outer, "oshape": osh, "seed": seed})
    return cs


def nontrivial_sig(case):
    """distinct non-trivial: spline cases with a repeated interior knot on some axis; every user / composed case"""
    if case["kind"] in ("bspline", "nurbs"):
        if not any(any(m > 1 for m in ax[2]) for ax in case["axes"]):
            return None
    return repr(sorted((k, repr(v)) for k, v in case.items()))
