"""C02 -- B-spline basis evaluation is exact, local, non-negative and sums to one.

E2: exhaustive enumeration of (degree, breakpoint pattern, interior multiplicity vector) x point set
(breakpoints, adjacent floats, midpoints, Gauss nodes) x derivative orders 0..p+2 x routes x argument
forms, compared with the exact Cox-de Boor recursion in Fractions (ref/bsp.py).
"""
import itertools

import numpy as np

from mc import par
from mc.outcome import Outcome
from ref import bsp, kvs as KV

ID = "C02"
LEVEL = "model_checking"

RTOL = 1e-10      # norm-wise per derivative row (unchanged tree: <= 3e-13 over the thorough space)
SUMTOL = 1e-13


def cases(tier):
    out = []
    pmax = 4 if tier == "quick" else 6
    for p in range(0, pmax + 1):
        for name, br, m in KV.kv_shapes(p):
            if tier == "quick" and p == 4 and name == "U4" and sum(m) % 2:
                continue    # thin the largest family in the quick tier (every other multiplicity vector)
            out.append({"kind": "1d", "p": p, "pattern": name, "mults": m})
    # extreme span ratios: last span of 2^-50, domain of length 1e-13, first span 1e-15
    for p in range(0, 4 if tier == "quick" else 6):
        for name, br, m in KV.kv_shapes(p, patterns=tuple(KV.EXTREME), maxmult=2):
            out.append({"kind": "1d", "p": p, "pattern": name, "mults": m})
    if tier == "thorough":
        for p in range(7, 13):
            for name in ("U2", "G3", "G4"):
                k = len(KV.breaks_of(name)) - 2
                for m in itertools.product((1, 2, p - 1, p), repeat=k):
                    out.append({"kind": "1d", "p": p, "pattern": name, "mults": list(m)})
    # tensor-product evaluators: pairs/triples of small knot vectors with different degrees
    small = [(1, "U2", [1]), (2, "G3", [2, 1]), (3, "U3", [1, 3]), (2, "S3", [1, 2]), (0, "U3", [1, 1]), (3, "U1", [])]
    for a, b in itertools.product(small, repeat=2):
        if tier == "quick" and (small.index(a) + small.index(b)) % 2:
            continue
        out.append({"kind": "tp", "axes": [list(a), list(b)]})
    trip = [(1, "U2", [1]), (2, "U2", [2]), (2, "G3", [1, 2])]
    for t in itertools.product(trip, repeat=3) if tier == "thorough" else [tuple(trip), (trip[2], trip[0], trip[1])]:
        out.append({"kind": "tp", "axes": [list(x) for x in t]})
    return out


def _cmp(name, got, ref, probs, u=None, key=None, rtol=RTOL):
    got = np.asarray(got, dtype=float)
    ref = np.asarray(ref, dtype=float)
    if got.shape != ref.shape:
        probs.append((key or name + ":shape", "%s: shape %s, expected %s%s" % (name, got.shape, ref.shape, "" if u is None else " at u=%r" % u)))
        return False
    if not np.all(np.isfinite(got)):
        probs.append((key or name + ":nonfinite", "%s: non-finite values%s" % (name, "" if u is None else " at u=%r" % u)))
        return False
    scale = np.abs(ref).max() if ref.size else 0.0
    err = np.abs(got - ref).max() if ref.size else 0.0
    if err > rtol * scale:
        probs.append((key or name + ":value", "%s: deviates from Cox-de Boor by %.3g (scale %.3g)%s"
                      % (name, err, scale, "" if u is None else " at u=%r" % u)))
        return False
    return True


def check_1d(case):
    from pyiga import bspline, bspline_cy, assemble_tools
    p, name, m = case["p"], case["pattern"], case["mults"]
    br = KV.breaks_of(name)
    kn = KV.knots_from(br, m, p)
    kv = bspline.KnotVector(kn.copy(), p)
    R = bsp.RefKV(kn, p)
    pts = KV.eval_points(br, p, gauss=(p <= 6))
    nd = p + 2
    probs = []
    n = R.n
    refs = []
    try:
        for u in pts:
            fa, arr = R.active(u, nd)
            refs.append((fa, arr))
            s = fa + p
            # span lookup
            sp = int(kv.findspan(u))
            if sp != s:
                probs.append(("findspan", "findspan(%r)=%d, the non-empty span containing it is %d" % (u, sp, s)))
            if int(kv.first_active_at(u)) != fa:
                probs.append(("first_active", "first_active_at(%r)=%d, expected %d" % (u, int(kv.first_active_at(u)), fa)))
            # all-active values and derivatives, scalar argument forms
            for form, arg in (("float", float(u)), ("np.float64", np.float64(u))):
                got = np.asarray(bspline_cy.active_deriv(kv, arg, nd))
                if got.shape != (nd + 1, p + 1):
                    probs.append(("active_deriv:shape", "active_deriv(%s) shape %s" % (form, got.shape)))
                    continue
                for k in range(nd + 1):
                    if k > p:
                        if not np.all(got[k] == 0.0):
                            probs.append(("active_deriv:order>p", "derivative of order %d > p=%d is not zero at u=%r: %s" % (k, p, u, got[k])))
                    else:
                        _cmp("active_deriv[k=%d]" % k, got[k], arr[k], probs, u, key="active_deriv:value" if k else "active_deriv:value0")
                if np.any(got[0] < 0):
                    probs.append(("nonneg", "negative basis value at u=%r: %s" % (u, got[0].min())))
                if abs(got[0].sum() - 1.0) > SUMTOL:
                    probs.append(("partition", "values sum to 1%+.3g at u=%r" % (got[0].sum() - 1.0, u)))
                for k in range(1, p + 1):
                    sc = np.abs(arr[k]).max()
                    if abs(got[k].sum()) > RTOL * sc:
                        probs.append(("derivsum", "derivatives of order %d sum to %.3g (scale %.3g) at u=%r" % (k, got[k].sum(), sc, u)))
            # lower requested orders give the same rows
            g1 = np.asarray(bspline_cy.active_deriv(kv, float(u), min(1, nd)))
            _cmp("active_deriv(numderiv=1)", g1, arr[:g1.shape[0]], probs, u, key="active_deriv:numderiv1")
            gv = np.asarray(bspline.active_ev(kv, float(u)))
            _cmp("active_ev(scalar)", gv, arr[0], probs, u, key="active_ev:scalar")
            # single-function route: every basis function, zero outside the active range
            row = np.zeros(n)
            row[fa:fa + p + 1] = arr[0]
            sv = np.array([bspline.single_ev(kv, i, float(u)) for i in range(n)])
            if np.any(sv[:fa] != 0) or np.any(sv[fa + p + 1:] != 0):
                probs.append(("single_ev:support", "single_ev non-zero outside the p+1 active functions at u=%r" % u))
            _cmp("single_ev", sv, row, probs, u, key="single_ev:value", rtol=1e-12)
        # results of earlier calls stay what they were: keep the tables of all scalar calls, call again at the other
        # points, then compare the kept tables once more (a result that aliases a reused buffer changes under our feet)
        kept = [(u, np.asarray(bspline_cy.active_deriv(kv, float(u), nd)), bspline.active_ev(kv, float(u))) for u in pts]
        for (u, tab, ev), (fa, arr) in zip(kept, refs):
            ok = tab.shape == (nd + 1, p + 1) and all(
                np.abs(tab[k] - arr[k]).max() <= RTOL * max(np.abs(arr[k]).max(), 1e-300) for k in range(min(nd, p) + 1))
            ok = ok and np.abs(np.asarray(ev) - arr[0]).max() <= RTOL
            if not ok:
                probs.append(("active_deriv:result-aliased", "the table returned by active_deriv/active_ev at u=%r changed after later calls "
                              "at other points (results share a buffer)" % (u,)))
                break
        # array argument forms
        P = np.array(pts)
        strided = np.repeat(P, 2)[::2]
        assert not strided.flags["C_CONTIGUOUS"] or len(P) == 1
        full = [np.zeros((len(pts), n)) for _ in range(nd + 1)]
        for r, (fa, arr) in enumerate(refs):
            for k in range(nd + 1):
                full[k][r, fa:fa + p + 1] = arr[k]
        A = np.asarray(bspline_cy.active_deriv(kv, P, nd))
        refA = np.stack([np.stack([refs[r][1][k] for r in range(len(pts))], axis=-1) for k in range(nd + 1)])
        for k in range(nd + 1):
            _cmp("active_deriv(array)[k=%d]" % k, A[k], refA[k], probs, key="active_deriv:array")
        _cmp("active_ev(array)", bspline.active_ev(kv, P), refA[0], probs, key="active_ev:array")
        for form, nodes in (("contig", P), ("strided", strided)):
            C = bspline.collocation(kv, nodes)
            _cmp("collocation(%s)" % form, C.toarray(), full[0], probs, key="collocation:" + form)
            for dd in sorted({1, 2, nd}):
                Cs = bspline.collocation_derivs(kv, nodes, derivs=dd)
                if len(Cs) != dd + 1:
                    probs.append(("collocation_derivs:len", "collocation_derivs(derivs=%d) returned %d matrices" % (dd, len(Cs))))
                    continue
                for k in range(dd + 1):
                    _cmp("collocation_derivs(%s)[%d]" % (form, k), Cs[k].toarray(), full[k], probs,
                         key="collocation_derivs:" + form)
            idx, vals = bspline.collocation_info(kv, nodes)
            if list(map(int, idx)) != [fa for fa, _ in refs]:
                probs.append(("collocation_info:index", "collocation_info first-active indices differ from the reference"))
            _cmp("collocation_info", vals, refA[0].T, probs, key="collocation_info:value")
            idx, vals = bspline.collocation_derivs_info(kv, nodes, derivs=nd)
            if list(map(int, idx)) != [fa for fa, _ in refs]:
                probs.append(("collocation_derivs_info:index", "collocation_derivs_info first-active indices differ from the reference"))
            for k in range(nd + 1):
                _cmp("collocation_derivs_info[%d]" % k, np.asarray(vals)[k], refA[k].T, probs, key="collocation_derivs_info:value")
        sv = np.stack([bspline.single_ev(kv, i, P) for i in range(n)], axis=1)
        _cmp("single_ev(array)", sv, full[0], probs, key="single_ev:array", rtol=1e-12)
        cvd = assemble_tools.compute_values_derivs(kv, P, min(nd, 2))
        refc = np.stack([full[k].T for k in range(min(nd, 2) + 1)], axis=-1)
        _cmp("compute_values_derivs", cvd, refc, probs, key="compute_values_derivs")
        # spline evaluation on every unit coefficient vector (linear => decides all coefficient vectors)
        E = np.eye(n)
        for j in range(n):
            _cmp("ev(e_%d)" % j, bspline.ev(kv, E[j], P), full[0][:, j], probs, key="ev:unit", rtol=1e-12)
            for k in range(1, p + 1):
                sc = np.abs(full[k]).max()
                got = np.asarray(bspline.deriv(kv, E[j], k, P))
                if np.abs(got - full[k][:, j]).max() > RTOL * sc:
                    probs.append(("deriv:unit", "deriv(e_%d, order %d) deviates by %.3g (scale %.3g)"
                                  % (j, k, np.abs(got - full[k][:, j]).max(), sc)))
    except Exception as e:
        probs.append(("exception:%s" % type(e).__name__, "evaluation route raised %r" % (e,)))
    return _dedupe(probs)


def _dedupe(probs):
    seen, out = set(), []
    for k, m in probs:
        if k not in seen:
            seen.add(k)
            out.append((k, m))
    return out


def check_tp(case):
    """tensor-product evaluators on all unit coefficient tensors at once (vector-valued coefficient array
    whose component c is the c-th unit tensor)"""
    from pyiga import bspline
    axes = case["axes"]
    d = len(axes)
    kvs_, Rs, pts = [], [], []
    for (p, name, m) in axes:
        br = KV.breaks_of(name)
        kn = KV.knots_from(br, m, p)
        kvs_.append(bspline.KnotVector(kn.copy(), p))
        Rs.append(bsp.RefKV(kn, p))
        pts.append(np.array(KV.eval_points(br, p, gauss=False)))
    N = [R.n for R in Rs]
    ntot = int(np.prod(N))
    coeffs = np.eye(ntot).reshape(tuple(N) + (ntot,))
    probs = []
    try:
        f = bspline.BSplineFunc(tuple(kvs_), coeffs)
        C = [[R.colloc(list(P), der=k) for k in range(3)] for R, P in zip(Rs, pts)]   # C[axis][der]

        def tp(ders):
            M = C[0][ders[0]]
            for a in range(1, d):
                M = np.kron(M, C[a][ders[a]])
            return M.reshape(tuple(len(P) for P in pts) + (ntot,))

        _cmp("grid_eval", f.grid_eval(tuple(pts)), tp([0] * d), probs, key="tp:grid_eval")
        J = f.grid_jacobian(tuple(pts))
        refJ = np.stack([tp([1 if a == d - 1 - c else 0 for a in range(d)]) for c in range(d)], axis=-1)
        _cmp("grid_jacobian", J, refJ, probs, key="tp:grid_jacobian")
        if min(kv.p for kv in kvs_) >= 0:
            H = f.grid_hessian(tuple(pts))
            comps = []
            for c1 in range(d):
                for c2 in range(c1, d):
                    ders = [0] * d
                    ders[d - 1 - c1] += 1
                    ders[d - 1 - c2] += 1
                    comps.append(tp(ders))
            _cmp("grid_hessian", H, np.stack(comps, axis=-1), probs, key="tp:grid_hessian")
        if d == 2:
            # scattered points (xyz order), the full grid visited in a scrambled order
            G = np.meshgrid(*pts, indexing="ij")
            flat = [g.ravel() for g in G]
            perm = np.argsort((np.arange(flat[0].size) * 7919) % flat[0].size, kind="stable")
            xyz = [flat[d - 1 - c][perm] for c in range(d)]
            refv = tp([0] * d).reshape(-1, ntot)[perm]
            _cmp("pointwise_eval", f.pointwise_eval(xyz), refv, probs, key="tp:pointwise_eval")
            refj = refJ.reshape(-1, ntot, d)[perm]
            _cmp("pointwise_jacobian", f.pointwise_jacobian(xyz), refj, probs, key="tp:pointwise_jacobian")
            # the same points as coordinate arrays with two axes, in every memory layout (the result must not
            # depend on how the caller's arrays are laid out in memory)
            mesh = [G[d - 1 - c] for c in range(d)]
            for lname, lay in (("C-ordered", np.ascontiguousarray), ("Fortran-ordered", np.asfortranarray),
                               ("transposed view", lambda a: np.ascontiguousarray(a.T).T)):
                xyz2 = [lay(g) for g in mesh]
                _cmp("pointwise_eval(2-axis points, %s)" % lname, f.pointwise_eval(xyz2), tp([0] * d), probs,
                     key="tp:pointwise_eval:layout")
                _cmp("pointwise_jacobian(2-axis points, %s)" % lname, f.pointwise_jacobian(xyz2), refJ, probs,
                     key="tp:pointwise_jacobian:layout")
    except Exception as e:
        probs.append(("tp:exception:%s" % type(e).__name__, "tensor-product evaluator raised %r" % (e,)))
    return _dedupe(probs)


def check_case(case):
    return check_1d(case) if case["kind"] == "1d" else check_tp(case)


def _w(case):
    return case, check_case(case)


def run(ctx):
    out = Outcome()
    cs = cases(ctx.tier)
    for case, res in zip(cs, par.pmap(_w, cs, min_parallel=8, chunk=2, allow_crash=True)):
        probs = [("crash:%r" % res, "the interpreter was killed (%r) while evaluating this knot vector" % res)] \
            if isinstance(res, par.Crash) else res[1]
        out.states += 1
        if case["kind"] == "1d":
            br = KV.breaks_of(case["pattern"])
            npts = len(KV.eval_points(br, case["p"], gauss=(case["p"] <= 6)))
            out.transitions += npts * (case["p"] + 3) * 8
            out.part("1d", knot_vectors=1, points=npts)
            if KV.is_nontrivial(br, case["mults"]):
                out.nontrivial.add((case["p"], case["pattern"], tuple(case["mults"])))
        else:
            out.transitions += 5
            out.part("tp", spaces=1)
            out.nontrivial.add(("tp", repr(case["axes"])))
        out.outcomes.add(len(probs))
        for key, msg in probs:
            out.add_violation(key, "%s: %s" % (case, msg), case)
    out.evaluations = out.transitions
    out.traces = out.states
    out.sample(cs[0]); out.sample(cs[len(cs) // 2]); out.sample(cs[-1])
    out.rule = ("every (degree, breakpoint pattern from %s, interior multiplicity vector in {1..max(1,p)}^k) x points "
                "{breakpoints, adjacent floats, midpoints, Gauss nodes} x derivative orders 0..p+2 x routes; a state is one "
                "knot vector / tensor-product space; non-trivial = repeated interior knot AND non-uniform spans, or a "
                "tensor-product space" % sorted(KV.PATTERNS))
    out.assumptions += ["breakpoint sequences come from a finite alphabet spanning 6 decades, not all floats",
                        "degrees 0..%d (thorough: 0..12 on patterns U2,G3,G4 with multiplicities {1,2,p-1,p})" % (4 if ctx.tier == "quick" else 6)]
    return out
