"""C06 -- form rewriting and differentiation passes preserve the integrand's value.

The middle end as a transition system: state = (expression DAG, variable table) of a VForm, transitions =
the consecutive passes of VForm.finalize, observed without source hooks by wrapping the instance's
transform / extract_common_expressions / dependency_analysis.  For every program of the bounded grammar
(ref/vgen.py) and both scheduling modes, after EVERY pass the value of the expression list (props/vimpl.py)
must equal the denotation of the program (ref/vsem.py) in every environment of a fixed finite set; after the
last pass an abstract machine executes precompute and kernel variables in the emitted order with
defined-before-use detection.  Polynomial operator identities (det, inv*det, cross, products, traces,
transposes) are decided on the full 0/1 grid of their entries (multilinear => proves the identity).
"""
import itertools

import numpy as np

from mc import par
from mc.outcome import Outcome
from ref import vgen, vsem, venv
from props import vimpl

ID = "C06"
LEVEL = "model_checking"
TOL = 1e-9


def programs(tier):
    dims = (1, 2) if tier == "quick" else (1, 2, 3)
    progs = vgen.all_programs(dims=dims)
    if tier == "quick":
        progs += [p for p in vgen.all_programs(dims=(3,)) if p["tag"].split(":")[0] in ("vcoef", "vecbf", "bdry", "func", "shared")
                  or p["tag"].startswith("coef:3D:")]
    return progs


def _flat(v, npts):
    v = np.asarray(v, dtype=float)
    if v.ndim == 0:
        v = np.broadcast_to(v, (npts,))
    return v.reshape(v.shape[0], -1)


def run_program(prog, do_precompute, seeds):
    """returns (n_pass_boundaries, problems)"""
    from pyiga import assemble
    probs = []
    try:
        vf = vgen.build_vform(prog)
    except (TypeError, NotImplementedError) as e:
        return 0, [("__rejected__", "%s: %s" % (type(e).__name__, e))]
    except Exception as e:
        return 0, [("build:exception:%s" % type(e).__name__, "building the form raised %r" % (e,))]
    j2b = None
    if prog.get("boundary") is not None:
        j2b = assemble._Jac_to_boundary_matrix(tuple(prog["boundary"]), prog["dim"])
    envs = [venv.random_env(prog, s) for s in seeds]
    npts = 3
    try:
        specs = [_flat(vsem.denote_terms(prog, env), npts) for env in envs]
    except Exception as e:
        raise RuntimeError("harness: spec semantics failed on %s: %r" % (prog.get("tag"), e))
    scale = [max(1.0, np.abs(s).max()) for s in specs]
    state = {"n": 0, "bad": None}

    def check(stage):
        state["n"] += 1
        if state["bad"] is not None:
            return
        for env, s, sc in zip(envs, specs, scale):
            try:
                v = _flat(vimpl.eval_exprs(vf, env, prog, j2b), npts)
            except vimpl.Unevaluable as e:
                state["bad"] = (stage, "expression list cannot be evaluated: %s" % e)
                return
            if v.shape != s.shape:
                state["bad"] = (stage, "expression list has %d entries, the form denotes %d" % (v.shape[1], s.shape[1]))
                return
            err = np.abs(v - s).max()
            if not err <= TOL * sc:
                state["bad"] = (stage, "value changed by %.3g (scale %.3g)" % (err, sc))
                return

    check("definition")
    if state["bad"]:
        return 1, probs + [("define:value", "the expression built by the front end differs from the form's denotation: %s" % state["bad"][1])]
    # wrap the passes
    from pyiga.vform import VForm
    names = []

    def w_transform(fun, type=None, deep=True):
        VForm.transform(vf, fun, type=type, deep=deep)
        nm = getattr(fun, "__name__", "fun")
        tname = type.__name__ if type is not None else "all"
        names.append("%s[%s]" % (nm, tname))
        check("%02d:%s[%s]" % (len(names), nm, tname))

    def w_cse():
        r = VForm.extract_common_expressions(vf)
        names.append("extract_common_expressions")
        check("%02d:extract_common_expressions" % len(names))
        return r

    def w_dep(do_precompute=True):
        VForm.dependency_analysis(vf, do_precompute=do_precompute)
        names.append("dependency_analysis")
        check("%02d:dependency_analysis" % len(names))

    vf.transform = w_transform
    vf.extract_common_expressions = w_cse
    vf.dependency_analysis = w_dep
    try:
        vf.finalize(do_precompute=do_precompute)
    except (NotImplementedError, TypeError) as e:
        return state["n"], probs + [("__rejected__", "%s: %s" % (type(e).__name__, e))]
    except AssertionError as e:
        if "not implemented" in str(e):
            return state["n"], probs + [("__rejected__", "AssertionError: %s" % e)]
        return state["n"], probs + [("finalize:exception:AssertionError", "finalize raised %r" % (e,))]
    except Exception as e:
        return state["n"], probs + [("finalize:exception:%s" % type(e).__name__, "finalize raised %r after passes %s" % (e, names[-2:]))]
    if state["bad"]:
        stage, msg = state["bad"]
        pname = stage.split(":", 1)[1] if ":" in stage else stage
        pname = pname.replace("<lambda>", "lambda")
        probs.append(("pass:%s" % pname, "after pass %s: %s" % (stage, msg)))
        return state["n"], probs
    # abstract machine: emitted order, defined before use
    probs += machine_problems(vf, prog, envs, specs, scale, j2b, do_precompute)
    return state["n"], probs


def machine_problems(vf, prog, envs, specs, scale, j2b, do_precompute):
    from pyiga import vform as V
    probs = []
    env, s, sc = envs[0], specs[0], scale[0]
    I = vimpl.ImplEval(vf, env, prog, j2b)
    computed = set()
    I.defined = computed

    def compute(var, phase):
        ex = var.expr
        try:
            if ex.is_scalar():
                I.varcache[(var.name, ())] = I.ev(ex)
            elif ex.is_vector():
                for k in range(ex.shape[0]):
                    I.varcache[(var.name, (k,))] = I.ev(ex[k])
            else:
                for i in range(ex.shape[0]):
                    for j in range(ex.shape[1]):
                        if var.symmetric and i > j:
                            continue
                        I.varcache[(var.name, (i, j))] = I.ev(ex[i, j])
        except vimpl.Unevaluable as e:
            probs.append(("schedule:use-before-def", "%s phase, computing %s: %s" % (phase, var.name, e)))
            return False
        computed.add(var.name)
        return True

    # sourced variables (input fields, parameters) are available from the start
    for var in vf.linear_deps:
        if not isinstance(var, V.BasisFun) and var.src is not None:
            computed.add(var.name)
    for var in vf.precomp:
        if var.expr is not None:
            if var.scope == V.Scope.BASISFUN:
                probs.append(("schedule:precomp-scope", "variable %s depends on basis functions but is precomputed" % var.name))
            if not compute(var, "precompute"):
                return probs
    pre = {v.name for v in vf.precomp}
    for var in vf.kernel_deps:
        if var.is_global:
            if var.expr is not None and var.name not in pre:
                probs.append(("schedule:global-not-produced", "global variable %s is not produced by the precompute phase" % var.name))
            continue
        if var.expr is not None and var.name not in computed:
            if not compute(var, "kernel"):
                return probs
    # the kernel may only read globals and kernel-local variables
    allowed = {v.name for v in vf.kernel_deps} | {v.name for v in vf.linear_deps if not isinstance(v, V.BasisFun) and isinstance(v.src, V.Parameter)}
    I.defined = {n for n in computed if n in allowed}
    try:
        I.cache = {}
        tot = None
        for ex in vf.exprs:
            v = I.ev(ex)
            tot = v if tot is None else tot + v
        v = _flat(tot, 3)
        if v.shape != s.shape or not np.abs(v - s).max() <= TOL * sc:
            probs.append(("schedule:value", "executing precompute + kernel in the emitted order gives a different value"))
    except vimpl.Unevaluable as e:
        probs.append(("schedule:use-before-def", "kernel expressions: %s" % e))
    return probs


# ---------------------------------------------------------------------------------------------------
# polynomial operator identities on the full 0/1 grid
# ---------------------------------------------------------------------------------------------------

def _grid(nvars):
    return np.array(list(itertools.product((0.0, 1.0), repeat=nvars)))


def _det_int(A):
    n = A.shape[-1]
    if n == 1:
        return A[..., 0, 0]
    if n == 2:
        return A[..., 0, 0] * A[..., 1, 1] - A[..., 0, 1] * A[..., 1, 0]
    return (A[..., 0, 0] * (A[..., 1, 1] * A[..., 2, 2] - A[..., 1, 2] * A[..., 2, 1])
            - A[..., 0, 1] * (A[..., 1, 0] * A[..., 2, 2] - A[..., 1, 2] * A[..., 2, 0])
            + A[..., 0, 2] * (A[..., 1, 0] * A[..., 2, 1] - A[..., 1, 1] * A[..., 2, 0]))


def _adj_int(A):
    n = A.shape[-1]
    out = np.zeros_like(A)
    if n == 1:
        out[..., 0, 0] = 1.0
        return out
    for i in range(n):
        for j in range(n):
            rows = [r for r in range(n) if r != j]
            cols = [c for c in range(n) if c != i]
            out[..., i, j] = (-1) ** (i + j) * _det_int(A[..., rows, :][..., :, cols])
    return out


IDENTITIES = ["det", "adj", "cross", "matvec", "matmat", "tr", "T", "outer", "inner", "minor", "norm2"]


def identity_problems(case):
    """evaluate the library's expansion of an operator over parameter entries on the full 0/1 grid"""
    from pyiga import vform as V
    name, n = case["identity"], case["n"]
    vf = V.VForm(2)
    u, v = vf.basisfuns()
    A = vf.parameter("A", (n, n))
    B = vf.parameter("B", (n, n))
    a = vf.parameter("a", (n,))
    b = vf.parameter("b", (n,))
    try:
        if name == "det":
            expr, nv = V.det(A), n * n
        elif name == "adj":
            expr, nv = V.inv(A) * V.det(A), n * n
        elif name == "minor":
            expr, nv = V.as_vector([V.minor(A, i, j) for i in range(n) for j in range(n)]), n * n
        elif name == "cross":
            expr, nv = V.cross(a, b), 2 * n
        elif name == "matvec":
            expr, nv = V.dot(A, a), n * n + n
        elif name == "matmat":
            expr, nv = V.dot(A, B), 2 * n * n
        elif name == "tr":
            expr, nv = V.tr(A), n * n
        elif name == "T":
            expr, nv = A.T, n * n
        elif name == "outer":
            expr, nv = V.outer(a, b), 2 * n
        elif name == "inner":
            expr, nv = V.as_vector([V.inner(a, b), V.inner(A, B), V.dot(a, b)]), 2 * n * n + 2 * n
        elif name == "norm2":
            expr, nv = V.norm(a) * V.norm(a), n
        else:
            raise ValueError(name)
    except Exception as e:
        return 0, [("identity:%s:exception:%s" % (name, type(e).__name__), "constructing %s raised %r" % (name, e))]
    # which variables are used
    if name in ("det", "adj", "tr", "T", "minor"):
        G = _grid(n * n)
        vals = {"A": G.reshape(-1, n, n)}
        if name == "adj":
            keep = np.abs(_det_int(vals["A"])) > 0.5       # inv is only defined for non-singular matrices
            vals["A"] = vals["A"][keep]
    elif name in ("cross", "outer"):
        G = _grid(2 * n)
        vals = {"a": G[:, :n], "b": G[:, n:]}
    elif name == "matvec":
        G = _grid(n * n + n)
        vals = {"A": G[:, :n * n].reshape(-1, n, n), "a": G[:, n * n:]}
    elif name == "matmat":
        G = _grid(2 * n * n)
        vals = {"A": G[:, :n * n].reshape(-1, n, n), "B": G[:, n * n:].reshape(-1, n, n)}
    elif name == "inner":
        if n == 3:
            # 2^24 points are too many: the three forms are bilinear, so every PAIR of unit tensors decides them
            G = _grid(2 * n * n + 2 * n)[:0]
            pts = []
            for i in range(n * n + n):
                for j in range(n * n + n):
                    x = np.zeros(2 * n * n + 2 * n)
                    x[i] = 1.0
                    x[n * n + n + j] = 1.0
                    pts.append(x)
            G = np.array(pts)
        else:
            G = _grid(2 * n * n + 2 * n)
        k = n * n + n
        vals = {"A": G[:, :n * n].reshape(-1, n, n), "a": G[:, n * n:k], "B": G[:, k:k + n * n].reshape(-1, n, n), "b": G[:, k + n * n:]}
    elif name == "norm2":
        G = _grid(n)
        vals = {"a": G}
    npts = len(next(iter(vals.values())))
    prog = {"arity": 2, "dim": 2, "bfuns": {"u": [None, 0], "v": [None, 0]}}
    env = vsem.Env(2, 2, [], np.ones((npts, 2)), {}, {}, vals)
    I = vimpl.ImplEval(vf, env, prog)
    try:
        got = np.asarray(I.ev(expr), dtype=float)
    except Exception as e:
        return npts, [("identity:%s:exception:%s" % (name, type(e).__name__), "evaluating the expansion of %s raised %r" % (name, e))]
    A_, B_, a_, b_ = (vals.get(k) for k in ("A", "B", "a", "b"))
    if name == "det":
        want = _det_int(A_)
    elif name == "adj":
        want = _adj_int(A_)
    elif name == "minor":
        want = np.stack([_det_int(np.delete(np.delete(A_, i, axis=-2), j, axis=-1)) if n > 1 else np.ones(npts)
                         for i in range(n) for j in range(n)], axis=-1)
    elif name == "cross":
        want = np.cross(a_, b_)
    elif name == "matvec":
        want = np.einsum("pij,pj->pi", A_, a_)
    elif name == "matmat":
        want = np.einsum("pij,pjk->pik", A_, B_)
    elif name == "tr":
        want = np.einsum("pii->p", A_)
    elif name == "T":
        want = np.swapaxes(A_, -1, -2)
    elif name == "outer":
        want = np.einsum("pi,pj->pij", a_, b_)
    elif name == "inner":
        want = np.stack([np.einsum("pi,pi->p", a_, b_), np.einsum("pij,pij->p", A_, B_), np.einsum("pi,pi->p", a_, b_)], axis=-1)
    elif name == "norm2":
        want = np.einsum("pi,pi->p", a_, a_)
    got = np.broadcast_to(got, want.shape) if got.shape != want.shape and got.size == want.size else got
    if got.shape != want.shape:
        return npts, [("identity:%s:shape" % name, "%s of size %d has shape %s, expected %s" % (name, n, got.shape, want.shape))]
    tol = 0.0 if name not in ("adj", "norm2") else 1e-12
    if not np.abs(got - want).max() <= tol:
        k = int(np.argmax(np.abs(got - want).reshape(npts, -1).max(axis=1)))
        return npts, [("identity:%s:value" % name, "%s (n=%d) differs from its definition on the 0/1 grid, e.g. at %s"
                       % (name, n, {k2: v2[k].tolist() for k2, v2 in vals.items()}))]
    return npts, []


def identity_cases():
    out = []
    for name in IDENTITIES:
        for n in (1, 2, 3):
            if name == "cross" and n != 3:
                continue
            if name == "minor" and n == 1:
                continue
            out.append({"part": "identity", "identity": name, "n": n})
    return out


# ---------------------------------------------------------------------------------------------------

def check_case(case):
    if case.get("part") == "identity":
        return identity_problems(case)[1]
    n, probs = run_program(case["prog"], case["do_precompute"], case["seeds"])
    return [(k, m) for k, m in probs if k != "__rejected__"]


def _w(case):
    if case.get("part") == "identity":
        n, probs = identity_problems(case)
        return n, probs, []
    n, probs = run_program(case["prog"], case["do_precompute"], case["seeds"])
    rej = [m for k, m in probs if k == "__rejected__"]
    return n, [(k, m) for k, m in probs if k != "__rejected__"], rej


def run(ctx):
    out = Outcome()
    seeds = [1000 * ctx.seed + k for k in (1, 2, 3)]
    progs = programs(ctx.tier)
    cases = identity_cases()
    for p in progs:
        for pre in (True, False):
            cases.append({"part": "prog", "prog": p, "do_precompute": pre, "seeds": seeds})
    ctx.log("programs=%d cases=%d" % (len(progs), len(cases)))
    rejected = {}
    for case, (n, probs, rej) in zip(cases, par.pmap(_w, cases, min_parallel=8)):
        if case.get("part") == "identity":
            out.part("identity", cases=1, grid_points=n)
            out.transitions += n
            out.states += 1
            out.nontrivial.add(("identity", case["identity"], case["n"]))
            tag = "identity:%s:%d" % (case["identity"], case["n"])
        else:
            out.part("programs", cases=1, pass_boundaries=n)
            out.states += n                # one state per observed pass boundary
            out.transitions += max(n - 1, 0)
            out.traces += 1
            tag = case["prog"]["tag"]
            if n > 1:
                out.nontrivial.add(tag)
            for m in rej:
                rejected[m] = rejected.get(m, 0) + 1
        out.outcomes.add((len(probs), n))
        for key, msg in probs:
            out.add_violation(key, "%s (do_precompute=%s): %s" % (tag, case.get("do_precompute"), msg), case)
    out.extra["explicit_rejections"] = rejected
    out.evaluations = out.states
    out.sample({"tag": progs[0]["tag"], "terms": progs[0]["terms"]})
    out.sample({"tag": progs[len(progs) // 2]["tag"], "terms": progs[len(progs) // 2]["terms"]})
    out.sample({"tag": progs[-1]["tag"], "terms": progs[-1]["terms"]})
    out.rule = ("every program of the bounded vform grammar (ref/vgen.all_programs: operator pairs x coefficient atoms incl. "
                "shared compound atoms, vector/matrix coefficients, vector basis functions, functionals, surface/boundary/"
                "two-space/space-time forms) x {precompute, on-demand} scheduling; a state is the expression DAG after one pass "
                "of finalize (10-20 per program); invariant: value == denotation in 3 generic jet environments; plus the "
                "operator identities on the full 0/1 entry grid. Non-trivial = programs with more than one pass boundary.")
    out.assumptions += ["non-polynomial subterms (sqrt, exp, /, abs, ...) are decided on the finite environment set only "
                        "(an analytic non-zero difference vanishes on a null set)",
                        "VERIF_SEED selects the numeric values of the three environments, never which programs or passes are visited"]
    return out
