"""Concrete spaces, geometries, input data and reference assembly for variational-form programs
(shared by C01 and C08).  The reference evaluates the program's denotation (ref/vsem.py) on the tensor Gauss
grid (max degree + 1 nodes per span) with exact basis jets from ref/bsp.py for ALL (test, trial) pairs at once.
Geometry and input-field values/derivatives at the Gauss nodes are taken from the library's evaluators
(decided by C02/C07) and used as input data."""
import itertools

import numpy as np

from ref import kvs as KV, venv, vsem

# ---------------------------------------------------------------------------------------------------
# spaces: mixed degrees, unequal dof counts, a repeated knot, non-uniform spans
# ---------------------------------------------------------------------------------------------------

AXES = {
    # name: (p, breaks, mults)
    "A": (2, [0.0, 0.6, 1.0], [2]),
    "B": (3, [0.0, 0.3, 0.7, 1.0], [1, 1]),
    "C": (2, [0.0, 0.45, 1.0], [1]),
    "D": (1, [0.0, 0.5, 1.0], [1]),
    "E": (2, [0.0, 1.0], []),
}


# twin axes: the same degree, number of dofs and number of matrix non-zeros, but the repeated knot sits in a
# different place (two different 1D sparsity patterns that agree in every size)
AXES["T1"] = (2, [0.0, 0.25, 0.5, 0.75, 1.0], [2, 1, 1])
AXES["T2"] = (2, [0.0, 0.25, 0.5, 0.75, 1.0], [1, 1, 2])
AXES["T3"] = (2, [0.0, 0.25, 0.5, 0.75, 1.0], [1, 2, 1])
_OVERRIDE = {}          # dim -> list of axis names (set by drivers that need particular spaces, see use_axes)


class use_axes:
    """context manager: space(dim) uses the given axis names while active"""
    def __init__(self, dim, names):
        self.dim, self.names = dim, list(names)

    def __enter__(self):
        self.old = _OVERRIDE.get(self.dim)
        _OVERRIDE[self.dim] = self.names

    def __exit__(self, *a):
        if self.old is None:
            _OVERRIDE.pop(self.dim, None)
        else:
            _OVERRIDE[self.dim] = self.old


def _raise(ax):
    p, br, m = AXES[ax]
    return (p + 1, br, m)


def space(dim, which=0):
    """list of (p, breaks, mults) in kvs order; which=1: the second space (degrees + 1, same meshes)"""
    names = _OVERRIDE.get(dim) or {1: ["B"], 2: ["A", "B"], 3: ["D", "E", "C"]}[dim]
    return [_raise(n) if which else AXES[n] for n in names]


def make_kvs(axes):
    from pyiga import bspline
    return tuple(bspline.KnotVector(KV.knots_from(br, m, p), p) for (p, br, m) in axes)


# ---------------------------------------------------------------------------------------------------
# geometries
# ---------------------------------------------------------------------------------------------------

def make_geo(prog, variant=0):
    """a geometry with non-vanishing (positive) Jacobian that matches the form: volume (curved quadratic
    B-spline map, or NURBS quarter annulus for variant 1 in 2D), surface (dim+1), space-time cylinder"""
    from pyiga import bspline, geometry
    d, gd = prog["dim"], prog.get("geo_dim", prog["dim"])
    kq = bspline.make_knots(2, 0.0, 1.0, 1)
    if prog.get("spacetime"):
        if d == 2:
            sp = bspline.BSplineFunc((kq,), np.array([[0.0], [0.6], [1.5]]))
        else:
            sp = _quad_patch_2d(bspline, kq)
        return sp.cylinderize(0.0, 1.0)
    if gd == d:
        if d == 1:
            return bspline.BSplineFunc((kq,), np.array([[0.2], [0.9], [2.0]]))
        if d == 2:
            if variant == 1:
                return geometry.quarter_annulus()
            return _quad_patch_2d(bspline, kq)
        C = np.zeros((3, 3, 3, 3))
        for i, j, k in itertools.product(range(3), repeat=3):
            x, y, z = k / 2, j / 2, i / 2
            C[i, j, k] = (1.2 * x + 0.2 * y * y + 0.1 * z, 0.9 * y + 0.15 * x * z, 1.1 * z + 0.2 * x * y)
        return bspline.BSplineFunc((kq, kq, kq), C)
    # surfaces
    if d == 1:
        return bspline.BSplineFunc((kq,), np.array([[0.0, 0.0], [1.0, 0.3], [1.5, 1.4]]))
    C = np.zeros((3, 3, 3))
    for j, k in itertools.product(range(3), repeat=2):
        x, y = k / 2, j / 2
        C[j, k] = (1.1 * x + 0.1 * y, 0.9 * y + 0.2 * x * x, 0.3 * x * y + 0.2 * y * y)
    return bspline.BSplineFunc((kq, kq), C)


def _quad_patch_2d(bspline, kq):
    C = np.zeros((3, 3, 2))
    for j, k in itertools.product(range(3), repeat=2):
        x, y = k / 2, j / 2
        C[j, k] = (1.3 * x + 0.25 * y * y + 0.1 * y, 0.8 * y + 0.3 * x * y + 0.05 * x)
    return bspline.BSplineFunc((kq, kq), C)


# ---------------------------------------------------------------------------------------------------
# input data
# ---------------------------------------------------------------------------------------------------

def make_inputs(prog, seed=0):
    """dict name -> pyiga function / callable / parameter value for the program's declarations"""
    from pyiga import bspline
    d = prog["dim"]
    rng = np.random.RandomState(1234 + seed)
    kq = bspline.make_knots(2, 0.0, 1.0, 2)
    args = {}
    for name, decl in sorted(prog.get("inputs", {}).items()):
        shape = tuple(decl["shape"])
        if decl.get("physical"):
            if shape == ():
                args[name] = (lambda *X: 0.3 + 0.1 * np.sin(sum((i + 1) * x for i, x in enumerate(X))))
            else:
                args[name] = (lambda *X: tuple(0.2 + 0.1 * (i + 1) * X[0] for i in range(shape[0])))
        else:
            amp = 0.15 if name in ("f", "g") else 0.5
            C = amp * rng.uniform(-1, 1, (4,) * d + shape)
            args[name] = bspline.BSplineFunc((kq,) * d, C)
    for name, shape in sorted(prog.get("params", {}).items()):
        args[name] = rng.uniform(-1, 1, tuple(shape)) if shape else float(rng.uniform(0.5, 1.5))
    return args


# ---------------------------------------------------------------------------------------------------
# reference assembly
# ---------------------------------------------------------------------------------------------------

def reference(prog, geo, args, bbox=None, want_support=False):
    """dense reference: arity 2 -> array (Nv, Nu) (vector forms: (cv, Nv, cu, Nu)); arity 1 -> (Nv,) / (cv, Nv).
    N counts the tensor-product dofs (face dofs for boundary forms) in row-major kvs order."""
    d, gd = prog["dim"], prog.get("geo_dim", prog["dim"])
    bf = prog["bfuns"]
    sp = {n: space(d, s) for n, (nc, s) in bf.items()}
    allsp = [space(d, 0)] + ([space(d, 1)] if any(s == 1 for _, s in bf.values()) else [])
    nqp = max(p for S in allsp for (p, _, _) in S) + 1
    axes0 = space(d, 0)
    bd = prog.get("boundary")
    grids, weights = [], []
    for a, (p, br, m) in enumerate(axes0):
        if bd is not None and bd[0] == a:
            grids.append(np.array([br[0] if bd[1] == 0 else br[-1]]))
            weights.append(np.ones(1))
        else:
            brs = br if bbox is None else br[bbox[a][0]:bbox[a][1] + 1]
            g, w = venv.gauss_axis(brs, nqp)
            grids.append(g)
            weights.append(w)
    npts = int(np.prod([len(g) for g in grids]))
    # Gauss weights per vform axis
    W = np.meshgrid(*weights, indexing="ij")
    gw = np.stack([W[d - 1 - k].reshape(npts) for k in range(d)], axis=-1)
    # geometry jets from the library's evaluators (input data)
    gv = np.asarray(geo.grid_eval(tuple(grids))).reshape(npts, gd)
    gj = np.asarray(geo.grid_jacobian(tuple(grids))).reshape(npts, gd, d)
    try:
        gh = np.asarray(geo.grid_hessian(tuple(grids))).reshape(npts, gd, -1)
    except Exception:
        gh = None
    pairs = [(i, j) for i in range(d) for j in range(i, d)]
    G = []
    for c in range(gd):
        h = np.full((npts, d, d), np.nan)
        if gh is not None:
            for q, (i, j) in enumerate(pairs):
                h[:, i, j] = h[:, j, i] = gh[:, c, q]
        G.append(vsem.Jet(gv[:, c], gj[:, c, :], h))
    # fields
    fields = {}
    for name, decl in prog.get("inputs", {}).items():
        f = args[name]
        shape = tuple(decl["shape"])
        if decl.get("physical"):
            val = f(*[gv[:, c] for c in range(gd)])
            if isinstance(val, tuple):
                val = np.stack([np.broadcast_to(v, (npts,)) for v in val], axis=-1)
            val = np.broadcast_to(np.asarray(val, dtype=float), (npts,) + shape)
            jets = np.empty(shape, dtype=object)
            for idx in (np.ndindex(shape) if shape else [()]):
                jets[idx] = vsem.Jet(val[(slice(None),) + idx], np.full((npts, d), np.nan), np.full((npts, d, d), np.nan))
        else:
            val = np.asarray(f.grid_eval(tuple(grids)))
            jac = np.asarray(f.grid_jacobian(tuple(grids))) if len(shape) <= 1 else None
            try:
                hes = np.asarray(f.grid_hessian(tuple(grids))) if len(shape) <= 1 else None
            except Exception:
                hes = None
            jets = venv.field_jets_from_grid(val, jac, hes, d)
        fields[name] = {"shape": shape, "physical": decl.get("physical", False), "jets": jets}
    params = {n: args[n] for n in prog.get("params", {})}
    # basis jets for all functions of each space
    jets_bf = {}
    ndofs = {}
    for n, axes in sp.items():
        J = venv.tp_basis_jets([KV.knots_from(br, m, p) for (p, br, m) in axes], [p for (p, _, _) in axes], grids,
                               face=tuple(bd) if bd is not None else None)
        ndofs[n] = J.v.shape[1]
        if prog["arity"] == 2 and n == "u":
            jets_bf[n] = vsem.Jet(J.v[:, None, :], J.g[:, None, :, :], J.h[:, None, :, :, :])
        elif prog["arity"] == 2:
            jets_bf[n] = vsem.Jet(J.v[:, :, None], J.g[:, :, None, :], J.h[:, :, None, :, :])
        else:
            jets_bf[n] = J
    # broadcast geometry/field jets against the (test, trial) axes
    extra = 2 if prog["arity"] == 2 else 1

    def lift(j):
        sh = (npts,) + (1,) * extra
        return vsem.Jet(j.v.reshape(sh), j.g.reshape(sh + (d,)), j.h.reshape(sh + (d, d)))
    Gl = [lift(j) for j in G]
    for name in fields:
        arr = fields[name]["jets"]
        new = np.empty(arr.shape, dtype=object)
        for idx in (np.ndindex(arr.shape) if arr.shape else [()]):
            new[idx] = lift(arr[idx])
        fields[name]["jets"] = new
    gwl = gw.reshape((npts,) + (1,) * extra + (d,))
    boundary = None if bd is None else (d - 1 - bd[0], bd[1])
    env = vsem.Env(d, gd, Gl, gwl, jets_bf, fields, params, boundary, bool(prog.get("spacetime")))
    with np.errstate(all="ignore"):
        val = np.asarray(vsem.denote_terms(prog, env), dtype=float)
    vec = any(nc is not None for nc, _ in bf.values())
    if want_support:
        nzv = (np.abs(jets_bf["v"].v.reshape(npts, -1)) > 0).astype(float)
        nzu = (np.abs(jets_bf["u"].v.reshape(npts, -1)) > 0).astype(float)
        return (nzv.T @ nzu) > 0
    if prog["arity"] == 2:
        full = (npts, ndofs["v"], ndofs["u"])
        if vec:
            val = np.broadcast_to(val, full + val.shape[3:])
            A = val.sum(axis=0)                       # (Nv, Nu, cv, cu)
            return np.transpose(A, (2, 0, 3, 1))      # (cv, Nv, cu, Nu)
        return np.broadcast_to(val, full).sum(axis=0)
    full = (npts, ndofs["v"])
    if vec:
        val = np.broadcast_to(val, full + val.shape[2:])
        return val.sum(axis=0).T                      # (cv, Nv)
    return np.broadcast_to(val, full).sum(axis=0)
