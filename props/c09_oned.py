"""C09, 1D routines: bsp_mixed_deriv_biform_1d(_asym), mass/stiffness wrappers, weight functions, custom
quadrature grids, load vectors / inner products / integrals of monomials -- against exact rational integrals."""
import math
from fractions import Fraction

import numpy as np

from ref import galerkin as G, kvs as KV
from props.c09_util import RTOL, Lib, cmp, dedupe, axis_objects, dense, scaled_min_eig

SYM_TOL = 1e-13      # relative; np.dot(f, (f*w).T) is symmetric only up to rounding (unchanged tree: <= 5e-16)
SUM_TOL = 1e-12      # relative; sum(M) vs length (unchanged tree: <= 8e-16)
KER_TOL = 1e-11      # |K 1|_max <= KER_TOL * max|K| (unchanged tree: <= 4e-16)
EIG_MIN = 1e-9       # smallest eigenvalue of the diagonally scaled matrix (unchanged tree: >= 2.3e-3 over degrees <= 6)
MAXW = 3             # weight monomials x^0 .. x^3


def default_nqp(p1, p2, du, dv):
    return int(math.ceil((p1 + p2 - du - dv + 1) / 2.0))


def wfun(k, const=None):
    if const is not None:
        return lambda x: const              # scalar-valued constant weight
    return lambda x: x ** k


def check_1d(case, stats=None):
    from pyiga import assemble, bspline
    p = case["p"]
    kv, R, br = axis_objects([p, case["pattern"], case["mults"]])
    a, b = Fraction(br[0]), Fraction(br[-1])
    n = R.n
    probs = []
    lib = Lib(probs)
    bf = assemble.bsp_mixed_deriv_biform_1d
    I = G.PPInt(G.merged_breaks(br), 2 * p + MAXW)
    exact = {}
    try:
        if int(kv.numdofs) != n:
            probs.append(("1d:numdofs", "numdofs=%d, expected %d" % (kv.numdofs, n)))
        for du in range(p + 1):
            for dv in range(p + 1):
                nq0 = default_nqp(p, p, du, dv)
                for k in range(MAXW + 1):
                    ref = G.fl(I.biform(R, du, R, dv, wpow=k))
                    exact[du, dv, k] = ref
                    deg = 2 * p - du - dv + k
                    nq = int(math.ceil((deg + 1) / 2.0))
                    tag = "du=%d dv=%d weight=x^%d" % (du, dv, k)
                    if k == 0:
                        A = lib("biform1d", "bsp_mixed_deriv_biform_1d(%s)" % tag, bf, kv, du, dv)
                        cmp("bsp_mixed_deriv_biform_1d(%s)" % tag, A, ref, probs, "biform1d:default", stats=stats)
                        A = lib("biform1d", "bsp_mixed_deriv_biform_1d(%s, nqp+1)" % tag, bf, kv, du, dv, nqp=nq0 + 1)
                        cmp("bsp_mixed_deriv_biform_1d(%s, nqp=default+1)" % tag, A, ref, probs, "biform1d:nqp+1", stats=stats)
                        A = lib("biform1d", "bsp_mixed_deriv_biform_1d(%s, const weight)" % tag, bf, kv, du, dv, weightfunc=wfun(0, const=3.0))
                        cmp("bsp_mixed_deriv_biform_1d(%s, constant weight 3.0)" % tag, A, 3.0 * ref, probs,
                            "biform1d:weight:const", stats=stats)
                    else:
                        # explicit sufficient number of nodes: exact integral demanded
                        A = lib("biform1d", "bsp_mixed_deriv_biform_1d(%s, nqp=%d)" % (tag, nq), bf, kv, du, dv, nqp=nq, weightfunc=wfun(k))
                        cmp("bsp_mixed_deriv_biform_1d(%s, nqp=%d)" % (tag, nq), A, ref, probs, "biform1d:weight:nqp", stats=stats)
                        # default rule: only where it is sufficient (2*nqp-1 >= degree of the integrand)
                        if deg <= 2 * nq0 - 1:
                            A = lib("biform1d", "bsp_mixed_deriv_biform_1d(%s)" % tag, bf, kv, du, dv, weightfunc=wfun(k))
                            cmp("bsp_mixed_deriv_biform_1d(%s, default rule)" % tag, A, ref, probs,
                                "biform1d:weight:default", stats=stats)
        # wrappers
        M = lib("mass1d", "bsp_mass_1d(kv)", assemble.bsp_mass_1d, kv)
        cmp("bsp_mass_1d", M, exact[0, 0, 0], probs, "mass1d:value", stats=stats)
        cmp("mass(kv)", lib("mass1d", "mass(kv)", assemble.mass, kv), exact[0, 0, 0], probs, "mass1d:dispatch", stats=stats)
        cmp("mass((kv,))", lib("mass1d", "mass((kv,))", assemble.mass, (kv,)), exact[0, 0, 0], probs, "mass1d:dispatch", stats=stats)
        cmp("bsp_mass_1d(weight=x)", lib("mass1d", "bsp_mass_1d(kv, weightfunc)", assemble.bsp_mass_1d, kv, weightfunc=wfun(1)),
            exact[0, 0, 1], probs, "mass1d:weight", stats=stats)
        cmp("bsp_mass_1d_asym(kv, kv)", lib("mass1d", "bsp_mass_1d_asym(kv, kv)", assemble.bsp_mass_1d_asym, kv, kv),
            exact[0, 0, 0], probs, "mass1d:asym-same", stats=stats)
        Md = dense(M) if M is not None else exact[0, 0, 0]
        sc = np.abs(Md).max()
        if np.abs(Md - Md.T).max() > SYM_TOL * sc:
            probs.append(("mass1d:symmetry", "mass matrix not symmetric: %.3g (scale %.3g)" % (np.abs(Md - Md.T).max(), sc)))
        length = float(b - a)
        if abs(Md.sum() - length) > SUM_TOL * length:
            probs.append(("mass1d:sum", "sum of the mass matrix %.17g, length of the domain %.17g" % (Md.sum(), length)))
        ev = scaled_min_eig(Md)
        if stats is not None and ev is not None:
            stats["eig:mass1d"] = min(stats.get("eig:mass1d", 1.0), ev)
        if ev is None or ev < EIG_MIN:
            probs.append(("mass1d:spd", "mass matrix not positive definite (diagonally scaled lambda_min = %r)" % ev))
        if np.any(Md < -1e-18 * sc):
            probs.append(("mass1d:nonneg", "negative entry %.3g in a B-spline mass matrix" % Md.min()))
        if p >= 1:
            K = lib("stiff1d", "bsp_stiffness_1d(kv)", assemble.bsp_stiffness_1d, kv)
            cmp("bsp_stiffness_1d", K, exact[1, 1, 0], probs, "stiff1d:value", stats=stats)
            cmp("stiffness(kv)", lib("stiff1d", "stiffness(kv)", assemble.stiffness, kv), exact[1, 1, 0], probs, "stiff1d:dispatch", stats=stats)
            cmp("stiffness((kv,))", lib("stiff1d", "stiffness((kv,))", assemble.stiffness, (kv,)), exact[1, 1, 0], probs,
                "stiff1d:dispatch", stats=stats)
            cmp("bsp_stiffness_1d(weight=x)", lib("stiff1d", "bsp_stiffness_1d(kv, weightfunc)", assemble.bsp_stiffness_1d, kv, weightfunc=wfun(1)),
                exact[1, 1, 1], probs, "stiff1d:weight", stats=stats)
            cmp("bsp_stiffness_1d_asym(kv, kv)", lib("stiff1d", "bsp_stiffness_1d_asym(kv, kv)", assemble.bsp_stiffness_1d_asym, kv, kv),
                exact[1, 1, 0], probs, "stiff1d:asym-same", stats=stats)
            Kd = dense(K) if K is not None else exact[1, 1, 0]
            sc = np.abs(Kd).max()
            if np.abs(Kd - Kd.T).max() > SYM_TOL * sc:
                probs.append(("stiff1d:symmetry", "stiffness matrix not symmetric: %.3g (scale %.3g)" % (np.abs(Kd - Kd.T).max(), sc)))
            r = np.abs(Kd.sum(axis=1)).max()
            if stats is not None:
                stats["stiff1d:K1"] = max(stats.get("stiff1d:K1", 0.0), r / sc)
            if r > KER_TOL * sc:
                probs.append(("stiff1d:K1", "K*1 = %.3g (scale %.3g): constants are not in the kernel" % (r, sc)))
            # exactly the constants: the exact reference has rank n-1 (decided in rational arithmetic) and the
            # implementation is within RTOL of it; numerically: K + z z^T positive definite after diagonal scaling
            rk = G.rank_exact(I.biform(R, 1, R, 1))
            if rk != n - 1:
                probs.append(("ref:rank", "reference stiffness matrix has rank %d, expected %d" % (rk, n - 1)))
            ev = scaled_min_eig(Kd, z=np.ones(n))
            if stats is not None and ev is not None:
                stats["eig:stiff1d"] = min(stats.get("eig:stiff1d", 1.0), ev)
            if ev is None or ev < EIG_MIN:
                probs.append(("stiff1d:kernel", "stiffness matrix is not positive semidefinite with kernel = constants "
                              "(diagonally scaled lambda_min(K + zz^T) = %r)" % ev))
        # load vectors / inner products / integrals of monomials (rule with p+1 nodes: exact up to degree 2p+1)
        for k in range(0, p + 2):
            ref = G.fl(I.moments(R, k)) if p + k <= I.m else None
            if ref is None:
                continue
            f = wfun(k) if k else (lambda x: 1.0 + 0.0 * x)
            cmp("load_vector(x^%d)" % k, lib("load_vector", "load_vector(kv, x^%d)" % k, bspline.load_vector, kv, f), ref, probs,
                "load_vector:value", stats=stats)
            cmp("inner_products(kv, x^%d)" % k, lib("inner_products1d", "inner_products(kv, x^%d)" % k, assemble.inner_products, kv, f),
                ref, probs, "inner_products1d:value", stats=stats)
            cmp("inner_products((kv,), x^%d)" % k, lib("inner_products1d", "inner_products((kv,), x^%d)" % k, assemble.inner_products, (kv,), f),
                ref, probs, "inner_products1d:value", stats=stats)
        for k in range(0, 2 * p + 2):
            ex = (b ** (k + 1) - a ** (k + 1)) / (k + 1)
            f = wfun(k) if k else (lambda x: 1.0 + 0.0 * x)
            got = lib("integrate1d", "integrate(kv, x^%d)" % k, assemble.integrate, kv, f)
            if got is None:
                continue
            sc = float(max(abs(a), abs(b)) ** (k + 1))
            if np.ndim(got) != 0:
                probs.append(("integrate1d:shape", "integrate(kv, x^%d) returned an array of shape %s" % (k, np.shape(got))))
            elif not np.isfinite(got) or abs(float(got) - float(ex)) > RTOL * sc:
                probs.append(("integrate1d:value", "integrate(kv, x^%d) = %.17g, exact %.17g" % (k, got, float(ex))))
    except Exception as e:
        probs.append(("1d:exception:%s" % type(e).__name__, "1D routine raised %r" % (e,)))
    return dedupe(probs), lib.calls


# -------------------------------------------------------------------------------------------------
# two different spaces
# -------------------------------------------------------------------------------------------------

def quad_grid(mode, br1, br2):
    """quadrature grid (list of floats) or None (= default = mesh of the first knot vector)"""
    if mode == "default":
        return None
    if mode == "mesh1":
        return list(br1)
    if mode == "mesh2":
        return list(br2)
    u = sorted(set(br1) | set(br2))
    if mode == "union":
        return u
    if mode == "fine":          # every span of the union mesh halved
        out = []
        for x0, x1 in zip(u[:-1], u[1:]):
            out += [x0, 0.5 * (x0 + x1)]
        return out + [u[-1]]
    if mode == "fine3":         # every span of the union mesh split 1:2 (non-dyadic, non-uniform)
        out = []
        for x0, x1 in zip(u[:-1], u[1:]):
            out += [x0, x0 + (x1 - x0) / 3.0]
        return out + [u[-1]]
    raise ValueError(mode)


def legal_quad(mode, br1, br2):
    g = quad_grid(mode, br1, br2)
    g = list(br1) if g is None else g
    return set(br1) <= set(g) and set(br2) <= set(g)


def check_asym(case, stats=None):
    """case["quads"]: list of quadrature-grid modes, all checked against the same exact reference"""
    from pyiga import assemble
    kv1, R1, br1 = axis_objects(case["kv1"])
    kv2, R2, br2 = axis_objects(case["kv2"])
    p1, p2 = R1.p, R2.p
    probs = []
    lib = Lib(probs)
    I = G.PPInt(G.merged_breaks(br1, br2), max(p1 + p2, 1))
    try:
        grids = []
        for mode in case["quads"]:
            assert legal_quad(mode, br1, br2)
            qg = quad_grid(mode, br1, br2)
            grids.append((mode, {} if qg is None else {"quadgrid": np.array(qg, dtype=float)}))
        for du in range(p1 + 1):
            for dv in range(p2 + 1):
                ref = G.fl(I.biform(R1, du, R2, dv))       # rows: test space kv2 (dv), columns: trial space kv1 (du)
                for mode, kw in grids:
                    tag = "kv1=%s kv2=%s du=%d dv=%d quadgrid=%s" % (case["kv1"], case["kv2"], du, dv, mode)
                    A = lib("asym", "bsp_mixed_deriv_biform_1d_asym(%s)" % tag, assemble.bsp_mixed_deriv_biform_1d_asym, kv1, kv2, du, dv, **kw)
                    if A is None:
                        continue
                    if A.shape != (R2.n, R1.n):
                        probs.append(("asym:shape", "%s: shape %s, documented kv2.numdofs x kv1.numdofs = %s" % (tag, A.shape, (R2.n, R1.n))))
                        continue
                    cmp("bsp_mixed_deriv_biform_1d_asym(%s)" % tag, A, ref, probs, "asym:value:" + ("quadgrid" if kw else "default"),
                        stats=stats)
                    if case.get("nqp_plus"):
                        nq = default_nqp(p1, p2, du, dv) + 1
                        A = lib("asym", "bsp_mixed_deriv_biform_1d_asym(%s, nqp+1)" % tag, assemble.bsp_mixed_deriv_biform_1d_asym,
                                kv1, kv2, du, dv, nqp=nq, **kw)
                        cmp("bsp_mixed_deriv_biform_1d_asym(%s, nqp=default+1)" % tag, A, ref, probs, "asym:value:nqp+1", stats=stats)
                    if (du, dv) == (0, 0):
                        A = lib("asym", "bsp_mass_1d_asym(%s)" % tag, assemble.bsp_mass_1d_asym, kv1, kv2, **kw)
                        cmp("bsp_mass_1d_asym(%s)" % tag, A, ref, probs, "asym:mass", stats=stats)
                    if (du, dv) == (1, 1):
                        A = lib("asym", "bsp_stiffness_1d_asym(%s)" % tag, assemble.bsp_stiffness_1d_asym, kv1, kv2, **kw)
                        cmp("bsp_stiffness_1d_asym(%s)" % tag, A, ref, probs, "asym:stiffness", stats=stats)
    except Exception as e:
        probs.append(("asym:exception:%s" % type(e).__name__, "asymmetric 1D routine raised %r" % (e,)))
    return dedupe(probs), lib.calls
