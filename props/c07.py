"""C07 -- geometry maps evaluate consistently on every route and constructions are exact.

Part A (E2, props/c07_funcs.py): kinds {BSplineFunc, NurbsFunc, UserFunction with/without jac, ComposedFunction,
  boundary restrictions of each by name and by (axis, side)} x sdim 1..3 x output shapes {(), (1,), (2,), (3,),
  (2,2)} x all degree tuples over {1,2,3} x knot patterns (Bezier, repeated knot, graded C^0 knot, shifted
  domain) x NURBS weights {1, 2, graded} x constructor forms x routes x point sets, against ref/tp.py (exact
  collocation matrices, own quotient rules).  B-spline routes are linear in the coefficients and NURBS routes
  are linear in the control points for fixed weights: both are decided on EVERY unit coefficient tensor at once.
Part B (E1, props/c07_ops.py): all operation histories to depth 2 (thorough: 3, reduced alphabet at the third
  step) over 12 seed geometries, no state merging; after every operation the new object equals its model and
  every pre-existing object is byte-identical to its snapshot.
Part C (props/c07_ctor.py): circular arcs / circle / semicircle / disk / quarter annulus lie on exact circles,
  identity / unit_cube / unit_square / line_segment are the documented affine maps.
"""
import collections

from mc import par
from mc.outcome import Outcome

ID = "C07"
LEVEL = "model_checking"


def check_case(case):
    part = case["part"]
    if part == "func":
        from props import c07_funcs
        return list(c07_funcs.check_func(case))
    if part == "ops":
        from props import c07_ops
        return c07_ops.check_ops(case)
    if part == "ctor":
        from props import c07_ctor
        return c07_ctor.check_ctor(case)
    raise ValueError(part)


def _func_worker(case):
    from props import c07_funcs
    P = c07_funcs.check_func(case)
    return list(P), P.calls, sorted(P.notes), P.worst


def _ctor_worker(case):
    from props import c07_ctor
    return c07_ctor.check_ctor(case)


def _ops_worker(args):
    from props import c07_ops
    return c07_ops.expand_prefix(args)


def _simplicity(case):
    """order in which violations of one key are preferred as the reported (first) case"""
    if case["part"] == "func":
        axes = case.get("axes") or []
        rank = {"bspline": 0, "nurbs": 1, "user": 2, "composed": 3}[case["kind"]]
        return (rank, len(axes) or case.get("sdim", 0), sum(ax[0] + len(ax[2]) for ax in axes), case.get("oshape") == "unit",
                bool(case.get("restrict")))
    return (0,)


def run(ctx):
    import pyiga  # noqa: F401  (imported before forking so that the workers share it)
    from props import c07_funcs, c07_ops, c07_ctor
    from ref import tp
    out = Outcome()
    quick = ctx.tier == "quick"

    st = tp.selftest()
    if not st < 1e-5:
        raise RuntimeError("oracle self-test failed: derivative formulas of ref/tp.py deviate from finite differences by %r" % st)
    ctx.log("oracle self-test (finite differences vs reference derivatives): %.2e" % st)

    notes = set()
    # ---------------------------------------------------------------- Part C: constructors
    cc = c07_ctor.ctor_cases()
    for case in cc:                       # pure Python, a few ms each: evaluated in this process
        probs = _ctor_worker(case)
        out.states += 1
        out.transitions += 1
        out.part("constructors", cases=1)
        out.nontrivial.add(("ctor", repr(sorted(case.items(), key=lambda kv: kv[0]))))
        out.outcomes.add(("ctor", len(probs)))
        for key, msg in probs:
            out.add_violation(key, msg, case)
    out.sample(cc[2])
    ctx.log("constructors: %d cases" % len(cc))

    # ---------------------------------------------------------------- Part B: operation histories
    depth = 2 if quick else 3
    jobs, nodes = [], 0
    for seed in c07_ops.SEEDS:
        pf, counts = c07_ops.prefixes(seed, depth)
        nodes += sum(counts)
        jobs += [(seed, p, depth) for p in pf]
    res = par.pmap(_ops_worker, jobs, chunk=max(1, min(64, len(jobs) // 256)), allow_crash=True)
    ntrans = ntraces = 0
    opkeys = collections.Counter()
    for (seed, prefix, _), r in zip(jobs, res):
        if isinstance(r, par.Crash):
            out.add_violation("ops:crash:%r" % r, "the interpreter was killed (%r) while expanding %s %r" % (r, seed, prefix),
                              {"part": "ops", "seed": seed, "history": prefix})
            continue
        results, tr, tc, nt, calls = r
        ntrans += tr
        ntraces += tc
        out.evaluations += calls
        notes |= set(nt)
        nodes += max(0, tr - len(prefix))        # the last-step histories (prefix steps are re-executions)
        for hist, probs in results:
            for key, msg in probs:
                opkeys[key] += 1
                out.add_violation(key, "%s after %s: %s" % (seed, hist, msg), {"part": "ops", "seed": seed, "history": hist})
        if prefix:
            out.nontrivial.add(("ops", seed, repr(prefix)))
    out.violations.sort(key=lambda v: len(v.case.get("history", [])) if v.case["part"] == "ops" else 0)
    out.states += nodes
    out.transitions += ntrans
    out.traces += ntraces
    out.part("operations", seeds=len(c07_ops.SEEDS), depth=depth, histories=nodes, operations_executed=ntrans, maximal_histories=ntraces)
    out.outcomes.add(("ops", tuple(sorted(opkeys))))
    if jobs:
        out.sample({"part": "ops", "seed": jobs[len(jobs) // 2][0], "history": jobs[len(jobs) // 2][1]})
        out.sample({"part": "ops", "seed": jobs[-1][0], "history": jobs[-1][1]})
    ctx.log("operations: depth %d, %d histories, %d operations executed and compared, %d maximal histories"
            % (depth, nodes, ntrans, ntraces))

    # ---------------------------------------------------------------- Part A: functions x routes
    fc = c07_funcs.func_cases(ctx.tier, ctx.seed)
    worst = 0.0
    fviol = []
    for case, r in zip(fc, par.pmap(_func_worker, fc, chunk=2, allow_crash=True)):
        if isinstance(r, par.Crash):
            probs, calls = [("crash:%r" % r, "the interpreter was killed: %r" % r)], 0
        else:
            probs, calls, nt, w = r
            notes |= set(nt)
            if not probs:
                worst = max(worst, w)
        out.states += 1
        out.transitions += calls
        out.evaluations += calls
        out.part("functions:" + case["kind"], cases=1, calls=calls)
        sig = c07_funcs.nontrivial_sig(case)
        if sig is not None:
            out.nontrivial.add(("func", sig))
        out.outcomes.add(("func", tuple(k for k, _ in probs)))
        for key, msg in probs:
            fviol.append((_simplicity(case), len(fviol), key, msg, case))
    for _, _, key, msg, case in sorted(fviol, key=lambda t: t[:2]):
        out.add_violation(key, "%s: %s" % ({k: v for k, v in case.items() if k != "part"}, msg), case)
    out.sample(fc[0])
    out.sample(fc[len(fc) // 3])
    out.sample(fc[-1])
    ctx.log("functions: %d cases, largest deviation/scale among passing cases %.2e (tolerance %.0e)" % (len(fc), worst, c07_funcs.RTOL))

    out.extra["tolerated_observations"] = sorted(notes)
    out.extra["violation_keys"] = dict(collections.Counter(v.key for v in out.violations))
    out.extra["worst_deviation_over_scale_passing_function_cases"] = worst
    out.rule = ("states = enumerated function cases (kind x spline space x output shape x weights x constructor form) + "
                "distinct operation histories + constructor cases; transitions = implementation calls compared with the "
                "reference (functions), operations executed and compared (histories), constructor cases; traces = maximal "
                "operation histories executed on the real code.  Non-trivial = function cases whose spline space has a repeated "
                "interior knot on some axis (or user/composed functions), operation prefixes of length >= 1, constructor cases.")
    out.assumptions += [
        "knot vectors: Bezier, one interior knot of multiplicity min(p,2), graded breakpoints 0,1e-3,.5,1 with a C^0 knot, shifted "
        "domain [-2.5,7] with a repeated knot; degrees 1..3 (all tuples); sdim 2/3 use %s pattern tuples per degree tuple"
        % ("3/1 rotating" if quick else "all 16 / 4 rotating"),
        "values are decided on every unit coefficient tensor (B-spline routes are linear in the coefficients, NURBS routes in the "
        "control points for the three fixed weight arrays); other output shapes use small integer payloads chosen by VERIF_SEED",
        "points: breakpoints, adjacent floats, span midpoints (sdim 3: of the adjacent floats only the left neighbours)",
        "a scalar function returned with output shape (1,) instead of () is tolerated (the BSplineFunc docstring calls both "
        "scalar-valued); occurrences are listed in coverage.tolerated_observations",
        "operations on objects with an overridden support other than boundary/copy/support are not generated (documentation silent)",
        "circular_arc_5pt is called with alpha < 2 pi (two rational quadratic segments cannot span a full circle)",
    ]
    return out
