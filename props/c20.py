"""C20 -- the on-disk compile cache survives crashes and concurrent compilation.

Fault enumeration (E3): the ordered write history of one clean build of a small form is recorded with inotify;
crash states = every PREFIX of that history x a truncation class of the file in flight (empty, 64 B, one page,
k/8 of its size, all but the last byte) or garbage; plus single damages of each artefact of a complete cache
(truncations, deletion, garbage) and two faults across two restarts; (thorough) SIGKILL of the real compiling
process at every n-th inotify event.  Every cache state is handed to a FRESH process which requests the form:
it must return a correct assembler and must not die from a signal.
Schedules: two real processes (same form / distinct forms) are sequenced by a baton directory through all
interleavings of their stage boundaries (start | source written | cythonized | built | imported) with at most
one preemption (thorough: all 70 interleavings of 4+4 segments): both obtain correct assemblers and the shared
object of an entry that some process has already imported is never replaced by different bytes.
All processes use private cache directories below /verif/.cache/c20 (never ~/.cache, never /tmp).
"""
import hashlib
import itertools
import json
import os
import shutil
import signal
import subprocess
import sys
import time

import numpy as np

from mc import par
from mc.outcome import Outcome

ID = "C20"
LEVEL = "fault_enumeration"

VERIF = os.path.dirname(os.path.dirname(os.path.abspath(__file__)))
# per checked tree (VERIF_REPO) and per process group, so that two runs on different trees do not share scratch space
WORK = os.path.join(VERIF, ".cache", "c20" + ("" if not os.environ.get("VERIF_REPO") else
                                              "-" + hashlib.sha1(os.environ["VERIF_REPO"].encode()).hexdigest()[:8]))
PY = sys.executable

# the requesting process: assemble a 1D mass-type form (not among the precompiled assemblers) and report
CHILD = r'''
import sys, os, json, time
sys.path.insert(0, %(verif)r)
stage_dir = %(stage_dir)r
ident = %(ident)r
def staged(name):
    if stage_dir is None:
        return
    open(os.path.join(stage_dir, "at.%%s.%%s" %% (ident, name)), "w").close()
    go = os.path.join(stage_dir, "go.%%s.%%s" %% (ident, name))
    t0 = time.time()
    while not os.path.exists(go):
        time.sleep(0.01)
        if time.time() - t0 > 600:
            os._exit(97)
import numpy as np
import pyiga
pyiga.set_max_threads(1)
from pyiga import compile as C, bspline, vform, assemble, geometry
orig_cyth, orig_gbe = C.cythonize, C._get_build_extension
def cyth(*a, **k):
    staged("source_written")
    return orig_cyth(*a, **k)
def gbe():
    be = orig_gbe()
    orig_run = be.run
    def run():
        staged("cythonized")
        orig_run()
        staged("built")
    be.run = run
    return be
C.cythonize, C._get_build_extension = cyth, gbe
names = []
orig_ccm = C.compile_cython_module
def ccm(src, verbose=False):
    import hashlib
    names.append('mod' + hashlib.shake_128(src.encode()).hexdigest(8))
    return orig_ccm(src, verbose=verbose)
C.compile_cython_module = ccm
def form(which):
    V = vform.VForm(1)
    u, v = V.basisfuns()
    if which == 0:
        V.add(u * v * vform.dx)
    else:
        V.add((2.5 * u * v + u.dx(0) * v.dx(0)) * vform.dx)
    return V
kv = bspline.make_knots(2, 0.0, 1.0, 3)
geo = geometry.line_segment(0.0, 2.0)
out = {"ident": ident}
staged("start")
devnull = os.open(os.devnull, os.O_WRONLY); saved = (os.dup(1), os.dup(2)); os.dup2(devnull, 1); os.dup2(devnull, 2)
try:
    which = %(which)d
    cls = C.compile_vform(form(which))
    asm = cls((kv,), geo=geo)
    A = assemble.assemble_entries(asm).toarray()
finally:
    os.dup2(saved[0], 1); os.dup2(saved[1], 2)
staged("imported")
M = 2.0 * assemble.bsp_mass_1d(kv).toarray()
K = 0.5 * assemble.bsp_stiffness_1d(kv).toarray()
want = M if which == 0 else 2.5 * M + K
out["err"] = float(abs(A - want).max() / abs(want).max())
out["modname"] = names[-1] if names else None
out["sofile"] = getattr(sys.modules.get(out["modname"]), "__file__", None) if out["modname"] else None
print("RESULT " + json.dumps(out))
'''


def child_cmd(which=0, stage_dir=None, ident="p"):
    return [PY, "-c", CHILD % {"verif": VERIF, "stage_dir": stage_dir, "ident": ident, "which": which}]


def run_child(cache, which=0, timeout=600):
    env = dict(os.environ)
    env["XDG_CACHE_HOME"] = cache
    env["OMP_NUM_THREADS"] = "1"
    try:
        r = subprocess.run(child_cmd(which), capture_output=True, text=True, env=env, timeout=timeout, cwd=VERIF)
    except subprocess.TimeoutExpired:
        return {"status": "timeout"}
    res = {"status": "ok" if r.returncode == 0 else ("signal:%s" % signal.Signals(-r.returncode).name if r.returncode < 0 else "exit:%d" % r.returncode),
           "stderr": r.stderr[-600:]}
    for line in r.stdout.splitlines():
        if line.startswith("RESULT "):
            res.update(json.loads(line[7:]))
    return res


def moddir(cache):
    return os.path.join(cache, "pyiga", "modules")


def verdict(res, what):
    """problems of one recovery run"""
    st = res.get("status")
    if st == "ok":
        if res.get("err") is None:
            return [("recover:no-result", "%s: the recovery process printed no result" % what)]
        if not res["err"] <= 1e-12:
            return [("recover:wrong-assembler", "%s: the recovered assembler is wrong (relative error %.3g)" % (what, res["err"]))]
        return []
    if st and st.startswith("signal"):
        return [("recover:crash:%s" % st.split(":")[1], "%s: the next request killed the interpreter (%s)" % (what, st))]
    if st == "timeout":
        return [("recover:hang", "%s: the next request did not finish" % what)]
    tail = (res.get("stderr") or "").strip().splitlines()[-1:] or [""]
    kind = tail[0].split(":")[0].strip()[:40] if tail[0] else "error"
    return [("recover:fails:%s" % kind, "%s: the next request failed without manual cache clearing: %s" % (what, tail[0][:300]))]


# ---------------------------------------------------------------------------------------------------
# clean build: artefacts and their write order
# ---------------------------------------------------------------------------------------------------

def clean_build(tag):
    """build once into a private cache while recording inotify events; returns (cache dir, ordered list of
    relative file paths in the order their writing completed, event count)"""
    cache = os.path.join(WORK, tag)
    shutil.rmtree(cache, ignore_errors=True)
    os.makedirs(moddir(cache))
    log = os.path.join(WORK, tag + ".inotify")
    watcher = subprocess.Popen(["inotifywait", "-m", "-r", "-q", "-e", "create,modify,close_write,moved_to,delete",
                                "--format", "%e|%w%f", "-o", log, cache], stdout=subprocess.DEVNULL, stderr=subprocess.DEVNULL)
    time.sleep(0.5)
    res = run_child(cache)
    time.sleep(0.3)
    watcher.terminate()
    watcher.wait()
    if res.get("status") != "ok" or not res.get("err", 1) <= 1e-12:
        raise RuntimeError("harness: the clean build failed: %r" % (res,))
    order, nev = [], 0
    with open(log) as f:
        for line in f:
            nev += 1
            ev, path = line.rstrip("\n").split("|", 1)
            # the last event that touches a file which exists at the end (written in place, renamed or hard-linked
            # into the cache) fixes its position in the write history
            if ("CLOSE_WRITE" in ev or "MOVED_TO" in ev or "CREATE" in ev or "MODIFY" in ev) and os.path.isfile(path):
                rel = os.path.relpath(path, cache)
                if rel in order:
                    order.remove(rel)
                order.append(rel)
    order = [r for r in order if os.path.isfile(os.path.join(cache, r))]
    return cache, order, nev, res


def trunc_classes(size, tier):
    c = [("empty", 0), ("64B", 64), ("page", 4096), ("half", size // 2), ("allbut1", size - 1)]
    if tier == "thorough":
        c += [("%d/8" % k, size * k // 8) for k in (1, 2, 3, 5, 6, 7)] + [("2pages", 8192)]
    out, seen = [], set()
    for name, n in c:
        if 0 <= n < size and n not in seen:
            seen.add(n)
            out.append((name, n))
    return out


def kind_of(rel):
    if rel.endswith(".pyx"):
        return "pyx"
    if rel.endswith(".c"):
        return "c"
    if rel.endswith(".o"):
        return "o"
    if rel.endswith(".so"):
        return "so"
    return os.path.splitext(rel)[1] or "other"


def make_state(src_cache, dst, keep, damaged=None, cut=None, garbage=False):
    """copy the files in `keep` (complete) and `damaged` (truncated to `cut` bytes / garbage of the same size);
    mtimes are preserved in order"""
    shutil.rmtree(dst, ignore_errors=True)
    for rel in keep + ([damaged] if damaged else []):
        s, d = os.path.join(src_cache, rel), os.path.join(dst, rel)
        os.makedirs(os.path.dirname(d), exist_ok=True)
        shutil.copy2(s, d)
    if damaged:
        d = os.path.join(dst, damaged)
        st = os.stat(d)
        if garbage:
            n = os.path.getsize(d)
            with open(d, "wb") as f:
                f.write((b"\xde\xad\xbe\xef" * (n // 4 + 1))[:n])
        else:
            with open(d, "r+b") as f:
                f.truncate(cut)
        os.utime(d, (st.st_atime, st.st_mtime))
    os.makedirs(moddir(dst), exist_ok=True)


def _damage(path, cls, cut):
    st = os.stat(path)
    if cls == "garbage":
        n = os.path.getsize(path)
        with open(path, "wb") as f:
            f.write((b"\xde\xad\xbe\xef" * (n // 4 + 1))[:n])
    else:
        with open(path, "r+b") as f:
            f.truncate(cut)
    os.utime(path, (st.st_atime, st.st_mtime))


def pair_cases(order, sizes, tier):
    """(C) two damaged artefacts at once (what a power loss, or a kill followed by disk damage, leaves behind): every
    pair of files of the complete cache, product of their damage classes (quick: the classes that behaved
    differently in (A)/(B): absent / empty / one page / half / garbage)"""
    def classes(rel):
        c = [(n, k) for n, k in trunc_classes(sizes[rel], tier) if tier == "thorough" or n in ("empty", "page", "half")]
        return c + [("garbage", None), ("deleted", None)]
    cases = []
    for i, a in enumerate(order):
        for b in order[i + 1:]:
            for na, ka in classes(a):
                for nb, kb in classes(b):
                    cases.append({"part": "pair", "file": a, "class": na, "cut": ka, "file2": b, "class2": nb, "cut2": kb})
    return cases


def pair_problems(case):
    src, order = case["src"], case["order"]
    dst = os.path.join(WORK, "state_%s" % hashlib.sha1(json.dumps(case, sort_keys=True).encode()).hexdigest()[:12])
    try:
        make_state(src, dst, list(order))
        for rel, cls, cut in ((case["file"], case["class"], case["cut"]), (case["file2"], case["class2"], case["cut2"])):
            if cls == "deleted":
                os.remove(os.path.join(dst, rel))
            else:
                _damage(os.path.join(dst, rel), cls, cut)
        what = "%s %s and %s %s" % (kind_of(case["file"]), case["class"], kind_of(case["file2"]), case["class2"])
        res = run_child(dst)
        probs = verdict(res, what)
        probs = [("%s:pair:%s+%s" % (k, kind_of(case["file"]), kind_of(case["file2"]))
                  if k.startswith("recover:crash") or k.startswith("recover:fails") else k, m) for k, m in probs]
        if not probs and res.get("modname") != case["modname"]:
            raise RuntimeError("harness: the recovery process generated a different module name: vacuous")
        return probs
    finally:
        shutil.rmtree(dst, ignore_errors=True)


def fault_cases(order, sizes, tier):
    cases = []
    # (A) crash prefixes: files before index i complete, file i in flight
    for i, rel in enumerate(order):
        for name, n in trunc_classes(sizes[rel], tier):
            cases.append({"part": "prefix", "index": i, "file": rel, "class": name, "cut": n})
        cases.append({"part": "prefix", "index": i, "file": rel, "class": "absent", "cut": None})
    # (B) single damages of a complete cache
    for rel in order:
        for name, n in trunc_classes(sizes[rel], tier):
            cases.append({"part": "damage", "file": rel, "class": name, "cut": n})
        cases.append({"part": "damage", "file": rel, "class": "garbage", "cut": None})
        cases.append({"part": "damage", "file": rel, "class": "deleted", "cut": None})
    return cases


def fault_problems(case):
    src, order = case["src"], case["order"]
    dst = os.path.join(WORK, "state_%s" % hashlib.sha1(json.dumps(case, sort_keys=True).encode()).hexdigest()[:12])
    try:
        rel = case["file"]
        if case["part"] == "prefix":
            keep = order[:case["index"]]
            if case["class"] == "absent":
                make_state(src, dst, keep)
            else:
                make_state(src, dst, keep, rel, case["cut"])
        else:
            keep = [r for r in order if r != rel]
            if case["class"] == "deleted":
                make_state(src, dst, keep)
            elif case["class"] == "garbage":
                make_state(src, dst, keep, rel, garbage=True)
            else:
                make_state(src, dst, keep, rel, case["cut"])
        what = "%s %s of %s" % (case["part"], case["class"], kind_of(rel))
        res = run_child(dst)
        probs = verdict(res, what)
        probs = [("%s:%s" % (k, kind_of(rel)) if k.startswith("recover:crash") or k.startswith("recover:fails") else k, m) for k, m in probs]
        if not probs and res.get("modname") != case["modname"]:
            raise RuntimeError("harness: the recovery process generated a different module name (%s vs %s): vacuous"
                               % (res.get("modname"), case["modname"]))
        if not probs and case.get("second"):
            # a second fault after the first restart: damage the (re)built shared object again and restart
            so = res.get("sofile")
            if so and os.path.exists(so):
                with open(so, "r+b") as f:
                    f.truncate(4096)
                probs += [("%s:so:second" % k if k.startswith("recover:crash") else k, m) for k, m in verdict(run_child(dst), what + " then truncated .so")]
        return probs
    finally:
        shutil.rmtree(dst, ignore_errors=True)


# ---------------------------------------------------------------------------------------------------
# live kill
# ---------------------------------------------------------------------------------------------------

def kill_problems(case):
    """start a real compile, SIGKILL its whole process group when the n-th inotify event arrives, then recover"""
    n = case["event"]
    cache = os.path.join(WORK, "kill_%d" % n)
    shutil.rmtree(cache, ignore_errors=True)
    os.makedirs(moddir(cache))
    watcher = subprocess.Popen(["inotifywait", "-m", "-r", "-q", "-e", "create,modify,close_write,moved_to,delete",
                                "--format", "%e|%w%f", cache], stdout=subprocess.PIPE, stderr=subprocess.DEVNULL)
    time.sleep(0.4)
    env = dict(os.environ)
    env["XDG_CACHE_HOME"] = cache
    proc = subprocess.Popen(child_cmd(0), stdout=subprocess.DEVNULL, stderr=subprocess.DEVNULL, env=env, cwd=VERIF,
                            start_new_session=True)
    count = 0
    try:
        import select
        fd = watcher.stdout.fileno()
        buf = b""
        t0 = time.time()
        while count < n and time.time() - t0 < 600:
            r, _, _ = select.select([fd], [], [], 0.2)
            if r:
                chunk = os.read(fd, 65536)
                if not chunk:
                    break
                buf += chunk
                count += chunk.count(b"\n")
            elif proc.poll() is not None:
                break
        try:
            os.killpg(proc.pid, signal.SIGKILL)
        except ProcessLookupError:
            pass
        proc.wait()
    finally:
        watcher.terminate()
        watcher.wait()
    try:
        res = run_child(cache)
        return [("%s:live-kill" % k if k.startswith("recover:crash") or k.startswith("recover:fails") else k, m)
                for k, m in verdict(res, "SIGKILL at inotify event %d" % n)]
    finally:
        shutil.rmtree(cache, ignore_errors=True)


# ---------------------------------------------------------------------------------------------------
# staged schedules of two processes
# ---------------------------------------------------------------------------------------------------

STAGES = ["start", "source_written", "cythonized", "built", "imported"]


def schedules(tier):
    """interleavings of the stage-boundary releases of processes A and B (4 segments each = 5 boundaries;
    releasing boundary i lets the process run to boundary i+1)"""
    nseg = len(STAGES)
    allint = []
    for pos in itertools.combinations(range(2 * nseg), nseg):
        s = ["B"] * (2 * nseg)
        for p in pos:
            s[p] = "A"
        allint.append("".join(s))
    if tier == "thorough":
        return allint

    def preemptions(s):
        # switching away from a process that still has segments left
        cnt, left = 0, {"A": nseg, "B": nseg}
        for i, c in enumerate(s):
            left[c] -= 1
            if i + 1 < len(s) and s[i + 1] != c and left[c] > 0:
                cnt += 1
        return cnt
    return [s for s in allint if preemptions(s) <= 1]


def schedule_problems(case):
    sched, same = case["schedule"], case["same_form"]
    tag = "sched_%s_%s" % (sched, "same" if same else "diff")
    cache = os.path.join(WORK, tag)
    stage_dir = os.path.join(WORK, tag + ".baton")
    dmg = case.get("damage")
    if dmg:
        tag += "_dmg_%s" % dmg["class"]
        cache = os.path.join(WORK, tag)
        stage_dir = os.path.join(WORK, tag + ".baton")
    for d in (cache, stage_dir):
        shutil.rmtree(d, ignore_errors=True)
    os.makedirs(moddir(cache))
    os.makedirs(stage_dir)
    if dmg:
        # both processes start on a cache whose entry for the requested form is damaged (crash artefact): each of them
        # has to notice and rebuild, concurrently
        src, order = case["src"], case["order"]
        if not os.path.isdir(src):
            src, order, _, _ = clean_build("replay_clean")
        make_state(src, cache, list(order))
        so = [r for r in order if kind_of(r) == "so"][0]
        _damage(os.path.join(cache, so), dmg["class"], dmg.get("cut"))
    env = dict(os.environ)
    env["XDG_CACHE_HOME"] = cache
    procs, outs = {}, {}
    probs = []
    try:
        for ident, which in (("A", 0), ("B", 0 if same else 1)):
            procs[ident] = subprocess.Popen(child_cmd(which, stage_dir, ident), stdout=subprocess.PIPE, stderr=subprocess.PIPE,
                                            text=True, env=env, cwd=VERIF)
        nxt = {"A": 0, "B": 0}
        published = {}          # so path -> sha256 at the time some process had imported it

        def wait_at(ident, k, timeout=900):
            """wait until process `ident` reports boundary k or exits; a process that finds the module already built
            skips the build boundaries, so any later boundary also counts"""
            t0 = time.time()
            while time.time() - t0 < timeout:
                for kk in range(k, len(STAGES)):
                    if os.path.exists(os.path.join(stage_dir, "at.%s.%s" % (ident, STAGES[kk]))):
                        return kk
                if procs[ident].poll() is not None:
                    return None
                time.sleep(0.01)
            return "timeout"

        def snapshot_sos():
            for fn in os.listdir(moddir(cache)):
                if fn.endswith(".so"):
                    p = os.path.join(moddir(cache), fn)
                    try:
                        with open(p, "rb") as f:
                            h = hashlib.sha256(f.read()).hexdigest()
                    except OSError:
                        continue
                    yield p, h

        at = {}
        for ident in ("A", "B"):
            at[ident] = wait_at(ident, 0)
        for c in sched:
            k = at[c]
            if k is None or k == "timeout":
                continue
            # release every boundary up to the one the process is waiting at, then wait for the next one
            open(os.path.join(stage_dir, "go.%s.%s" % (c, STAGES[k])), "w").close()
            if k + 1 < len(STAGES):
                at[c] = wait_at(c, k + 1)
            else:
                at[c] = None
            if at[c] == "timeout":
                probs.append(("schedule:hang", "process %s did not reach its next stage in schedule %s" % (c, sched)))
                break
            # content watch: once a process has imported an entry its bytes must not change any more
            for p, h in snapshot_sos():
                if p in published and published[p] != h:
                    probs.append(("schedule:overwritten", "schedule %s (%s form): %s was replaced by different bytes after a process had imported it"
                                  % (sched, "same" if same else "distinct", os.path.basename(p))))
            if at[c] is not None and at[c] != "timeout" and STAGES[at[c]] == "imported":
                for p, h in snapshot_sos():
                    published.setdefault(p, h)
        # release whatever is still waiting
        for ident in ("A", "B"):
            for st in STAGES:
                open(os.path.join(stage_dir, "go.%s.%s" % (ident, st)), "w").close()
        for ident, pr in procs.items():
            try:
                so, se = pr.communicate(timeout=900)
            except subprocess.TimeoutExpired:
                pr.kill()
                probs.append(("schedule:hang", "process %s hung in schedule %s" % (ident, sched)))
                continue
            res = {"status": "ok" if pr.returncode == 0 else ("signal:%s" % signal.Signals(-pr.returncode).name if pr.returncode < 0 else "exit:%d" % pr.returncode),
                   "stderr": se[-600:]}
            for line in so.splitlines():
                if line.startswith("RESULT "):
                    res.update(json.loads(line[7:]))
            outs[ident] = res
            for k_, m in verdict(res, "process %s in schedule %s (%s form)" % (ident, sched, "same" if same else "distinct")):
                probs.append((k_.replace("recover:", "schedule:"), m))
        for p, h in snapshot_sos():
            if p in published and published[p] != h:
                probs.append(("schedule:overwritten", "schedule %s: %s was replaced by different bytes after completion" % (sched, os.path.basename(p))))
    finally:
        for pr in procs.values():
            if pr.poll() is None:
                pr.kill()
        shutil.rmtree(cache, ignore_errors=True)
        shutil.rmtree(stage_dir, ignore_errors=True)
    seen, out = set(), []
    for k, m in probs:
        if k not in seen:
            seen.add(k)
            out.append((k, m))
    return out


def race_problems(case):
    """free-running race of n processes on one cache directory (supplementary, not deciding)"""
    n, same = case["n"], case["same_form"]
    cache = os.path.join(WORK, "race_%d_%s" % (n, "same" if same else "diff"))
    shutil.rmtree(cache, ignore_errors=True)
    os.makedirs(moddir(cache))
    env = dict(os.environ)
    env["XDG_CACHE_HOME"] = cache
    procs = [subprocess.Popen(child_cmd(0 if same else i % 2), stdout=subprocess.PIPE, stderr=subprocess.PIPE, text=True, env=env, cwd=VERIF)
             for i in range(n)]
    probs = []
    try:
        for i, pr in enumerate(procs):
            so, se = pr.communicate(timeout=900)
            res = {"status": "ok" if pr.returncode == 0 else ("signal:%s" % signal.Signals(-pr.returncode).name if pr.returncode < 0 else "exit:%d" % pr.returncode),
                   "stderr": se[-600:]}
            for line in so.splitlines():
                if line.startswith("RESULT "):
                    res.update(json.loads(line[7:]))
            for k_, m in verdict(res, "process %d of %d racing on the %s form" % (i, n, "same" if same else "distinct")):
                probs.append((k_.replace("recover:", "race:"), m))
    finally:
        shutil.rmtree(cache, ignore_errors=True)
    return probs[:1]


# ---------------------------------------------------------------------------------------------------

def check_case(case):
    os.makedirs(WORK, exist_ok=True)
    part = case["part"]
    if part in ("prefix", "damage"):
        if not os.path.isdir(case["src"]):
            src, order, nev, res = clean_build("replay_clean")
            case = dict(case, src=src, order=order, modname=res.get("modname"))
            if case["file"] not in order:
                cand = [r for r in order if kind_of(r) == kind_of(case["file"])]
                if not cand:
                    return []
                case["file"] = cand[0]
                if case["part"] == "prefix":
                    case["index"] = order.index(cand[0])
        return fault_problems(case)
    if part == "pair":
        if not os.path.isdir(case["src"]):
            src, order, nev, res = clean_build("replay_clean")
            case = dict(case, src=src, order=order, modname=res.get("modname"))
            for key in ("file", "file2"):
                if case[key] not in order:
                    cand = [r for r in order if kind_of(r) == kind_of(case[key])]
                    if not cand:
                        return []
                    case[key] = cand[0]
        return pair_problems(case)
    if part == "kill":
        return kill_problems(case)
    if part == "schedule":
        return schedule_problems(case)
    if part == "race":
        return race_problems(case)
    raise ValueError(part)


def _w(case):
    return check_case(case)


def run(ctx):
    out = Outcome()
    shutil.rmtree(WORK, ignore_errors=True)
    os.makedirs(WORK)
    src, order, nev, res = clean_build("clean")
    sizes = {r: os.path.getsize(os.path.join(src, r)) for r in order}
    ctx.log("clean build: %d inotify events, write order: %s" % (nev, [(kind_of(r), sizes[r]) for r in order]))
    out.extra["write_history"] = [{"file": os.path.basename(r), "kind": kind_of(r), "size": sizes[r]} for r in order]
    cases = fault_cases(order, sizes, ctx.tier)
    for c in cases:
        c.update(src=src, order=order, modname=res.get("modname"))
    # two faults across two restarts: after recovering from a damaged .so, damage the rebuilt one again
    for c in list(cases):
        if c["part"] == "damage" and kind_of(c["file"]) == "so" and c["class"] in ("page", "half"):
            cases.append(dict(c, second=True))
    pairs = pair_cases(order, sizes, ctx.tier)
    for c in pairs:
        c.update(src=src, order=order, modname=res.get("modname"))
    cases += pairs
    sch = schedules(ctx.tier)
    for same in (True, False):
        for s in sch:
            cases.append({"part": "schedule", "schedule": s, "same_form": same})
    # the same schedules (same form) on a cache whose entry is damaged
    for s_ in schedules("quick"):         # the <= 1 preemption schedules in both tiers (each costs two rebuilds)
        for dmg in ([{"class": "garbage"}] if ctx.tier == "quick" else [{"class": "garbage"}, {"class": "page", "cut": 4096}]):
            cases.append({"part": "schedule", "schedule": s_, "same_form": True, "damage": dmg, "src": src, "order": order})
    if ctx.tier == "thorough":
        cases += [{"part": "kill", "event": n} for n in range(1, nev + 1, 4)]
        cases += [{"part": "race", "n": n, "same_form": same} for n in (2, 4, 8, 16) for same in (True, False)]
    else:
        cases += [{"part": "kill", "event": n} for n in range(2, nev + 1, 8)]
        cases += [{"part": "race", "n": 4, "same_form": True}]
    ctx.log("cases: %d (fault states %d, schedules %d)" % (len(cases), sum(1 for c in cases if c["part"] in ("prefix", "damage")), 2 * len(sch)))
    results = par.pmap(_w, cases, min_parallel=2, chunk=1, workers=8)
    for case, probs in zip(cases, results):
        part = case["part"]
        out.evaluations += 1
        out.transitions += 1
        out.part(part, cases=1)
        label = {k: v for k, v in case.items() if k not in ("src", "order", "modname")}
        if part in ("prefix", "damage", "pair"):
            label["file"] = kind_of(case["file"])
            if part == "pair":
                label["file2"] = kind_of(case["file2"])
        out.nontrivial.add(json.dumps(label, sort_keys=True))
        out.outcomes.add(tuple(sorted(k for k, _ in probs)))
        if part == "race":
            # free-running races are not reproducible schedule by schedule: supplementary, reported but not deciding
            out.extra.setdefault("free_running_races", []).append({"n": case["n"], "same_form": case["same_form"],
                                                                   "observed": [m for _, m in probs]})
            continue
        for key, msg in probs:
            out.add_violation(key, msg, dict(case))
    out.states = len(out.nontrivial)
    out.traces = sum(1 for c in cases if c["part"] == "schedule")
    shutil.rmtree(WORK, ignore_errors=True)
    out.sample({k: v for k, v in cases[0].items() if k not in ("src", "order")})
    out.sample([c for c in cases if c["part"] == "schedule"][3])
    out.rule = ("fault states: every prefix of the recorded write history x truncation class {empty, 64 B, one page, half, size-1 "
                "(thorough: k/8, two pages)} + absent; single damages of every artefact of a complete cache (truncations, garbage, "
                "deletion); the same-form schedules also on a cache whose entry is damaged; every pair of artefacts damaged at once (product of damage classes); a second fault after the first recovery; SIGKILL at every 8th (thorough: 4th) inotify event; schedules: "
                "all interleavings of the 5+5 stage-boundary releases of two processes with <= 1 preemption (thorough: all 252) for the "
                "same and for distinct forms; one free-running race (thorough: 2..16 processes). Every state is followed by a request "
                "in a fresh process. Non-trivial = distinct fault states / schedules.")
    out.assumptions += ["parts prefix/kill model process death (the page cache survives: prefixes of the write history with the file in "
                        "flight truncated); parts damage/pair model later damage or power loss of one or two artefacts of a complete cache", "the requested form is a small 1D form (not precompiled); correctness = "
                        "the assembled matrix equals the Kronecker/1D reference to 1e-12"]
    return out
