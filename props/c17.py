"""C17 -- interpolation and L2 projection are projections onto the spline space.

E2 (bounded-exhaustive shape enumeration) + E1 (all refinement states of small hierarchical rows):

  part "interp"  every (space, node grid, geometry):  approx.interpolate / bspline.interpolate on the values of EVERY
                 basis function (array and callable data, scalar / vector / matrix valued) == unit vector; node
                 matching for monomials of degree p+1, p+2; physical data == pull-back == value array.
  part "l2"      every (space, geometry): approx.project_L2 / bspline.project_L2 / load_vector on EVERY basis function
                 == unit vector (Kronecker path: cond-scaled max norm and energy norm; geometry-weighted CG path:
                 relative residual of the normal equations, energy norm, captured stderr); residual of out-of-space
                 polynomials orthogonal to every basis function w.r.t. an independent (pmax+3)-point Gauss rule
                 weighted with |det J|; f_physical=True == pull-back.
  part "hier"    every refinement state of small C04 rows, HB and THB: project_L2 of every (T)HB basis function (as a
                 callable built from the reference representation matrix and as an HSplineFunc), of every coarse
                 tensor-product function and of out-of-space monomials (orthogonality).

Spaces: 1D = the whole knot-vector alphabet of ref/kvs.py (all interior multiplicity vectors), 2D/3D = all ordered
pairs / triples of small axis alphabets (mixed degrees, unequal dof counts, repeated knots, graded G3/G4, shifted S3).
Because both maps are linear, checking every unit vector decides all coefficient vectors.

Acceptance (fixed numbers in props/c17_tp.py / c17_hier.py; worst observed/tolerance ratio over the thorough space on
the unchanged tree is printed by every run and stored in the evidence, all <= 1.1e-3 except where noted):
  direct paths (collocation solves, Kronecker mass inverse, sparse LU of the hierarchical mass matrix):
      max |x - e_j| <= 1e-12 * cond, and for mass solves additionally ||x - e_j||_M <= 1e-8 ||e_j||_M
  CG path (project_L2 with geo):  ||M(x - e_j)|| <= 1e-9 ||M e_j||  and  ||x - e_j||_M <= 1e-6 ||e_j||_M, stderr
      captured.  On the unchanged tree CG is called with atol=1e-12, which stops it early (or immediately, result 0)
      whenever ||b|| << 1: keys project_L2:geo:cg-atol:zero-result / :early-stop; with atol=0 every case reaches
      1e-12 (ratio 1e-3 to the tolerance).
  node matching / orthogonality: 1e-10 relative to the data / load vector.
Known on the unchanged tree besides the CG tolerance: hier:project_L2:reproduce:coarse-rhs-quadrature (the load vector
entry of a coarse active function is integrated with the coarse level's Gauss rule across refined cells, so finer
functions of the space itself are not reproduced, errors ~1e-2).
"""
import itertools

import numpy as np

from mc import par
from mc.outcome import Outcome
from ref import kvs as KV

ID = "C17"
LEVEL = "model_checking"

AX2_QUICK = [[0, "U2", [1]], [1, "U3", [1, 1]], [2, "U2", [2]], [2, "G3", [1, 2]], [3, "G4", [1, 1]], [3, "U1", []],
             [2, "S3", [2, 1]]]
AX2_MORE = [[0, "U1", []], [1, "G4", [1, 1]], [4, "G4", [2, 3]]]
AX3 = [[1, "U2", [1]], [2, "U2", [2]], [1, "G4", [1, 1]], [0, "U2", [1]], [3, "U1", []]]
TRIPLES_QUICK = [(0, 1, 2), (2, 0, 1), (3, 4, 0), (1, 3, 2), (2, 2, 2), (4, 0, 3)]

GEOS = {1: ["none"], 2: ["none", "identity", "affine", "mirror", "multilinear", "nurbs", "nurbs-small"],
        3: ["none", "identity", "affine", "mirror", "multilinear", "nurbs"]}
IGEOS = {1: ["none", "identity", "affine", "quadratic"], 2: ["none", "affine", "mirror", "multilinear", "nurbs"],
         3: ["none", "affine", "multilinear", "nurbs"]}
SCHEMES = ["greville", "cheb", "skew", "mixed"]


def spaces(tier):
    """list of axes-lists, simplest first"""
    out = []
    pmax = 4 if tier == "quick" else 6
    for p in range(pmax + 1):
        for name, br, m in KV.kv_shapes(p):
            if tier == "quick" and p == 4 and name == "U4" and sum(m) % 2:
                continue        # thin the largest family in the quick tier (every other multiplicity vector)
            out.append([[p, name, list(m)]])
    if tier == "quick":
        # degree 5 on [-2.5, 7]: the running knot average of the last Greville point rounds to 7 + 1 ulp, i.e. the
        # clamp in KnotVector.greville is what keeps the node inside the domain (all of p=5,6 is in the thorough tier)
        out.append([[5, "S3", [1, 1]]])
    ax2 = AX2_QUICK + (AX2_MORE if tier == "thorough" else [])
    for a, b in itertools.product(ax2, repeat=2):
        out.append([a, b])
    if tier == "quick":
        trip = [tuple(AX3[i] for i in t) for t in TRIPLES_QUICK]
    else:
        trip = list(itertools.product(AX3[:4], repeat=3)) + [tuple(AX3[i] for i in t) for t in ((3, 4, 0), (4, 0, 3), (4, 4, 1))]
    for t in trip:
        out.append([list(a) for a in t])
    return out


def cases(tier, seed):
    from props import c17_tp as T
    cs = []
    for axes in spaces(tier):
        d = len(axes)
        sp = None
        for g in GEOS[d]:
            if g.startswith("nurbs") and any(KV.PATTERNS[a[1]][0] != 0.0 or KV.PATTERNS[a[1]][-1] != 1.0 for a in axes):
                continue
            cs.append({"part": "l2", "axes": axes, "geo": g, "seed": seed})
        for sch in SCHEMES:
            if sch == "mixed" and d == 1:
                continue
            if sch != "greville":
                sp = sp or T.space(axes)
                if T.interp_nodes(sp, sch) is None:
                    continue        # not unisolvent (Schoenberg-Whitney fails): not a legal node grid
            for g in IGEOS[d]:
                if g == "nurbs" and any(KV.PATTERNS[a[1]][0] != 0.0 or KV.PATTERNS[a[1]][-1] != 1.0 for a in axes):
                    continue
                if d > 1 and sch != "greville" and g in ("multilinear",):
                    continue
                cs.append({"part": "interp", "axes": axes, "nodes": sch, "geo": g, "seed": seed})
    return cs


def _evaluate(case):
    part = case["part"]
    if part == "interp":
        from props import c17_tp as T
        return T.interp_problems(case)
    if part == "l2":
        from props import c17_tp as T
        return T.l2_problems(case)
    if part == "hier":
        from props import c17_hier as H
        return H.hier_problems(case)
    raise ValueError(part)


def check_case(case):
    return list(_evaluate(case).probs)


def _w(case):
    rec = _evaluate(case)
    return rec.probs, rec.calls, rec.worst


def nontrivial(case):
    if case["part"] == "hier":
        return True
    axes = case["axes"]
    graded_rep = any(KV.is_nontrivial(KV.PATTERNS[a[1]], a[2]) for a in axes)
    mixed = len(axes) > 1 and (len({a[0] for a in axes}) > 1)
    return graded_rep or mixed or case["geo"] not in ("none", "identity")


def run(ctx):
    from props import c17_hier as H
    from props import c17_tp as T
    import pyiga.approx, pyiga.geometry, pyiga.hierarchical      # noqa: E401,F401  (imported once, before forking)
    out = Outcome()
    cs = cases(ctx.tier, ctx.seed)
    ctx.log("tensor-product cases: %d (interp %d, l2 %d)" % (len(cs), sum(c["part"] == "interp" for c in cs),
                                                             sum(c["part"] == "l2" for c in cs)))
    H.warm_compile(sorted({len(r[0]["k"]) for r in H.rows(ctx.tier)}), ctx.log)
    hcs, hinfo = H.cases(ctx.tier, ctx.seed)
    for cfg, nst, closed in hinfo:
        ctx.log("hierarchical row %s p=%s: %d states%s" % (cfg["row"], cfg["p"], nst, "" if closed else " (NOT closed)"))
        if not closed:
            out.caps_hit.append("row %s: state graph not closed" % cfg["row"])
    allc = cs + hcs
    res = par.pmap(_w, allc, chunk=1, allow_crash=True)
    worst = {}
    spaces_seen = set()
    for case, r in zip(allc, res):
        part = case["part"]
        if isinstance(r, par.Crash):
            probs, calls, w = [("crash:%r" % r, "the interpreter was killed (%r) while evaluating this case" % r)], 0, {}
        else:
            probs, calls, w = r
        out.transitions += calls
        out.traces += 1
        if part == "hier":
            sig = ("hier", case["cfg"]["row"], tuple(case["cfg"]["p"]), repr(case["history"]), case["truncate"])
            out.part("hier:" + case["cfg"]["row"], cases=1, calls=calls)
        else:
            sig = ("tp", repr(case["axes"]))
            out.part("%s:%dD" % (part, len(case["axes"])), cases=1, calls=calls)
        spaces_seen.add(sig)
        if nontrivial(case):
            out.nontrivial.add((part, sig, case.get("geo"), case.get("nodes")))
        out.outcomes.add((part, calls, tuple(sorted(k for k, _ in probs))))
        for k, v in w.items():
            if v > worst.get(k, 0.0):
                worst[k] = v
        for key, msg in probs:
            out.add_violation(key, "%s: %s" % (_describe(case), msg), case)
    out.states = len(spaces_seen)
    out.evaluations = out.transitions
    out.extra["worst_ratio_to_tolerance"] = {k: float("%.3g" % v) for k, v in sorted(worst.items())}
    ctx.log("worst observed/tolerance ratios: %s" % out.extra["worst_ratio_to_tolerance"])
    for c in (cs[0], cs[len(cs) // 2], cs[-1], hcs[len(hcs) // 2]):
        out.sample(c)
    out.rule = ("a state is one spline space (tensor-product: tuple of (degree, breakpoint pattern, interior multiplicity vector) "
                "per axis; hierarchical: (row, refinement state, HB/THB)); a case adds the geometry and the node grid; every case "
                "runs the maps on EVERY basis function (unit vector) in every documented data form; transitions = library calls "
                "compared with the reference. Non-trivial = graded-and-repeated knots, mixed degrees, a non-identity geometry, or "
                "a hierarchical state.")
    out.assumptions += [
        "linearity: interpolate/project_L2 have no value-dependent control flow except the CG stopping test, which is why the CG "
        "path is judged by residual/energy criteria on every unit vector and on out-of-space data",
        "breakpoints from the finite alphabet of ref/kvs.py (6 decades of grading); 2D/3D spaces are all ordered pairs/triples of "
        "small axis alphabets, not all tuples of knot vectors",
        "geometries: identity, affine, bi/trilinear, NURBS quarter annulus (x extrusion); |det J| for the reference quadrature is "
        "taken from geo.grid_jacobian (decided by C07)",
        "orthogonality is demanded exactly only for data the documented (pmax+1)-point Gauss rule integrates exactly; for other "
        "data (NURBS geometry, degree p+2 on the axis of maximal degree) it is demanded in the library's own discrete inner product",
        "custom node grids are generated only if the Schoenberg-Whitney condition holds (exact check)",
        "hierarchical rows: uniform dyadic meshes, 1-3 coarse cells, <= 3 levels, degrees 1-3; in 'per-level' mode the alternative "
        "data forms (f_physical=True, HSplineFunc) run on the first and last active function of every level only",
    ]
    return out


def _describe(case):
    if case["part"] == "hier":
        return "hier %s p=%s %s after %s geo=%s" % (case["cfg"]["row"], case["cfg"]["p"], "THB" if case["truncate"] else "HB",
                                                   case["history"], case["geo"])
    return "%s axes=%s geo=%s%s" % (case["part"], case["axes"], case["geo"],
                                   " nodes=%s" % case["nodes"] if case["part"] == "interp" else "")
