"""C18 part B -- CanonicalOperator (Kronecker-rank operators on tensors).

State = (real CanonicalOperator, dense matrix of the raveled operator).  Events: .T, neg, + / - with a
second operator, composition (@ / *), kron, slice; observers at every state: asmatrix (sparse factors),
shape / ndim / R, apply and @ on *every unit tensor* (decides the linear map) and on one tensor of each
low-rank format.  Integer payloads, exact comparison.  All event sequences to the depth bound, no merging.
"""
import numpy as np

from props import c18_core as K
from ref import tensor_model as R


def _factor(seed, tag, shape, fmt):
    import scipy.sparse
    M = K.payload(seed, tag, shape)
    M = np.sign(M) * (1 + (np.abs(M) - 1) % 4)
    if shape[0] > 1 and shape[1] > 1:
        M[0, -1] = 0.0          # a structural zero so that sparse factors really are sparse
    return M, (scipy.sparse.csr_matrix(M) if fmt == "csr" else M.copy())


def make_op(spec, seed):
    """spec = {"fmt": csr|dense|eye|eyecsr, "shapes": [[m,n],...], "R": r, "salt": s} -> (operator, dense matrix)"""
    t = K.T()
    fmt, shapes, Rk = spec["fmt"], [tuple(s) for s in spec["shapes"]], int(spec.get("R", 1))
    if fmt in ("eye", "eyecsr"):
        ns = tuple(s[0] for s in shapes)
        op = t.CanonicalOperator.eye(ns) if fmt == "eye" else t.CanonicalOperator.eye(ns, format="csr")
        return op, np.eye(int(np.prod(ns)))
    terms, dense = [], None
    for r in range(Rk):
        pairs = [_factor(seed, "op:%s:%d:%d:%s" % (spec.get("salt", 0), r, j, s), s, fmt) for j, s in enumerate(shapes)]
        terms.append(tuple(p[1] for p in pairs))
        Mr = R.kron_all([p[0] for p in pairs])
        dense = Mr if dense is None else dense + Mr
    return t.CanonicalOperator(terms), dense


class OpState:
    __slots__ = ("op", "M", "fmt", "snap")

    def __init__(self, op, M, fmt):
        self.op, self.M, self.fmt = op, M, fmt
        self.snap = op_snapshot(op)


def op_arrays(op):
    out = []
    for term in op.terms:
        for A in term:
            out.append(A if isinstance(A, np.ndarray) else A.data)
    return out


def op_snapshot(op):
    return ([(a, a.shape, a.tobytes()) for a in op_arrays(op)], len(op.terms))


def op_unchanged(st):
    snap, n = st.snap
    return len(st.op.terms) == n and K.unchanged(snap)


def op_menu(st, maxsize):
    shp_out, shp_in = st.op.shape
    d = len(shp_in)
    evs = [["T"], ["neg"], ["add"], ["sub"], ["mul", 2], ["mul", 1]]
    if d <= 2 and int(np.prod(shp_in)) * 2 <= maxsize and int(np.prod(shp_out)) * 2 <= maxsize:
        evs += [["kron", [2, 2]], ["kron", [1, 2]]]
    if shp_out == shp_in and st.fmt != "eye":
        evs.append(["slice", [[0, 1] if n == 1 else [1, n] for n in shp_in]])
        evs.append(["slice", [[0, max(1, n - 1)] for n in shp_in]])
    return evs


def partner_fmt(fmt):
    return "csr" if fmt in ("csr", "eye", "eyecsr") else "dense"


def observe(st, seed, light=False):
    """all observers of one operator state"""
    t = K.T()
    op, M = st.op, st.M
    probs = []
    shp_out, shp_in = tuple(op.shape[0]), tuple(op.shape[1])
    if M.shape != (int(np.prod(shp_out)), int(np.prod(shp_in))) or op.ndim != len(shp_in):
        return [("op:shape", "shape attribute %r does not match the dense operator %r" % (op.shape, M.shape))]
    if op.R != len(op.terms):
        probs.append(("op:R", "R=%r but %d terms" % (op.R, len(op.terms))))
    if st.fmt != "dense":
        for f in ("csr", "csc"):
            try:
                A = op.asmatrix(format=f)
                Ad = np.asarray(A.todense())
                if A.format != f:
                    probs.append(("op:asmatrix:format", "asmatrix(format=%r) returned format %r" % (f, A.format)))
                if Ad.shape != M.shape or not np.array_equal(Ad, M):
                    probs.append(("op:asmatrix:value", "asmatrix() differs from the sum of Kronecker products"))
            except Exception as e:
                probs.append(("op:asmatrix:" + K.exc_key(e), "asmatrix(format=%r) raised %r" % (f, e)))
            if light:
                break
    # the linear map on every unit tensor (ndarray input), through apply and through @
    try:
        cols = []
        for idx, E in R.unit_tensors(shp_in):
            Y = op.apply(E) if (sum(idx) % 2 == 0) else op @ E
            Y = np.asarray(t.asarray(Y), dtype=float)
            if Y.shape != shp_out:
                probs.append(("op:apply:shape", "apply(unit tensor) has shape %r, expected %r" % (Y.shape, shp_out)))
                break
            cols.append(Y.ravel())
        else:
            if cols and not np.array_equal(np.array(cols).T, M):
                probs.append(("op:apply:value", "apply on the unit tensors does not reproduce the dense operator"))
    except Exception as e:
        probs.append(("op:apply:" + K.exc_key(e), "apply(ndarray) raised %r" % (e,)))
    # one tensor of every format
    for kind in (("C", "T") if light else ("C", "T", "S", "P")):
        spec = {"kind": kind, "shape": list(shp_in), "rank": 2 if kind in "CT" else 1, "var": 0, "salt": "opX"}
        try:
            X = K.make_tensor(spec, seed)
        except Exception:
            continue            # constructor failures are reported by part A
        xs = K.snapshot(X)
        xd = K.dense_of_spec_object(X)
        want = (M @ xd.ravel()).reshape(shp_out)
        try:
            Y = op @ X if kind in "CS" else op.apply(X)
            got = np.asarray(t.asarray(Y), dtype=float)
            if tuple(Y.shape) != shp_out or got.shape != shp_out:
                probs.append(("op:apply:%s:shape" % kind, "apply(%s) has shape %r, expected %r" % (K.KNAME[kind], got.shape, shp_out)))
            elif not np.array_equal(got, want):
                probs.append(("op:apply:%s:value" % kind, "asarray(A.apply(X)) != A_dense @ vec(X) for a %s" % K.KNAME[kind]))
        except Exception as e:
            probs.append(("op:apply:" + K.exc_key(e), "apply(%s of shape %r) raised %r" % (K.KNAME[kind], shp_in, e)))
        if not K.unchanged(xs):
            probs.append(("op:apply:%s:mutation" % kind, "apply changed its argument"))
    if not op_unchanged(st):
        probs.append(("op:observe:mutation", "asmatrix/apply changed the operator"))
    seen, out = set(), []
    for k, m in probs:
        if k not in seen:
            seen.add(k)
            out.append((k, m))
    return out


def op_step(st, ev, seed, salt):
    """returns (problems, child or None)"""
    t = K.T()
    op, M = st.op, st.M
    shp_out, shp_in = tuple(op.shape[0]), tuple(op.shape[1])
    pf = partner_fmt(st.fmt)
    other = None
    try:
        if ev[0] == "T":
            res, want = op.T, M.T
        elif ev[0] == "neg":
            res, want = -op, -M
        elif ev[0] in ("add", "sub"):
            B, MB = make_op({"fmt": pf, "shapes": [[m, n] for m, n in zip(shp_out, shp_in)], "R": 1,
                             "salt": "p%s" % salt}, seed)
            other = OpState(B, MB, pf)
            res, want = (op + B, M + MB) if ev[0] == "add" else (op - B, M - MB)
        elif ev[0] == "mul":
            B, MB = make_op({"fmt": pf, "shapes": [[n, ev[1]] for n in shp_in], "R": 2 if ev[1] == 1 else 1,
                             "salt": "m%s" % salt}, seed)
            other = OpState(B, MB, pf)
            res, want = (op @ B if ev[1] == 2 else op * B), M @ MB
        elif ev[0] == "kron":
            B, MB = make_op({"fmt": pf, "shapes": [ev[1]], "R": 1, "salt": "k%s" % salt}, seed)
            other = OpState(B, MB, pf)
            res, want = op.kron(B), np.kron(M, MB)
        elif ev[0] == "slice":
            lim = [tuple(l) for l in ev[1]]
            res = op.slice(lim)
            # rows / columns of the raveled operator that belong to the index box
            pos = np.arange(M.shape[0]).reshape(shp_out)[tuple(slice(l[0], l[1]) for l in lim)].ravel()
            want = M[np.ix_(pos, pos)]
        else:
            raise ValueError("unknown event %r" % (ev,))
    except Exception as e:
        if isinstance(e, ValueError) and str(e).startswith("unknown event"):
            raise
        return [(K.exc_key(e), "%s on a CanonicalOperator(%s factors, %s -> %s) raised %r"
                 % (op_describe(ev), st.fmt, shp_in, shp_out, e))], None
    probs = []
    if not isinstance(res, t.CanonicalOperator):
        return [("op:%s:type" % ev[0], "%s returned %s" % (op_describe(ev), type(res).__name__))], None
    if not op_unchanged(st):
        probs.append(("op:%s:mutation" % ev[0], "%s changed its operand" % op_describe(ev)))
    if other is not None and not op_unchanged(other):
        probs.append(("op:%s:mutation-rhs" % ev[0], "%s changed its right operand" % op_describe(ev)))
    # descendants of eye() keep their tag: their factors may still be DIA matrices (no slice events)
    child = OpState(res, np.asarray(want, dtype=float), st.fmt)
    return probs, child


def op_describe(ev):
    return {"T": "A.T", "neg": "-A", "add": "A + B", "sub": "A - B", "mul": "A @ B", "kron": "A.kron(B)",
            "slice": "A.slice(%s)" % (ev[1] if len(ev) > 1 else "")}[ev[0]]


def op_walk(st, depth, seed, path, cnt, maxsize, light):
    cnt["states"] += 1
    probs = observe(st, seed, light=light and bool(path))
    cnt["transitions"] += 1
    for key, msg in probs:
        _note(cnt, key, path, msg)
    if probs or depth == 0:
        cnt["traces"] += 1
        return
    for ev in op_menu(st, maxsize):
        ps, child = op_step(st, ev, seed, len(path))
        cnt["transitions"] += 1
        cnt["fams"][ev[0]] = cnt["fams"].get(ev[0], 0) + 1
        p2 = path + [ev]
        for key, msg in ps:
            _note(cnt, key, p2, msg)
        if child is None or ps:
            cnt["traces"] += 1
            continue
        if len(set(e[0] for e in p2)) >= 2:
            cnt["nontrivial"] += 1
        cnt["outcomes"].add((ev[0], child.M.shape, int(child.op.R)))
        op_walk(child, depth - 1, seed, p2, cnt, maxsize, light)


def _note(cnt, key, path, msg):
    rec = cnt["problems"].get(key)
    if rec is None:
        cnt["problems"][key] = [1, (list(path), msg)]
    else:
        rec[0] += 1
        if len(path) < len(rec[1][0]):
            rec[1] = (list(path), msg)


def new_counters():
    return {"states": 0, "transitions": 0, "traces": 0, "fams": {}, "nontrivial": 0, "outcomes": set(), "problems": {}}


def op_specs(tier):
    specs = []
    shapes1 = [[[2, 2]], [[2, 3]], [[1, 2]], [[3, 1]]]
    shapes2 = [[[2, 2], [3, 3]], [[2, 3], [2, 2]], [[1, 2], [3, 2]], [[2, 2], [1, 1]]]
    shapes3 = [[[2, 2], [1, 1], [2, 2]], [[2, 1], [2, 3], [1, 2]]]
    for fmt in ("csr", "dense"):
        for shp in shapes1 + shapes2 + (shapes3 if tier == "thorough" else shapes3[:1]):
            for Rk in (1, 2):
                specs.append({"fmt": fmt, "shapes": shp, "R": Rk, "salt": 0})
    for fmt in ("eye", "eyecsr"):
        for ns in ([2], [2, 3], [1, 2], [2, 1, 2]):
            specs.append({"fmt": fmt, "shapes": [[n, n] for n in ns], "R": 1, "salt": 0})
    return specs


def op_replay(spec, path, seed):
    op, M = make_op(spec, seed)
    st = OpState(op, M, spec["fmt"])
    for i, ev in enumerate(path):
        probs = observe(st, seed)
        if probs:
            return [(k, "after %s: %s" % ([op_describe(e) for e in path[:i]], m)) for k, m in probs]
        probs, child = op_step(st, ev, seed, i)
        if probs:
            return [(k, "after %s: %s" % ([op_describe(e) for e in path[:i]], m)) for k, m in probs]
        if child is None:
            return []
        st = child
    probs = observe(st, seed)
    return [(k, "after %s: %s" % ([op_describe(e) for e in path], m)) for k, m in probs]


def op_task(args):
    spec, depth, seed, maxsize, light = args
    cnt = new_counters()
    try:
        op, M = make_op(spec, seed)
    except Exception as e:
        cnt["problems"]["op:ctor:" + K.exc_key(e)] = [1, ([], "constructing the operator raised %r" % (e,))]
        return spec, cnt
    op_walk(OpState(op, M, spec["fmt"]), depth, seed, [], cnt, maxsize, light)
    return spec, cnt
