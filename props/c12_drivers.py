"""C12 part (iii): the step drivers and Newton's method as state machines, plus end-to-end runs.

constant       _constant_step_method with a scripted stepper, every (t0, t_end, tau) of a grid
adaptive       _adaptive_step_method with a scripted stepper whose scaled error follows every sequence over
               {0, 0.5, 1, 1+eps, 10, 1e6, NoConvergenceError}^k
newton         newton with a scripted residual, every sequence over {0, .5, 1, 1+eps, 1e3, nan}^k (x target)
adaptive-real  _adaptive_step_method around the real dirk_step / rosenbrock_step with a logging wrapper
e2e            the 12 public methods end to end (constant steps; adaptive where offered)
"""
import contextlib
import io
import itertools
import math

import numpy as np

from mc import par
from ref import rk as R

# ------------------------------------------------------------------------------------------------
# constant-step driver
# ------------------------------------------------------------------------------------------------

CONST_T0 = (0.0, 0.5, -1.0, 1000.0)
CONST_SPAN = (0.0, 0.1, 0.3, 0.5, 0.7, 1.0, 1.1, 2.0)
CONST_TAU = (0.1, 0.2, 0.25, 0.3, 0.5, 1.0, 3.0)


class _Abort(Exception):
    pass


def constant_problems(case, stats=None):
    from pyiga import solvers as S
    t0, t_end, tau, fail_at = case["t0"], case["t_end"], case["tau"], case.get("fail_at")
    calls = []
    sent = ("M", "F", "J")

    def stepper(M, F, J, x, tau_, data, Fx=None):
        j = len(calls)
        if j > 100000:
            raise _Abort()
        calls.append({"x": float(np.asarray(x).ravel()[0]), "tau": tau_, "Fx": Fx, "mfj": (M, F, J)})
        if fail_at is not None and j == fail_at:
            raise S.NoConvergenceError("newton", 100, x)
        return np.array([float(j + 1)]), ("F", j + 1)

    try:
        method = S._constant_step_method(stepper)
        with contextlib.redirect_stdout(io.StringIO()):
            ret = method(sent[0], sent[1], sent[2], np.array([0.0]), tau, t_end, t0=t0)
        times, sols = ret
        times = [float(t) for t in times]
    except Exception as e:
        return [("constant:exception:%s" % type(e).__name__, "constant-step driver raised %r" % (e,))]
    probs = []
    if len(times) != len(sols):
        return [("constant:one-state-per-time", "%d times, %d states" % (len(times), len(sols)))]
    N = len(times) - 1
    if stats is not None:
        stats.update(calls=len(calls), steps=N)
    for k, t in enumerate(times):
        ex = float(R.fr(t0) + k * R.fr(tau))
        if abs(t - ex) > 1e-12 * max(1.0, abs(t0) + abs(k * tau)):
            probs.append(("constant:times", "times[%d] = %r, t0 + %d*tau = %r" % (k, t, k, ex)))
            break
    if [float(np.asarray(s).ravel()[0]) for s in sols] != [float(k) for k in range(N + 1)]:
        probs.append(("constant:state-chain", "states are not the successive stepper outputs: %s"
                      % [float(np.asarray(s).ravel()[0]) for s in sols][:6]))
    for j, c in enumerate(calls):
        if c["tau"] != tau:
            probs.append(("constant:tau", "stepper call %d got tau=%r instead of %r" % (j, c["tau"], tau)))
            break
        if c["x"] != float(j) or c["mfj"] != sent:
            probs.append(("constant:state-chain", "stepper call %d got state %r / arguments %r" % (j, c["x"], c["mfj"])))
            break
        if c["Fx"] != (None if j == 0 else ("F", j)):
            probs.append(("constant:Fx-threading", "stepper call %d got Fx=%r" % (j, c["Fx"])))
            break
    failed = fail_at is not None and fail_at < len(calls)
    if failed:
        if N != fail_at:
            probs.append(("constant:partial-result", "Newton failure in step %d, %d steps returned" % (fail_at, N)))
    else:
        if times[-1] < t_end - 1e-9 * tau:
            probs.append(("constant:end-not-reached", "last time %r < t_end %r" % (times[-1], t_end)))
        if N >= 1 and times[-2] >= t_end + 1e-9 * tau:
            probs.append(("constant:superfluous-step", "time %r before the last one is already beyond t_end %r"
                          % (times[-2], t_end)))
    return probs


def constant_cases(tier):
    cases = []
    for t0 in CONST_T0:
        for span in CONST_SPAN:
            for tau in CONST_TAU:
                for fail_at in (None, 0, 1):
                    cases.append({"part": "constant", "t0": t0, "t_end": t0 + span, "tau": tau, "fail_at": fail_at})
    return cases


# ------------------------------------------------------------------------------------------------
# adaptive driver, scripted stepper
# ------------------------------------------------------------------------------------------------

ALPHABET = ("0", "0.5", "1", "1+", "10", "1e6", "N")
RATIO_SCALAR = {"0": 0.0, "0.5": 0.5, "1": 1.0, "1+": 1.0 + 1e-12, "10": 10.0, "1e6": 1e6}
RATIO_VECTOR = {"0": 0.0, "0.5": 0.5, "1": 1.0 - 1e-9, "1+": 1.0 + 1e-9, "10": 10.0, "1e6": 1e6}
TAIL = "0"            # after the script the error estimate vanishes (a constant non-zero ratio with a small
                      # safety factor would shrink the step geometrically for ever -- a harness artefact)
ADAPT_GRIDS = ((0.0, 1.0, 0.1), (0.0, 1.0, 2.0), (-1.0, 0.5, 0.25))
FAC_MIN, FAC_MAX = 0.2, 5.0        # min(5.0, max(0.2, fac)) in _adaptive_step_method


def adaptive_run(stepper_factory, err_order, x0, tau0, t_end, tol, t0, step_factor):
    """run the real controller; -> (times, solutions) or raises"""
    from pyiga import solvers as S
    method = S._adaptive_step_method(stepper_factory, err_order, None)
    with contextlib.redirect_stdout(io.StringIO()):
        return method("M", "F", "J", x0, tau0, t_end, tol, t0=t0, step_factor=step_factor)


def controller_problems(calls, times, sols, t0, t_end, x0_id, step_factor, pre="adaptive"):
    """calls: list of dict(id, tau, x_id (id of the state handed in), Fx_ok, kind='N' or 'r', passes (bool or
    None=borderline)) in call order; sols identified by ids.  Demands only what the property states."""
    probs = []
    if len(times) != len(sols):
        return [(pre + ":one-state-per-time", "%d times, %d states" % (len(times), len(sols)))]
    if times[0] != t0 or sols[0] != x0_id:
        probs.append((pre + ":initial", "first entry is (%r, state %r)" % (times[0], sols[0])))
    accepted_ids = list(sols[1:])
    by_id = {c["id"]: c for c in calls}
    if len(set(accepted_ids)) != len(accepted_ids) or any(i not in by_id for i in accepted_ids):
        return probs + [(pre + ":states", "returned states are not outputs of distinct stepper calls: %s" % accepted_ids[:8])]
    acc = set(accepted_ids)
    if [c["id"] for c in calls if c["id"] in acc] != accepted_ids:
        probs.append((pre + ":states", "accepted states are not returned in call order"))
    last_acc = x0_id
    for j, c in enumerate(calls):
        if c["x_id"] != last_acc:
            probs.append((pre + ":state-threading", "call %d started from state %r, last accepted state is %r"
                          % (j, c["x_id"], last_acc)))
            break
        if c.get("Fx_ok") is False:
            probs.append((pre + ":Fx-threading", "call %d got an Fx that is not the one returned with its start state" % j))
            break
        is_acc = c["id"] in acc
        if c["kind"] == "N":
            if is_acc:
                probs.append((pre + ":accepted-failed-newton", "call %d raised NoConvergenceError but its state was kept" % j))
        elif c["passes"] is True and not is_acc:
            probs.append((pre + ":rejected-passing-step", "call %d: scaled error %r <= 1 but the step was rejected" % (j, c.get("r"))))
        elif c["passes"] is False and is_acc:
            probs.append((pre + ":accepted-failing-step", "call %d: scaled error %r > 1 but the step was accepted" % (j, c.get("r"))))
        if is_acc:
            last_acc = c["id"]
        if j + 1 < len(calls):
            fac = calls[j + 1]["tau"] / c["tau"]
            if not (FAC_MIN * (1 - 1e-12) <= fac <= FAC_MAX * (1 + 1e-12)):
                probs.append((pre + ":step-factor-bounds", "after call %d (%s) the step changed by the factor %r, outside "
                              "[%g, %g]" % (j, c["kind"] if c["kind"] == "N" else "r=%r" % c.get("r"), fac, FAC_MIN, FAC_MAX)))
            if c["kind"] == "N" and not fac < 1:
                probs.append((pre + ":newton-failure-no-shrink", "after NoConvergenceError in call %d the step changed by "
                              "the factor %r (code: halved)" % (j, fac)))
            if c["kind"] != "N" and c["passes"] is False and step_factor <= 1 and not fac < 1:
                probs.append((pre + ":reject-no-shrink", "rejected call %d (r=%r) is retried with the factor %r" % (j, c.get("r"), fac)))
    # times
    taus = [by_id[i]["tau"] for i in accepted_ids]
    for k in range(len(taus)):
        if not times[k + 1] > times[k]:
            probs.append((pre + ":times-not-increasing", "times[%d]=%r, times[%d]=%r" % (k, times[k], k + 1, times[k + 1])))
            break
        if times[k + 1] != times[k] + taus[k]:
            probs.append((pre + ":times", "times[%d]-times[%d] is not the accepted step %r" % (k + 1, k, taus[k])))
            break
    if not times[-1] >= t_end:
        probs.append((pre + ":end-not-reached", "last time %r < t_end %r" % (times[-1], t_end)))
    if len(times) >= 2 and not times[-2] < t_end:
        probs.append((pre + ":superfluous-step", "a step was taken from t=%r >= t_end=%r" % (times[-2], t_end)))
    return probs


def adaptive_problems(case, stats=None):
    from pyiga import solvers as S
    script = case["script"]
    t0, t_end, tau0 = case["grid"]
    vector = case["mode"] == "vector"
    tol = 1e-3 if vector else 2.0 ** -10
    ratio = RATIO_VECTOR if vector else RATIO_SCALAR
    sf = case["step_factor"]
    calls = []

    def stepper(M, F, J, x, tau, data, Fx=None):
        j = len(calls)
        if j >= 5000:
            raise _Abort()
        code = script[j] if j < len(script) else TAIL
        x = np.asarray(x, dtype=float)
        xid = int(round(x[0]))
        c = {"id": j + 1, "tau": float(tau), "x_id": xid, "Fx_ok": Fx == (None if xid == 0 else ("F", xid)),
             "kind": "N" if code == "N" else "r", "code": code}
        calls.append(c)
        if code == "N":
            raise S.NoConvergenceError("newton", 100, x)
        rho = ratio[code]
        c["r"] = rho
        c["passes"] = rho <= 1
        d = tol + tol * abs(x)
        if vector:
            xnew = np.array([float(j + 1), -0.5 * (j + 1), 0.25 * (j + 1) - 2.0])
            xhat = xnew + rho * d * np.array([1.0, -1.0, 1.0])
        else:
            xnew = np.array([float(j + 1)])
            xhat = xnew + rho * d
        return xnew, xhat, ("F", j + 1)

    x0 = np.array([0.0, 3.0, -1.0]) if vector else np.array([0.0])
    try:
        times, sols = adaptive_run(stepper, case["err_order"], x0, tau0, t_end, tol, t0, sf)
    except _Abort:
        return [("adaptive:no-termination", "more than 5000 stepper calls (script %s)" % script)]
    except Exception as e:
        return [("adaptive:exception:%s" % type(e).__name__, "adaptive driver raised %r" % (e,))]
    times = [float(t) for t in times]
    ids = [int(round(float(np.asarray(s).ravel()[0]))) for s in sols]
    if stats is not None:
        stats.update(calls=len(calls), steps=len(times) - 1,
                     sig="".join("A" if c["id"] in set(ids) else ("n" if c["kind"] == "N" else "R") for c in calls[:len(script)]))
    return controller_problems(calls, times, ids, t0, t_end, 0, sf)


def adaptive_cases(tier):
    quick = tier == "quick"
    depth = 3 if quick else 4
    cases = []
    for k in range(depth + 1):
        for script in itertools.product(ALPHABET, repeat=k):
            for eo in (1, 2, 3, 4):
                for sf in ((0.9,) if quick else (0.9, 0.5)):
                    for gi, grid in enumerate(ADAPT_GRIDS):
                        if quick and gi == 2 and k == depth:
                            continue
                        cases.append({"part": "adaptive", "script": list(script), "err_order": eo, "step_factor": sf,
                                      "grid": list(grid), "mode": "scalar"})
            if k <= 3:
                cases.append({"part": "adaptive", "script": list(script), "err_order": 2, "step_factor": 0.9,
                              "grid": list(ADAPT_GRIDS[0]), "mode": "vector"})
    return cases


# ------------------------------------------------------------------------------------------------
# newton, scripted residual
# ------------------------------------------------------------------------------------------------

N_ALPHABET = ("0", "half", "eq", "above", "big", "nan")
N_FACTOR = {"0": 0.0, "half": 0.5, "eq": 1.0, "above": 1.0 + 2.0 ** -40, "big": 1e3, "nan": float("nan")}


def newton_problems(case, stats=None):
    from pyiga import solvers as S
    script, maxiter, fj = case["script"], case["maxiter"], case["freeze_jac"]
    if case["tolmode"] == "abs":
        atol, rtol, unit = 1.0, 2.0 ** -20, 1.0
    else:
        atol, rtol, unit = 2.0 ** -30, 0.5, 4.0
    evals = []

    def F(x):
        q = len(evals)
        code = script[q] if q < len(script) else "big"
        nrm = N_FACTOR[code] * unit
        evals.append((np.array(x, dtype=float, copy=True), nrm))
        return np.array([nrm])

    def J(x):
        return np.eye(1)

    raised = ret = None
    try:
        ret = S.newton(F, J, np.array([0.25]), atol=atol, rtol=rtol, maxiter=maxiter, freeze_jac=fj)
    except S.NoConvergenceError:
        raised = True
    except Exception as e:
        return [("newton:exception:%s" % type(e).__name__, "newton raised %r" % (e,))]
    if not evals:
        return [("newton:no-evaluation", "F was never evaluated")]
    r0 = evals[0][1]
    target = atol if not (rtol * r0 > atol) else rtol * r0          # max(atol, rtol*|F(x0)|) as documented
    if stats is not None:
        stats.update(evals=len(evals), result="raise" if raised else "return@%d" % (len(evals) - 1))
    probs = []
    if raised:
        conv = [q for q in range(min(maxiter, len(evals))) if evals[q][1] < target]
        if conv:
            probs.append(("newton:raised-although-converged", "iterate %d (within maxiter=%d) has residual %r < target %r "
                          "but NoConvergenceError was raised" % (conv[0], maxiter, evals[conv[0]][1], target)))
    else:
        x = np.asarray(ret, dtype=float).ravel()
        if not np.array_equal(x, evals[-1][0].ravel(), equal_nan=True):
            probs.append(("newton:returned-unevaluated-point", "returned %r, last evaluation of F at %r" % (x, evals[-1][0])))
        elif not evals[-1][1] <= target:
            probs.append(("newton:returned-unconverged", "returned a point with residual %r, tolerance max(atol, "
                          "rtol*|F(x0)|) = %r" % (evals[-1][1], target)))
    return probs


def newton_cases(tier):
    depth = 3 if tier == "quick" else 4
    cases = []
    for k in range(1, depth + 1):
        for script in itertools.product(N_ALPHABET, repeat=k):
            for maxiter in range(1, k + 1):
                for mode in ("abs", "rel"):
                    for fj in (1, 2):
                        cases.append({"part": "newton", "script": list(script), "maxiter": maxiter, "tolmode": mode,
                                      "freeze_jac": fj})
    return cases


# ------------------------------------------------------------------------------------------------
# adaptive driver around the real steppers (logging wrapper)
# ------------------------------------------------------------------------------------------------

def _real_stepper(method):
    """(stepper(M,F,J,x,tau,data,Fx), err_order) calling the real step function with the shipped tableau"""
    from pyiga import solvers as S
    from props import c12
    tb = c12.shipped(method)
    if tb["kind"] == "dirk":
        T = tb["T"]
        return (lambda M, F, J, x, tau, data, Fx=None: S.dirk_step(T, M, F, J, x, tau, data, Fx=Fx)), tb["err_order"]
    al, G, b, bh = tb["alpha"], tb["Gamma"], tb["b"], tb["b_hat"]
    return (lambda M, F, J, x, tau, data, Fx=None: S.rosenbrock_step(al, G, b, bh, M, F, J, x, tau, data, Fx=Fx)), tb["err_order"]


def adaptive_real_problems(case, stats=None):
    from pyiga import solvers as S
    from props import c12
    P = c12.build_problem(case)
    step, eo = _real_stepper(case["method"])
    tol, t_end, tau0 = case["tol"], case["t_end"], case["tau0"]
    x0 = P["x"].copy()
    calls, states = [], [x0]      # the very objects handed to / returned by the controller (identity, not value:
                                  # a step may legitimately return a state equal to an earlier one)

    def find_state(x):
        for i in range(len(states) - 1, -1, -1):
            if states[i] is x:
                return i
        return -1

    def stepper(M, F, J, x, tau, data, Fx=None):
        if len(calls) >= 20000:
            raise _Abort()
        c = {"id": None, "tau": float(tau), "x_id": find_state(x), "kind": "r"}
        calls.append(c)
        try:
            xnew, xhat, Fxn = step(M, F, J, x, tau, data, Fx=Fx)
        except S.NoConvergenceError:
            c["kind"] = "N"
            c["id"] = -len(calls)
            raise
        states.append(xnew)
        c["id"] = len(states) - 1
        r = R.scaled_error(x, xnew, xhat, tol)
        c["r"] = r
        c["passes"] = None if abs(r - 1) < 1e-9 else (r <= 1)
        return xnew, xhat, Fxn

    try:
        method = S._adaptive_step_method(stepper, eo, None)
        with contextlib.redirect_stdout(io.StringIO()):
            times, sols = method(P["M"], P["F"], P["J"], x0, tau0, t_end, tol)
    except _Abort:
        return [("adaptive-real:no-termination", "more than 20000 steps")]
    except Exception as e:
        return [("adaptive-real:exception:%s" % type(e).__name__, "adaptive driver raised %r" % (e,))]
    times = [float(t) for t in times]
    ids = []
    for s in sols:
        ids.append(find_state(s))
    if stats is not None:
        stats.update(calls=len(calls), steps=len(times) - 1, rejected=sum(1 for c in calls if c["id"] not in set(ids)))
    return controller_problems(calls, times, ids, 0.0, t_end, 0, 0.9, pre="adaptive-real")


def adaptive_real_cases(tier, seed):
    from props import c12
    quick = tier == "quick"
    cases = []
    emb = [m for m in c12.DIRK + c12.ROS if c12.DOC_ORDER[m][1] is not None]
    for m in emb:
        for Mk in (("dense",) if quick else ("eye", "dense", "sparse")):
            for tol in (1e-2, 1e-4):
                for tau0 in (0.1, 2.0):
                    cases.append({"part": "adaptive-real", "method": m, "M": Mk, "L": "osc", "c": "int", "n": 3 if not quick else 2,
                                  "x": 0, "seed": seed, "tol": tol, "tau0": tau0, "t_end": 1.0})
                    cases.append({"part": "adaptive-real", "method": m, "M": Mk, "nl": "vdp", "n": 2, "x0": [2.0, 0.0],
                                  "seed": seed, "tol": tol, "tau0": tau0, "t_end": 1.0})
                    if not quick:
                        cases.append({"part": "adaptive-real", "method": m, "M": Mk, "L": "stiff", "c": "int", "n": 2,
                                      "x": 0, "seed": seed, "tol": tol, "tau0": tau0, "t_end": 1.0})
    return cases


# ------------------------------------------------------------------------------------------------
# the public methods end to end
# ------------------------------------------------------------------------------------------------

def e2e_problems(case, stats=None):
    from pyiga import solvers as S
    from props import c12
    name = case["method"]
    f = getattr(S, name)
    tb = c12.shipped(name)
    P = c12.build_problem(case)
    Md, x0 = P["Md"], P["x"].copy()
    tau, t_end, tol = case["tau"], case["t_end"], case.get("tol")
    adaptive_api = c12.DOC_ORDER[name][1] is not None
    pre = "e2e:%s" % case["mode"]
    try:
        with contextlib.redirect_stdout(io.StringIO()):
            if adaptive_api:
                times, sols = f(P["M"], P["F"], P["J"], x0.copy(), tau, t_end, tol)
            else:
                times, sols = f(P["M"], P["F"], P["J"], x0.copy(), tau, t_end)
    except Exception as e:
        return [("%s:%s:exception:%s" % (pre, name, type(e).__name__), "%s raised %r" % (name, e))]
    times = [float(t) for t in times]
    sols = [np.asarray(s, float).ravel() for s in sols]
    probs = []
    if len(times) != len(sols):
        return [(pre + ":one-state-per-time", "%d times, %d states" % (len(times), len(sols)))]
    if times[0] != 0.0 or not np.array_equal(sols[0], x0):
        probs.append((pre + ":initial", "first entry is not (t0, x0)"))
    N = len(times) - 1
    if stats is not None:
        stats.update(steps=N, evals=len(P["F"].args))
    if any(not times[k + 1] > times[k] for k in range(N)):
        probs.append((pre + ":times-not-increasing", "times %s" % times[:6]))
    if case["mode"] == "const":
        for k, t in enumerate(times):
            if abs(t - k * tau) > 1e-12 * max(1.0, k * tau):
                probs.append((pre + ":times", "times[%d] = %r, k*tau = %r" % (k, t, k * tau)))
                break
        if times[-1] < t_end - 1e-9 * tau:
            probs.append((pre + ":end-not-reached", "last time %r < t_end %r" % (times[-1], t_end)))
        taus = [tau] * N
    else:
        if not times[-1] >= t_end:
            probs.append((pre + ":end-not-reached", "last time %r < t_end %r" % (times[-1], t_end)))
        if N >= 1 and not times[-2] < t_end:
            probs.append((pre + ":superfluous-step", "a step was taken from t=%r >= t_end" % times[-2]))
        taus = [times[k + 1] - times[k] for k in range(N)]
        for k in range(N - 1):
            if taus[k + 1] > FAC_MAX * taus[k] * (1 + 1e-9):
                probs.append((pre + ":step-factor-bounds", "consecutive accepted steps %r -> %r grow by more than %g"
                              % (taus[k], taus[k + 1], FAC_MAX)))
                break
    if probs:
        return probs
    # every step against the scheme
    if tb["kind"] == "ros":
        for k in range(N):
            xn, xh = R.ros_step_float(tb["alpha"], tb["Gamma"], tb["b"], tb["b_hat"], Md, P["f"],
                                      lambda y: np.asarray(c12._nl_J(P["nl"], list(y), c12._KF), float) if P["nl"]
                                      else P["linear"][0], sols[k], taus[k])
            scale = max(1.0, c12._inf(xn))
            # adaptive: the step length is recovered from rounded times (relative error ~ 1e-16*t/tau)
            if c12._inf(xn - sols[k + 1]) > (1e-9 if case["mode"] == "const" else 1e-8) * scale:
                probs.append((pre + ":step", "%s: state %d deviates from one %s step from state %d by %.3e"
                              % (name, k + 1, name, k, c12._inf(xn - sols[k + 1]))))
                break
            if case["mode"] == "adaptive":
                r = R.scaled_error(sols[k], xn, xh, tol)
                if r > 1 + 1e-6:
                    probs.append((pre + ":accepted-failing-step", "%s: accepted step %d has scaled error %r > 1" % (name, k, r)))
                    break
    elif case["mode"] == "const":
        # DIRK, constant steps: chain the replay of the recorded evaluations through all steps
        idx = 0
        sa = bool(np.array_equal(tb["T"][tb["T"].shape[1]], tb["T"][tb["T"].shape[1] - 1]))
        Tm = tb["T"][:tb["T"].shape[1] + 1]
        for k in range(N):
            Fx_given = P["f"](sols[k]) if (k > 0 and sa) else None
            ys, Fys, info, bad, idx = c12.dirk_replay(Tm, Md, sols[k], tau, P["F"], Fx_given, start=idx)
            if bad:
                probs.append(("%s:%s" % (pre, bad[0]), "%s step %d: %s" % (name, k, bad[1])))
                break
            up = c12.update_problems(pre, Tm, Md, sols[k], tau, ys, Fys, info, sols[k + 1], None)
            if up:
                probs += [(kk, "%s step %d: %s" % (name, k, mm)) for kk, mm in up]
                break
        if not probs and idx != len(P["F"].args):
            probs.append((pre + ":unexplained-evaluations", "%s: %d of %d evaluations of F are not explained by the stage "
                          "iterations" % (name, len(P["F"].args) - idx, len(P["F"].args))))
    return probs


def e2e_cases(tier, seed):
    from props import c12
    cases = []
    for m in c12.DIRK + c12.ROS:
        for Mk in ("none", "dense", "sparse"):
            if Mk == "none" and m in c12.ROS:
                continue
            for prob in ({"L": "osc", "c": "int", "n": 3, "x": 0}, {"L": "stiff", "c": "int", "n": 2, "x": 0},
                         {"nl": "vdp", "n": 2, "x0": [2.0, 0.0]}):
                for tau in (0.125, 0.3):
                    cases.append(dict(prob, part="e2e", mode="const", method=m, M=Mk, seed=seed, tau=tau, t_end=1.0, tol=None))
                if c12.DOC_ORDER[m][1] is not None:
                    for tol in (1e-2, 1e-4):
                        cases.append(dict(prob, part="e2e", mode="adaptive", method=m, M=Mk, seed=seed, tau=0.1, t_end=1.0, tol=tol))
    return cases


# ------------------------------------------------------------------------------------------------
# oracle self test: empirical convergence order vs. the algebraic conditions (informational)
# ------------------------------------------------------------------------------------------------

def empirical_selftest():
    """[(method, weights, attained order by the algebraic conditions, observed order)] on a smooth non-linear
    2x2 system; Rosenbrock steps by the real rosenbrock_step, DIRK steps by the reference integrator."""
    from pyiga import solvers as S
    from props import c12
    F = lambda y: np.array([y[1] * (1 + 0.5 * y[0]), (1 - y[0] ** 2) * y[1] - y[0] + 0.3 * y[1] ** 2])
    J = lambda y: np.array([[0.5 * y[1], 1 + 0.5 * y[0]], [-2 * y[0] * y[1] - 1, (1 - y[0] ** 2) + 0.6 * y[1]]])
    x0, T, M = np.array([1.0, 0.5]), 1.0, np.eye(2)
    rod = c12.shipped("rodasp")
    x = x0.copy()
    for _ in range(4096):
        x = R.ros_step_float(rod["alpha"], rod["Gamma"], rod["b"], None, M, F, J, x, T / 4096)[0]
    exact = x
    rows = []
    for m in c12.DIRK + c12.ROS:
        tb = c12.shipped(m)
        for lab, res in c12._weights(tb):
            alg = R.attained_order(res, c12.TOL_ORDER)
            if tb["kind"] == "ros":
                w = tb["b"] if lab == "main" else tb["b_hat"]
                step = lambda x, tau, w=w: np.asarray(S.rosenbrock_step(tb["alpha"], tb["Gamma"], w, None, M, F, J, x, tau, {})[0])
            else:
                A, b, bh = R.split_dirk(tb["T"])
                TT = np.vstack([A, b if lab == "main" else bh])
                step = lambda x, tau, TT=TT: R.dirk_step_float(TT, M, F, J, x, tau)[0]
            obs, errs = R.empirical_order(step, x0, T, exact, n0=16, levels=3)
            rows.append((m, lab, alg, round(obs[-1], 2)))
    return rows


# ------------------------------------------------------------------------------------------------

PARTS = {"constant": constant_problems, "adaptive": adaptive_problems, "newton": newton_problems,
         "adaptive-real": adaptive_real_problems, "e2e": e2e_problems}


def check_case(case):
    return PARTS[case["part"]](case)


def _worker(case):
    st = {}
    return case, PARTS[case["part"]](case, st), st


def run(ctx, out):
    groups = [("constant", constant_cases(ctx.tier)), ("adaptive", adaptive_cases(ctx.tier)),
              ("newton", newton_cases(ctx.tier)), ("adaptive-real", adaptive_real_cases(ctx.tier, ctx.seed))]
    e2e = e2e_cases(ctx.tier, ctx.seed)
    if ctx.tier != "thorough":
        # quick: every public method on every problem, dense mass matrix, the coarser step / tolerance (several
        # consecutive steps through one `data` dictionary, state-dependent Jacobian for the nonlinear problem)
        e2e = [c for c in e2e if c["M"] == "dense" and (c["tau"] == 0.3 if c["mode"] == "const" else c["tol"] == 1e-2)]
    groups.append(("e2e", e2e))
    for name, cases in groups:
        ncalls = 0
        for case, probs, st in par.pmap(_worker, cases):
            n = st.get("calls", st.get("evals", 0))
            ncalls += n
            out.states += 1
            out.evaluations += 1
            out.transitions += n
            out.traces += 1
            out.part(name, cases=1, calls=n)
            if n > 0:
                out.nontrivial_extra += 1
            out.outcomes.add((name, st.get("sig", st.get("result", st.get("steps")))))
            for key, msg in probs:
                out.add_violation(key, "%s: %s" % (_name(case), msg), case)
        out.sample(cases[len(cases) // 2])
        ctx.log("%-13s cases=%d stepper calls / residual evaluations=%d" % (name, len(cases), ncalls))
    if ctx.tier == "thorough":
        rows = empirical_selftest()
        bad = [r for r in rows if abs(r[3] - r[2]) > 0.35 and not (r[2] >= 4 and r[3] > 3.65)]
        out.extra["oracle_selftest_empirical_order"] = {"compared": len(rows), "disagree": [list(r) for r in bad],
                                                       "rows": [list(r) for r in rows]}
        ctx.log("oracle self-test: empirical order agrees with the algebraic conditions for %d/%d weight vectors%s"
                % (len(rows) - len(bad), len(rows), "" if not bad else "; DISAGREE: %s" % bad))


def _name(case):
    p = case["part"]
    if p == "constant":
        return "constant t0=%g t_end=%g tau=%g fail_at=%s" % (case["t0"], case["t_end"], case["tau"], case.get("fail_at"))
    if p == "adaptive":
        return "adaptive script=%s err_order=%d step_factor=%g (t0,t_end,tau0)=%s %s" % (
            ",".join(case["script"]), case["err_order"], case["step_factor"], tuple(case["grid"]), case["mode"])
    if p == "newton":
        return "newton residuals=%s maxiter=%d %s freeze_jac=%d" % (",".join(case["script"]), case["maxiter"],
                                                                     case["tolmode"], case["freeze_jac"])
    return "%s %s M=%s %s tol=%s tau=%s" % (p, case["method"], case["M"], case.get("nl") or case.get("L"),
                                            case.get("tol"), case.get("tau", case.get("tau0")))
