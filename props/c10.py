"""C10 -- eliminating Dirichlet dofs is algebraically exact for any index set.

Part A  (rls)      RestrictedLinearSystem: every ordered subset of dofs (all subsets, all orders, incl. empty and
                   all dofs) x value forms x rhs forms x elim_rows (every ordered subset of the same size) x
                   matrix formats, integer payloads; dictionary model + exact rational solve; restrict / extend /
                   restrict_rhs / restrict_matrix / complete decided on every unit vector / unit matrix.
Part B  (bc1)      compute_dirichlet_bc on every face of 1D-3D spaces x data kinds x geometries x bdspec forms.
        (bcl)      compute_dirichlet_bcs with ('all', g) and with ordered lists of faces (distinct data per face).
        (comb)     combine_bcs for all ordered pairs / triples of faces, integer payloads.
        (ic)       compute_initial_condition_01 on space-time cylinders: value and time derivative on the face.
        (slice)    slice_indices / boundary_dofs / boundary_cells: every axis, index (also negative), ravel, flips.

A case is a plain dict that contains every number the check uses (matrix, rhs, values, knot vectors).
"""
import itertools
from fractions import Fraction

import numpy as np

from mc import par
from mc.outcome import Outcome
from ref import dirichlet as R

ID = "C10"
LEVEL = "model_checking"

UNSORTED_KEY = "rls:unsorted-indices:values-misassigned"
TOL = 1e-10          # norm-wise, relative to max(1, |data|); the unchanged tree shows <= 2e-15 over the thorough
                     # space (logged as worst_relative_deviation in every run)


# ================================================================================================
# Part A: RestrictedLinearSystem
# ================================================================================================

VFORMS = ("scalar", "zero", "array", "list", "tuple")
FORMATS = ("dense", "csr", "csc", "coo")


def rls_cases(tier, seed):
    quick = tier == "quick"
    nmax = 4 if quick else 5
    nmax_rows = 3 if quick else 4
    nmax_rect = 2 if quick else 3
    cases = []

    def payload(m, n, holes):
        A = R.make_matrix(m, n, seed, holes)
        b = [5 + 3 * r + ((r * r + seed) % 3) for r in range(m)]               # small distinct positive integers
        g = [(-1) ** j * (2 * j + 3 + (seed % 3)) for j in range(n)]         # distinct non-zero integers
        return A, b, g

    def add(m, n, idx, rows, holes, A, b, g):
        for vform in VFORMS:
            if vform == "scalar":
                vals = 3.0
            elif vform == "zero":
                vals = 0
            else:
                vals = [float(g[k]) for k in range(len(idx))]     # k-th supplied value belongs to dof idx[k]
            for bform in ("zero", "vector"):
                for fmt in FORMATS:
                    cases.append({"part": "rls", "A": A, "b": None if bform == "zero" else b, "idx": idx,
                                  "vals": vals, "vform": vform, "rows": rows, "fmt": fmt,
                                  "holes": bool(holes)})

    for n in range(1, nmax + 1):
        for holes in (False, True):
            if holes and n < 2:
                continue
            A, b, g = payload(n, n, holes)
            for idx in R.ordered_subsets(n):
                add(n, n, idx, None, holes, A, b, g)
    for n in range(1, nmax_rows + 1):
        A, b, g = payload(n, n, False)
        for k in range(n + 1):
            for idx in R.ordered_subsets(n, k):
                for rows in R.ordered_subsets(n, k):
                    add(n, n, idx, rows, False, A, b, g)
    if not quick:
        # beyond the n <= 4 bound: n = 5 with at most two constrained dofs / eliminated rows
        A, b, g = payload(5, 5, False)
        for k in range(1, 3):
            for idx in R.ordered_subsets(5, k):
                for rows in R.ordered_subsets(5, k):
                    add(5, 5, idx, rows, False, A, b, g)
    # Petrov-Galerkin shape: one more equation than unknowns, one more row eliminated than dofs fixed
    for n in range(1, nmax_rect + 1):
        m = n + 1
        A, b, g = payload(m, n, False)
        for k in range(n + 1):
            for idx in R.ordered_subsets(n, k):
                for rows in R.ordered_subsets(m, k + 1):
                    add(m, n, idx, rows, False, A, b, g)
    return cases


def _dense(X):
    return np.asarray(X.toarray() if hasattr(X, "toarray") else X, dtype=float)


def _as_format(M, fmt):
    import scipy.sparse as sp
    M = np.array(M, dtype=float)
    if fmt == "dense":
        return M
    return {"csr": sp.csr_matrix, "csc": sp.csc_matrix, "coo": sp.coo_matrix}[fmt](M)


def rls_problems(case):
    """returns (problems, info)"""
    from pyiga import assemble
    A = [[int(x) for x in row] for row in case["A"]]
    m, n = len(A), len(A[0])
    idx = [int(i) for i in case["idx"]]
    rows = None if case["rows"] is None else [int(r) for r in case["rows"]]
    vform, fmt = case["vform"], case["fmt"]
    k = len(idx)
    if vform in ("scalar", "zero"):
        vals_list = [case["vals"]] * k
    else:
        vals_list = list(case["vals"])
    b_list = [0] * m if case["b"] is None else [int(x) for x in case["b"]]
    model = R.RestrictedModel(A, b_list, idx, vals_list, rows)
    per_dof = vform in ("array", "list", "tuple")
    unsorted = idx != sorted(idx)
    info = {"calls": 0, "nontrivial": 0 < k < n, "unsorted": unsorted,
            "outcome": ("rls", m, n, tuple(model.free), tuple(model.kept))}

    # ---- arguments in the documented forms
    AA = _as_format(A, fmt)
    bb = 0 if case["b"] is None else np.array(b_list, dtype=float)
    if vform == "scalar":
        bcs = (np.array(idx, dtype=int), float(case["vals"]))
    elif vform == "zero":
        bcs = (np.array(idx, dtype=int), 0)
    elif vform == "array":
        bcs = (np.array(idx, dtype=int), np.array(vals_list, dtype=float))
    elif vform == "list":
        bcs = (list(idx), [float(v) for v in vals_list])
    else:
        bcs = (tuple(idx), tuple(float(v) for v in vals_list))
    if rows is None:
        rows_arg = None
    elif vform == "list":
        rows_arg = list(rows)
    elif vform == "tuple":
        rows_arg = tuple(rows)
    else:
        rows_arg = np.array(rows, dtype=int)

    probs = []
    try:
        LS = assemble.RestrictedLinearSystem(AA, bb, bcs, elim_rows=rows_arg)
        info["calls"] += 1
    except Exception as e:
        return [("rls:init:exception:%s" % type(e).__name__, "constructor raised %r" % (e,))], info

    nfree, nkept = len(model.free), len(model.kept)
    I_n, I_m = np.eye(n), np.eye(m)

    def selection(method, name, size, admissible, E):
        """decide the linear map on every unit vector; must select exactly the admissible positions"""
        cols = []
        for j in range(size):
            v = np.asarray(getattr(LS, method)(E[j].copy()), dtype=float)
            info["calls"] += 1
            cols.append(v)
        shp = {c.shape for c in cols}
        if shp != {(len(admissible),)}:
            probs.append(("rls:%s:shape" % name, "%s(unit vector) has shape %s, expected (%d,)"
                          % (method, sorted(shp), len(admissible))))
            return None, None
        M = np.stack(cols, axis=1) if cols else np.zeros((len(admissible), 0))   # len(adm) x size
        order = []
        ok = True
        for r in range(len(admissible)):
            nz = np.nonzero(M[r])[0]
            if len(nz) != 1 or M[r, nz[0]] != 1.0:
                ok = False
                break
            order.append(int(nz[0]))
        if ok and sorted(order) != list(admissible):
            ok = False
        if not ok:
            probs.append(("rls:%s:not-selection" % name,
                          "%s on the unit vectors gives\n%s\nwhich is not a 0/1 selection of exactly the %s %s"
                          % (method, M, "free dofs" if name == "restrict" else "kept rows", list(admissible))))
            return None, None
        return M, order

    try:
        Rm, free_order = selection("restrict", "restrict", n, model.free, I_n)
        Rv, kept_order = selection("restrict_rhs", "restrict_rhs", m, model.kept, I_m)
        if Rm is None or Rv is None:
            return probs, info
        if rows is None and not np.array_equal(Rm, Rv):
            probs.append(("rls:restrict_rhs:differs-from-restrict",
                          "without elim_rows restrict_rhs is documented to be equivalent to restrict"))
        # extend = transpose of restrict; the two compositions
        I_f = np.eye(nfree)
        for q in range(nfree):
            x = np.asarray(LS.extend(I_f[q].copy()), dtype=float)
            info["calls"] += 1
            if x.shape != (n,) or not np.array_equal(x, Rm[q]):
                probs.append(("rls:extend:not-transpose-of-restrict",
                              "extend(e_%d) = %s, expected the unit vector of free dof %d" % (q, x, free_order[q])))
                break
            y = np.asarray(LS.restrict(LS.extend(I_f[q].copy())), dtype=float)
            info["calls"] += 1
            if not np.array_equal(y, I_f[q]):
                probs.append(("rls:restrict-extend:not-identity", "restrict(extend(e_%d)) = %s" % (q, y)))
                break
        for j in range(n):
            z = np.asarray(LS.extend(LS.restrict(I_n[j].copy())), dtype=float)
            info["calls"] += 1
            want = I_n[j] if j in model.free else np.zeros(n)
            if not np.array_equal(z, want):
                probs.append(("rls:extend-restrict:not-zeroing-constrained-dofs",
                              "extend(restrict(e_%d)) = %s, expected %s" % (j, z, want)))
                break
        # restrict_matrix on every unit matrix (the map does not read b: done for the vector-rhs twin of each case)
        for r in range(m if case["b"] is not None else 0):
            for c in range(n):
                E = np.zeros((m, n))
                E[r, c] = 1.0
                got = _dense(LS.restrict_matrix(_as_format(E, fmt)))
                info["calls"] += 1
                want = Rv @ E @ Rm.T
                if got.shape != want.shape or not np.array_equal(got, want):
                    probs.append(("rls:restrict_matrix:unit-matrix",
                                  "restrict_matrix(E_%d,%d) (%s) =\n%s\nexpected\n%s" % (r, c, fmt, got, want)))
                    break
            else:
                continue
            break
        # the restricted matrix and right-hand side
        Aimp = _dense(LS.A)
        bimp = np.asarray(LS.b, dtype=float)
        Aref = Rv @ np.array(A, dtype=float) @ Rm.T
        lifted = np.array(model.lifted_rhs(), dtype=float)
        bref = Rv @ lifted
        if Aimp.shape != Aref.shape or not np.array_equal(Aimp, Aref):
            probs.append(("rls:A", ".A =\n%s\nexpected kept rows x free columns\n%s" % (Aimp, Aref)))
        A2 = _dense(LS.restrict_matrix(AA))
        info["calls"] += 1
        if A2.shape != Aref.shape or not np.array_equal(A2, Aref):
            probs.append(("rls:restrict_matrix:A", "restrict_matrix(A) differs from kept rows x free columns of A"))
        value_probs = []
        if bimp.shape != bref.shape or not np.array_equal(bimp, bref):
            value_probs.append(("rls:b", ".b = %s, expected restricted (b - A g) = %s with g = %s"
                                % (bimp, bref, model.g)))
        # complete is affine: complete(u) = E u + c
        c0 = np.asarray(LS.complete(np.zeros(nfree)), dtype=float)
        info["calls"] += 1
        if c0.shape != (n,):
            probs.append(("rls:complete:shape", "complete(0) has shape %s" % (c0.shape,)))
            return probs + value_probs, info
        Ecols = []
        for q in range(nfree):
            x = np.asarray(LS.complete(I_f[q].copy()), dtype=float) - c0
            info["calls"] += 1
            Ecols.append(x)
            if not np.array_equal(x, Rm[q]):
                probs.append(("rls:complete:linear-part", "complete(e_%d) - complete(0) = %s, expected extend(e_%d)"
                              % (q, x, q)))
                break
        gvec = np.array(model.gvec, dtype=float)
        if not np.array_equal(c0, gvec):
            value_probs.append(("rls:complete:prescribed-values",
                                "complete(0) = %s, expected value g_i at every constrained dof: %s" % (c0, gvec)))
        # exact solve of the implementation's restricted system, completion through the observed affine map
        if Aimp.shape != (nkept, nfree) or nkept != nfree:
            probs.append(("rls:restricted-system:not-square", ".A has shape %s" % (Aimp.shape,)))
            return probs + value_probs, info
        u = R.solve_fraction([[Fraction(float(x)) for x in row] for row in Aimp], [Fraction(float(x)) for x in bimp]) \
            if bimp.shape == (nkept,) else None
        if u is None:
            probs.append(("rls:restricted-system:singular", ".A is singular although every admissible sub-matrix "
                          "of the test matrix is nonsingular:\n%s" % (Aimp,)))
            return probs + value_probs, info
        if len(Ecols) == nfree:
            x = [Fraction(float(c0[j])) + sum(Fraction(float(Ecols[q][j])) * u[q] for q in range(nfree))
                 for j in range(n)]
            bad_d, bad_r = model.residual_problems(x)
            if bad_d:
                value_probs.append(("rls:solution:constrained-dof-value",
                                    "completed exact solution %s does not take the prescribed values %s at dofs %s"
                                    % ([str(v) for v in x], model.g, bad_d)))
            if bad_r:
                value_probs.append(("rls:solution:kept-equation-violated",
                                    "completed exact solution %s violates the non-eliminated equations %s of A x = b"
                                    % ([str(v) for v in x], bad_r)))
            # the real call on the (rounded) solution agrees with the affine map
            xf = np.asarray(LS.complete(np.array([float(v) for v in u], dtype=float)), dtype=float)
            info["calls"] += 1
            xr = np.array([float(v) for v in x])
            if xf.shape != xr.shape or not np.abs(xf - xr).max(initial=0.0) <= 1e-12 * max(1.0, np.abs(xr).max(initial=0.0)):
                probs.append(("rls:complete:not-affine", "complete(u) = %s but the affine map observed on unit "
                              "vectors gives %s" % (xf, xr)))
        # one defect, one key: values supplied for unsorted indices end up at the dofs in increasing order
        if value_probs and per_dof and unsorted:
            wrong = R.RestrictedModel(A, b_list, sorted(idx), vals_list, rows)
            if np.array_equal(c0, np.array(wrong.gvec, dtype=float)) and \
                    np.array_equal(bimp, Rv @ np.array(wrong.lifted_rhs(), dtype=float)):
                value_probs = [(UNSORTED_KEY,
                                "indices %s (not increasing) with values %s: the k-th value is assigned to the k-th "
                                "SMALLEST index instead of indices[k]: complete(0) = %s, expected %s; .b = %s, expected %s"
                                % (idx, vals_list, c0, gvec, bimp, bref))]
        probs += value_probs
    except Exception as e:
        probs.append(("rls:exception:%s" % type(e).__name__, "a documented method raised %r" % (e,)))
    return probs, info


# ================================================================================================
# Part B: boundary conditions
# ================================================================================================

KV = {
    "a": [1, [0.0, 1.0], []],                      # 2 dofs
    "b": [1, [0.0, 0.5, 1.0], [1]],                # 3 dofs
    "c": [2, [0.0, 0.3, 1.0], [1]],                # 4 dofs, non-uniform
    "d": [3, [0.0, 0.5, 1.0], [2]],                # 6 dofs, repeated interior knot
    "e": [2, [0.0, 1.0], []],                      # 3 dofs, Bezier
    "f": [3, [0.0, 0.25, 0.5, 1.0], [1, 3]],       # 8 dofs, non-uniform, C^0 knot
}
DATA = ("const", "int", "func", "vec", "vecnan0", "vecnan1")


def _pykv(desc):
    from pyiga import bspline
    p, breaks, mults = desc
    return bspline.KnotVector(np.array(R.knots(p, breaks, mults)), int(p))


def _affine_coeffs(dim):
    """corner coefficients of an affine map (shear + anisotropic scale + shift), indexed like pyiga
    coefficient arrays: array axis k = parameter axis k, the LAST parameter axis is x"""
    M = {1: np.array([[3.0]]),
         2: np.array([[2.0, 0.5], [0.25, 1.5]]),
         3: np.array([[2.0, 0.5, 0.2], [0.25, 1.5, -0.3], [0.1, 0.4, 1.2]])}[dim]
    shift = np.array([2.0, -1.0, 0.5])[:dim]
    C = np.zeros((2,) * dim + (dim,))
    for mi in itertools.product((0, 1), repeat=dim):
        xyz = np.array(mi[::-1], dtype=float)          # parameter point in (x, y, z) order
        C[mi] = M @ xyz + shift
    return C


def _geo(name, dim):
    from pyiga import bspline, geometry
    kv1 = bspline.make_knots(1, 0.0, 1.0, 1)
    if name == "identity":
        if dim == 1:
            return geometry.line_segment(0.0, 1.0)
        return geometry.unit_square() if dim == 2 else geometry.unit_cube()
    if name == "affine":
        return bspline.BSplineFunc((kv1,) * dim, _affine_coeffs(dim))
    if name == "bilinear":
        if dim == 2:
            C = np.array([[[0.0, 0.0], [2.0, 0.2]], [[0.3, 1.0], [2.5, 1.7]]])
            return bspline.BSplineFunc((kv1, kv1), C)
        C = np.zeros((2, 2, 2, 3))
        for i, j, k in itertools.product((0, 1), repeat=3):
            C[i, j, k] = (k * (1.5 + 0.2 * j) + 0.1 * i, j * (1.0 + 0.3 * i), i * (1.2 + 0.1 * k) + 0.2 * j)
        return bspline.BSplineFunc((kv1,) * 3, C)
    if name == "annulus":
        if dim == 2:
            return geometry.quarter_annulus()
        return geometry.tensor_product(geometry.line_segment(0.0, 1.0), geometry.quarter_annulus())
    raise ValueError(name)


def geos_for(dim):
    return ("identity", "affine") if dim == 1 else ("identity", "affine", "bilinear", "annulus")


def _scal(variant, seed, off):
    c = [2.0 + 0.1 * ((seed * 7) % 10), -3.0 - 0.1 * ((seed * 3) % 10), 0.5, 0.25]

    def f(*X):
        X = [np.asarray(x, dtype=float) for x in X]
        s = (1.0 + off) + sum(ci * x for ci, x in zip(c, X))
        if len(X) >= 2:
            s = s + X[0] * X[1]
        if variant == 0:
            s = s + np.cos(X[0])
        else:
            s = s - 0.5 * X[-1] ** 2 + np.sin(X[0])
        return s
    return f


def make_data(kind, dim, seed, off):
    """-> (object passed to pyiga, list of per-component reference callables; None = NaN component)"""
    f0, f1 = _scal(0, seed, off), _scal(1, seed, off)
    if kind == "const":
        v = 2.5 + off
        return v, [lambda *X: v]
    if kind == "int":
        v = int(off)
        return v, [lambda *X: float(v)]
    if kind == "func":
        return f0, [f0]
    cst = 0.75 + off
    if kind == "vec":
        comps = [f0, f1] if dim <= 2 else [f0, f1, (lambda *X: cst)]
        g = (lambda *X: (f0(*X), f1(*X))) if dim <= 2 else (lambda *X: (f0(*X), f1(*X), cst))
        return g, comps
    if kind == "vecnan0":
        comps = [None, f1] if dim <= 2 else [None, f1, (lambda *X: cst)]
        g = (lambda *X: (np.nan, f1(*X))) if dim <= 2 else (lambda *X: (np.nan, f1(*X), cst))
        return g, comps
    if kind == "vecnan1":
        comps = [f0, None] if dim <= 2 else [f0, None, f1]
        g = (lambda *X: (f0(*X), np.nan)) if dim <= 2 else (lambda *X: (f0(*X), np.nan, f1(*X)))
        return g, comps
    raise ValueError(kind)


class FaceRef:
    """everything the oracle needs about one face; uses pyiga only for geo.grid_eval (input data)"""
    def __init__(self, kvd, geo, ax, side):
        dim = len(kvd)
        self.kns = [R.knots(*d) for d in kvd]
        self.ps = [int(d[0]) for d in kvd]
        self.shape = tuple(R.numdofs(kn, p) for kn, p in zip(self.kns, self.ps))
        self.N = int(np.prod(self.shape))
        self.fa = [k for k in range(dim) if k != ax]
        self.faceshape = tuple(self.shape[k] for k in self.fa)
        self.dofs = R.face_dofs(self.shape, ax, side)                    # increasing
        self.grev = [R.greville(self.kns[k], self.ps[k]) for k in self.fa]
        self.C = [R.collocation(self.kns[k], self.ps[k], g) for k, g in zip(self.fa, self.grev)]
        end = kvd[ax][1][0] if side == 0 else kvd[ax][1][-1]
        self.end = float(end)
        if geo is not None:
            grid = []
            it = iter(self.grev)
            for k in range(dim):
                grid.append(np.array([self.end]) if k == ax else next(it))
            P = np.asarray(geo.grid_eval(grid), dtype=float)
            P = np.take(P, 0, axis=ax)
            if P.ndim == len(self.fa):
                P = P[..., None]
            self.X = [P[..., i] for i in range(P.shape[-1])]             # physical coordinates, (x, y, z) order

    def data(self, f, X=None):
        return np.broadcast_to(np.asarray(f(*(self.X if X is None else X)), dtype=float), self.faceshape).copy()

    def param_X(self):
        """parameter coordinates of the Greville grid of the face in (x, y) order = last face axis first"""
        mesh = np.meshgrid(*self.grev, indexing="ij") if self.grev else []
        return list(reversed(mesh))

    def interpolant(self, d):
        return R.apply_axes([np.linalg.inv(C) for C in self.C], d)


def _bdspec(dim, ax, side, spec):
    return (int(ax), int(side)) if spec == "tuple" else R.face_name(dim, ax, side)


def _check_indices(tag, ind, want, probs, need_sorted=True):
    """ind: returned index array; want: increasing list of expected dofs"""
    ind = np.asarray(ind)
    if ind.ndim != 1 or (ind.size and not np.issubdtype(ind.dtype, np.integer)):
        probs.append(("%s:indices:malformed" % tag, "indices have shape %s dtype %s" % (ind.shape, ind.dtype)))
        return False
    lst = [int(i) for i in ind.tolist()]
    if len(set(lst)) != len(lst):
        probs.append(("%s:indices:duplicate" % tag, "indices %s contain a dof more than once" % lst))
        return False
    if set(lst) != set(want):
        probs.append(("%s:indices:set" % tag, "indices %s != dofs on the requested faces %s "
                      "(missing %s, extra %s)" % (lst, want, sorted(set(want) - set(lst)), sorted(set(lst) - set(want)))))
        return False
    if need_sorted and lst != sorted(lst):
        probs.append(("%s:indices:not-increasing" % tag, "indices %s are not in increasing order" % lst))
        return False
    return True


def bc_single_problems(case):
    from pyiga import assemble
    kvd, ax, side = case["kvs"], int(case["face"][0]), int(case["face"][1])
    dim = len(kvd)
    info = {"calls": 0, "nontrivial": False, "outcome": None}
    tag = "bc"
    kvs = tuple(_pykv(d) for d in kvd)
    geo = _geo(case["geo"], dim)
    g, comps = make_data(case["data"], dim, int(case.get("seed", 0)), 0.0)
    try:
        ind, val = assemble.compute_dirichlet_bc(kvs, geo, _bdspec(dim, ax, side, case["spec"]), g)
        info["calls"] += 1
    except Exception as e:
        return [("bc:exception:%s%s" % (type(e).__name__, ":1d-space" if dim == 1 else ""),
                 "compute_dirichlet_bc on face (%d,%d) of a %dD space raised %r" % (ax, side, dim, e))], info
    F = FaceRef(kvd, geo, ax, side)
    active = [j for j, c in enumerate(comps) if c is not None]
    want = [j * F.N + d for j in active for d in F.dofs]
    probs = []
    if not _check_indices(tag, ind, want, probs):
        return probs, info
    val = np.asarray(val, dtype=float)
    if val.shape != (len(want),):
        return [("%s:values:shape" % tag, "values have shape %s for %d indices" % (val.shape, len(want)))], info
    byidx = {int(i): float(v) for i, v in zip(np.asarray(ind).tolist(), val.tolist())}
    worst = 0.0
    for j in active:
        V = np.array([byidx[j * F.N + d] for d in F.dofs]).reshape(F.faceshape)
        S = R.apply_axes(F.C, V)                    # boundary spline at the Greville points of the face basis
        D = F.data(comps[j])
        err = np.abs(S - D).max()
        scale = max(1.0, np.abs(D).max())
        if not err <= TOL * scale:
            probs.append(("%s:values:not-interpolating" % tag,
                          "component %d: boundary spline at the Greville points of face (%d,%d) differs from the "
                          "data at the physical positions by %.3g (data magnitude %.3g)" % (j, ax, side, err, scale)))
            break
        worst = max(worst, float(err / scale))
    info["nontrivial"] = len(F.dofs) >= 2 and case["data"] not in ("const", "int")
    info["outcome"] = ("bc", tuple(want))
    if not probs:
        info["err"] = worst
    return probs, info


def _face_values(kvd, geo, dim, faces, kind, seed, same_data):
    """reference: for every face in the list, dict dof -> interpolation coefficient of that face's data"""
    out = []
    for pos, (ax, side) in enumerate(faces):
        k = kind
        if kind == "vecmix":
            k = "vecnan0" if pos % 2 == 0 else "vecnan1"
        g, comps = make_data(k, dim, seed, 0.0 if same_data else 10.0 * pos)
        F = FaceRef(kvd, geo, ax, side)
        d = {}
        for j, c in enumerate(comps):
            if c is None:
                continue
            co = F.interpolant(F.data(c)).ravel()
            for dof, v in zip(F.dofs, co.tolist()):
                d[j * F.N + dof] = v
        out.append((g, d))
    return out


def bc_list_problems(case):
    from pyiga import assemble
    kvd = case["kvs"]
    dim = len(kvd)
    info = {"calls": 0, "nontrivial": False, "outcome": None}
    tag = "bcs"
    kvs = tuple(_pykv(d) for d in kvd)
    geo = _geo(case["geo"], dim)
    seed = int(case.get("seed", 0))
    mode = case["mode"]
    if mode == "all":
        faces = [(ax, sd) for ax in range(dim) for sd in (0, 1)]
    else:
        faces = [(int(a), int(s)) for a, s in case["faces"]]
    ref = _face_values(kvd, geo, dim, faces, case["data"], seed, same_data=(mode == "all"))
    try:
        if mode == "all":
            ind, val = assemble.compute_dirichlet_bcs(kvs, geo, ("all", ref[0][0]))
        else:
            ind, val = assemble.compute_dirichlet_bcs(
                kvs, geo, [(_bdspec(dim, ax, sd, case["spec"]), g) for (ax, sd), (g, _) in zip(faces, ref)])
        info["calls"] += 1
    except Exception as e:
        return [("bc:exception:%s%s" % (type(e).__name__, ":1d-space" if dim == 1 else ""),
                 "compute_dirichlet_bcs(%s) on a %dD space raised %r" % ("'all'" if mode == "all" else faces, dim, e))], info
    adm = {}
    for _, d in ref:
        for dof, v in d.items():
            adm.setdefault(dof, []).append(v)
    want = sorted(adm)
    probs = []
    if not _check_indices(tag, ind, want, probs):
        return probs, info
    val = np.asarray(val, dtype=float)
    if val.shape != (len(want),):
        return [("%s:values:shape" % tag, "values have shape %s for %d indices" % (val.shape, len(want)))], info
    scale = max(1.0, max(abs(v) for vs in adm.values() for v in vs))
    chosen = []
    for dof, v in zip(np.asarray(ind).tolist(), val.tolist()):
        errs = [abs(v - a) for a in adm[dof]]
        if not min(errs) <= TOL * scale:
            probs.append(("%s:values:not-one-of-the-supplied" % tag,
                          "dof %d has value %r, the faces containing it supply %s" % (dof, v, adm[dof])))
            break
        chosen.append(int(np.argmin(errs)))
    info["nontrivial"] = any(len(v) > 1 for v in adm.values())
    info["outcome"] = ("bcs", tuple(want), tuple(chosen))
    return probs, info


def combine_problems(case):
    from pyiga import assemble
    shape = tuple(int(s) for s in case["shape"])
    faces = [(int(a), int(s)) for a, s in case["faces"]]
    info = {"calls": 0, "nontrivial": False, "outcome": None}
    ncomp = int(case.get("ncomp", 1))
    N = int(np.prod(shape))
    bcs, supplied = [], {}
    for pos, (ax, sd) in enumerate(faces):
        dofs = [j * N + d for j in range(ncomp) for d in R.face_dofs(shape, ax, sd)]
        vals = [float(100 * (pos + 1) + q) for q in range(len(dofs))]
        bcs.append((np.array(dofs, dtype=int), np.array(vals, dtype=float)))
        for d, v in zip(dofs, vals):
            supplied.setdefault(d, []).append(v)
    arg = {"list": list, "tuple": tuple, "generator": (lambda b: (x for x in b))}[case["container"]](bcs)
    try:
        ind, val = assemble.combine_bcs(arg)
        info["calls"] += 1
    except Exception as e:
        return [("combine:exception:%s" % type(e).__name__, "combine_bcs raised %r" % (e,))], info
    probs = []
    want = sorted(supplied)
    if not _check_indices("combine", ind, want, probs):
        return probs, info
    val = np.asarray(val, dtype=float)
    if val.shape != (len(want),):
        return [("combine:values:shape", "values have shape %s for %d indices" % (val.shape, len(want)))], info
    chosen = []
    for dof, v in zip(np.asarray(ind).tolist(), val.tolist()):
        if v not in supplied[dof]:
            probs.append(("combine:values:not-one-of-the-supplied",
                          "dof %d got value %r, supplied for this dof: %s" % (dof, v, supplied[dof])))
            break
        chosen.append(supplied[dof].index(v))
    info["nontrivial"] = any(len(v) > 1 for v in supplied.values())
    info["outcome"] = ("combine", tuple(want), tuple(chosen))
    return probs, info


# ---- slice_indices / boundary_dofs / boundary_cells ---------------------------------------------

def _slice_ref(shape, ax, idx, flip):
    """multi-indices of the slice in lexicographic order; face axes flagged in `flip` (one flag per face
    axis, as documented for Multipatch.join_boundaries) run backwards"""
    if idx < 0:
        idx += shape[ax]
    axes = [list(range(n)) for n in shape]
    if flip is not None:
        fa = [k for k in range(len(shape)) if k != ax]
        for k, f in zip(fa, flip):
            if f:
                axes[k] = axes[k][::-1]
    axes[ax] = [idx]
    return [tuple(t) for t in itertools.product(*axes)]


def slice_problems(case):
    from pyiga import assemble
    info = {"calls": 0, "nontrivial": False, "outcome": None}
    func = case["func"]
    ravel = bool(case["ravel"])
    flip = None if case["flip"] is None else tuple(bool(f) for f in case["flip"])
    try:
        if func == "slice_indices":
            shape = tuple(int(s) for s in case["shape"])
            ax, idx = int(case["ax"]), int(case["idx"])
            got = assemble.slice_indices(ax, idx, shape, ravel=ravel, flip=flip)
        else:
            kvd = case["kvs"]
            dim = len(kvd)
            ax, side = int(case["face"][0]), int(case["face"][1])
            kvs = tuple(_pykv(d) for d in kvd)
            bd = _bdspec(dim, ax, side, case["spec"])
            if func == "boundary_dofs":
                shape = tuple(R.numdofs(R.knots(*d), d[0]) for d in kvd)
                got = assemble.boundary_dofs(kvs, bd, ravel=ravel, flip=flip)
            else:
                shape = tuple(len(d[1]) - 1 for d in kvd)
                got = assemble.boundary_cells(kvs, bd, ravel=ravel)
            idx = 0 if side == 0 else -1
        info["calls"] += 1
    except Exception as e:
        return [("slice:%s:exception:%s" % (func, type(e).__name__), "%s raised %r" % (func, e))], info
    ref = _slice_ref(shape, ax, idx, flip)
    want = np.array([np.ravel_multi_index(t, shape) for t in ref], dtype=int) if ravel else \
        np.array(ref, dtype=int).reshape(len(ref), len(shape))
    got = np.asarray(got)
    probs = []
    if got.shape != want.shape:
        probs.append(("slice:%s:shape" % func, "result has shape %s, expected %s" % (got.shape, want.shape)))
    elif not np.array_equal(got, want):
        same_set = sorted(map(tuple, got.reshape(len(ref), -1).tolist())) == sorted(map(tuple, want.reshape(len(ref), -1).tolist()))
        if not same_set:
            key = "slice:%s:wrong-dofs" % func
        elif flip is None or not any(flip):
            key = "slice:%s:order" % func
        else:
            key = "slice:%s:flip-order" % func
        probs.append((key, "result %s, expected %s" % (got.tolist(), want.tolist())))
    info["nontrivial"] = len(ref) >= 2
    info["outcome"] = ("slice", tuple(map(int, want.ravel().tolist())))
    return probs, info


def slice_cases(tier):
    quick = tier == "quick"
    shapes = [(1,), (3,), (2, 2), (2, 3), (4, 2), (2, 3, 4), (3, 2, 2)]
    if not quick:
        shapes += [(6,), (1, 3), (3, 1), (5, 4), (3, 3, 3), (4, 3, 2), (2, 1, 3), (2, 2, 2, 2), (2, 3, 2, 3)]
    cases = []
    for shape in shapes:
        dim = len(shape)
        flips = [None] + [list(f) for f in itertools.product((False, True), repeat=dim - 1)]
        for ax in range(dim):
            for idx in range(-shape[ax], shape[ax]):
                for ravel in (False, True):
                    for flip in flips:
                        cases.append({"part": "slice", "func": "slice_indices", "shape": list(shape), "ax": ax, "idx": idx,
                                      "ravel": ravel, "flip": flip})
    for sp in _spaces(tier):
        dim = len(sp)
        kvd = [KV[n] for n in sp]
        flips = [None] + [list(f) for f in itertools.product((False, True), repeat=dim - 1)]
        for ax in range(dim):
            for side in (0, 1):
                for spec in ("tuple", "name"):
                    for ravel in (False, True):
                        for flip in flips:
                            cases.append({"part": "slice", "func": "boundary_dofs", "kvs": kvd, "face": [ax, side],
                                          "spec": spec, "ravel": ravel, "flip": flip})
                        cases.append({"part": "slice", "func": "boundary_cells", "kvs": kvd, "face": [ax, side],
                                      "spec": spec, "ravel": ravel, "flip": None})
    return cases


# ---- space-time initial conditions -------------------------------------------------------------

def _spacetime_geo(sgeo, dim, tax, t0, t1):
    """G(x, t) = (G~(x), t) with the time parameter on axis `tax`"""
    from pyiga import bspline, geometry
    Gs = _geo(sgeo, dim - 1)
    G = geometry.tensor_product(geometry.line_segment(float(t0), float(t1), support=(float(t0), float(t1))), Gs)
    if tax == 0:
        return G
    kvs = list(G.kvs)
    kvs.insert(tax, kvs.pop(0))
    C = np.moveaxis(G.coeffs, 0, tax).copy()
    if isinstance(G, geometry.NurbsFunc):
        return geometry.NurbsFunc(kvs, C, None, premultiplied=True)
    return bspline.BSplineFunc(kvs, C)


def ic_problems(case):
    from pyiga import assemble
    kvd, tax, side = case["kvs"], int(case["tax"]), int(case["side"])
    dim = len(kvd)
    t0, t1 = case["T"]
    physical = bool(case["physical"])
    seed = int(case.get("seed", 0))
    info = {"calls": 0, "nontrivial": True, "outcome": None}
    t_face = float(t0) if side == 0 else float(t1)
    # the implementation evaluates the end-point collocation at the literal 0.0 (side 0) / 1.0 (side 1)
    hard_coded = t_face != (0.0 if side == 0 else 1.0)
    HC_KEY = "ic:face-time-differs-from-literal-0.0/1.0"
    kvs = tuple(_pykv(d) for d in kvd)
    geo = _spacetime_geo(case["sgeo"], dim, tax, t0, t1)
    g0, g1 = _scal(0, seed, 0.0), _scal(1, seed, 0.0)
    try:
        ind, val = assemble.compute_initial_condition_01(kvs, geo, (tax, side), g0, g1, physical=physical)
        info["calls"] += 1
    except Exception as e:
        return [(HC_KEY if hard_coded else "ic:exception:%s" % type(e).__name__,
                 "compute_initial_condition_01 on the face t=%g raised %r" % (t_face, e))], info
    F = FaceRef(kvd, geo, tax, side)
    nt = F.shape[tax]
    s0, s1 = (0, 1) if side == 0 else (nt - 1, nt - 2)
    want = sorted(R.slice_dofs(F.shape, tax, s0) + R.slice_dofs(F.shape, tax, s1))
    probs = []
    if not _check_indices("ic", ind, want, probs, need_sorted=False):
        return probs, info
    val = np.asarray(val, dtype=float)
    if val.shape != (len(want),):
        return [("ic:values:shape", "values have shape %s for %d indices" % (val.shape, len(want)))], info
    U = np.zeros(F.N)
    U[np.asarray(ind)] = val
    U = U.reshape(F.shape)
    U0, U1 = np.take(U, s0, axis=tax), np.take(U, s1, axis=tax)
    bv = [float(x) for x in R.basis_values(F.kns[tax], F.ps[tax], Fraction(F.end), Fraction)]
    bd = [float(x) for x in R.basis_derivs(F.kns[tax], F.ps[tax], Fraction(F.end), Fraction)]
    u_face = R.apply_axes(F.C, U0 * bv[s0] + U1 * bv[s1])
    ut_face = R.apply_axes(F.C, U0 * bd[s0] + U1 * bd[s1])
    X = None if physical else F.param_X()
    D0, D1 = F.data(g0, X), F.data(g1, X)
    worst = 0.0
    for name, got, D in (("value", u_face, D0), ("time-derivative", ut_face, D1)):
        err = np.abs(got - D).max()
        scale = max(1.0, np.abs(D).max(), np.abs(D0).max())
        if not err <= 10 * TOL * scale:
            probs.append((HC_KEY if hard_coded else "ic:%s-on-face" % name,
                          "%s of the function with the returned coefficients on face (%d,%d) (t=%g) differs from the "
                          "prescribed data at the Greville points by %.3g (magnitude %.3g)"
                          % (name, tax, side, F.end, err, scale)))
        worst = max(worst, float(err / scale))
    if not probs:
        info["err"] = worst
    probs = [p for q, p in enumerate(probs) if p[0] not in [r[0] for r in probs[:q]]]
    info["outcome"] = ("ic", tuple(want))
    return probs, info


# ------------------------------------------------------------------------------------------------
# enumeration of part B
# ------------------------------------------------------------------------------------------------

def _spaces(tier):
    quick = tier == "quick"
    names1 = "abcd" if quick else "abcdef"
    sp = [[n] for n in names1]
    sp += [list(t) for t in itertools.product(names1, repeat=2)]
    names3 = "abc" if quick else "abcde"
    sp3 = [list(t) for t in itertools.product(names3, repeat=3)]
    if quick:
        sp3 += [list("dab"), list("adc"), list("bcd")]
    else:
        sp3 += [list("fab"), list("afc"), list("bcf")]
    return sp + sp3


def _list_spaces(tier):
    """spaces for the face-list checks: all 1D/2D spaces; 3D spaces with pairwise different dof counts"""
    quick = tier == "quick"
    names1 = "abcd" if quick else "abcdef"
    sp = [[n] for n in names1] + [list(t) for t in itertools.product(names1, repeat=2)]
    if quick:
        sp3 = [list("acd"), list("dca"), list("bab")]
    else:
        sp3 = [list(t) for t in itertools.permutations("acd")] + [list(t) for t in itertools.permutations("bcf")] \
            + [list("aaa"), list("bab"), list("eea")]
    return sp + sp3


def bc_cases(tier, seed):
    quick = tier == "quick"
    cases = []
    for sp in _spaces(tier):
        dim = len(sp)
        kvd = [KV[n] for n in sp]
        for geo in geos_for(dim):
            for data in DATA:
                for ax in range(dim):
                    for side in (0, 1):
                        for spec in ("tuple", "name"):
                            if dim == 3 and spec == "name" and data not in ("func", "vecnan0"):
                                continue
                            cases.append({"part": "bc1", "kvs": kvd, "geo": geo, "data": data, "face": [ax, side],
                                          "spec": spec, "seed": seed})
    for sp in _list_spaces(tier):
        dim = len(sp)
        kvd = [KV[n] for n in sp]
        allfaces = [[ax, sd] for ax in range(dim) for sd in (0, 1)]
        kinds = ("const", "func", "vec", "vecnan1", "vecmix") if dim < 3 else ("func", "vecmix")
        for geo in geos_for(dim):
            if dim == 3 and quick and geo in ("affine",):
                continue
            for data in kinds:
                if data != "vecmix":
                    cases.append({"part": "bcl", "kvs": kvd, "geo": geo, "data": data, "mode": "all", "seed": seed})
                lists = []
                for r in (2, 3):
                    if r <= len(allfaces):
                        lists += [list(t) for t in itertools.permutations(allfaces, r)]
                if dim == 3 and quick:
                    lists = [l for l in lists if len(l) == 2] + [l for q, l in enumerate(lists) if len(l) == 3 and q % 6 == 0]
                for fl in lists:
                    cases.append({"part": "bcl", "kvs": kvd, "geo": geo, "data": data, "mode": "list", "faces": fl,
                                  "spec": "tuple", "seed": seed})
                # every face, documented names, in the documented order and reversed
                cases.append({"part": "bcl", "kvs": kvd, "geo": geo, "data": data, "mode": "list",
                              "faces": allfaces, "spec": "name", "seed": seed})
                cases.append({"part": "bcl", "kvs": kvd, "geo": geo, "data": data, "mode": "list",
                              "faces": allfaces[::-1], "spec": "name", "seed": seed})
    return cases


def combine_cases(tier):
    shapes = [(2,), (3,), (2, 2), (2, 3), (4, 3), (2, 2, 2), (2, 3, 4), (4, 2, 3)]
    if tier != "quick":
        shapes += [(6,), (3, 6), (6, 4), (3, 3, 3), (4, 3, 2), (2, 6, 3)]
    cases = []
    for shape in shapes:
        dim = len(shape)
        allfaces = [[ax, sd] for ax in range(dim) for sd in (0, 1)]
        for r in (1, 2, 3):
            if r > len(allfaces):
                continue
            for fl in itertools.permutations(allfaces, r):
                for ncomp in (1, 2):
                    for cont in ("list", "generator", "tuple"):
                        if cont != "list" and (ncomp == 2 or r == 3 and dim == 3):
                            continue
                        cases.append({"part": "comb", "shape": list(shape), "faces": [list(f) for f in fl],
                                      "ncomp": ncomp, "container": cont})
    return cases


def _scaled(desc, t0, t1):
    p, breaks, mults = desc
    return [p, [t0 + (t1 - t0) * x for x in breaks], mults]


def ic_cases(tier, seed):
    quick = tier == "quick"
    cases = []
    tnames = "acd"
    snames = "abcd" if quick else "abcdef"
    for T in ([0.0, 1.0], [0.0, 2.0]):
        # 1 space dimension + time
        for s in snames:
            for t in tnames:
                for sgeo in ("identity", "affine"):
                    for tax in (0, 1):
                        kvd = [KV[s], KV[s]]
                        kvd[tax] = _scaled(KV[t], *T)
                        for side in (0, 1):
                            for phys in (True, False):
                                cases.append({"part": "ic", "kvs": kvd, "tax": tax, "side": side, "sgeo": sgeo, "T": T,
                                              "physical": phys, "seed": seed})
        # 2 space dimensions + time
        pairs = [("a", "c"), ("c", "b"), ("d", "a")] if quick else \
            [p for p in itertools.product("abcd", repeat=2)] + [("f", "a"), ("c", "f"), ("e", "d")]
        for (s1, s2) in pairs:
            for t in tnames:
                for sgeo in ("identity", "affine", "bilinear", "annulus"):
                    for tax in ((0, 2) if quick else (0, 1, 2)):
                        kvd = [KV[s1], KV[s2]]
                        kvd.insert(tax, _scaled(KV[t], *T))
                        for side in (0, 1):
                            for phys in (True, False):
                                cases.append({"part": "ic", "kvs": kvd, "tax": tax, "side": side, "sgeo": sgeo, "T": T,
                                              "physical": phys, "seed": seed})
    return cases


# ================================================================================================
# check_case / run
# ================================================================================================

_PARTS = {"rls": rls_problems, "bc1": bc_single_problems, "bcl": bc_list_problems, "comb": combine_problems,
          "ic": ic_problems, "slice": slice_problems}


def _check(case):
    np.random.seed(0)
    return _PARTS[case["part"]](case)


def check_case(case):
    if case.get("part") == "bc":            # multipatch Dirichlet data (shared with C14 part D)
        from props import c14_system
        return [("multipatch-" + k, m) for k, m in c14_system.bc_problems(case)]
    return list(_check(case)[0])


def _mp_worker(case):
    return check_case(case)


def _worker(case):
    probs, info = _check(case)
    return probs, info


def _shape_sig(case):
    """the enumerated *shape* of a case (numeric payload and argument forms removed)"""
    p = case["part"]
    if p == "rls":
        return (p, len(case["A"]), len(case["A"][0]), tuple(case["idx"]),
                None if case["rows"] is None else tuple(case["rows"]), case["holes"])
    if p == "bc1":
        return (p, repr(case["kvs"]), case["geo"], case["data"], tuple(case["face"]))
    if p == "bcl":
        return (p, repr(case["kvs"]), case["geo"], case["data"], case["mode"], repr(case.get("faces")))
    if p == "comb":
        return (p, tuple(case["shape"]), repr(case["faces"]), case["ncomp"])
    if p == "slice":
        return (p, case["func"], repr(case.get("shape", case.get("kvs"))), case.get("ax"), case.get("idx"),
                repr(case.get("face")), case["ravel"], repr(case["flip"]))
    return (p, repr(case["kvs"]), case["tax"], case["side"], case["sgeo"], tuple(case["T"]), case["physical"])


def _describe(case):
    p = case["part"]
    if p == "rls":
        return "RestrictedLinearSystem A=%s (%s) b=%s indices=%s values=%s (%s) elim_rows=%s" % (
            case["A"], case["fmt"], case["b"], case["idx"], case["vals"], case["vform"], case["rows"])
    d = {k: v for k, v in case.items() if k not in ("part", "seed")}
    return "%s %s" % (p, d)


def _warm():
    """import everything the workers need once in the parent (fork shares it)"""
    from pyiga import assemble, approx, bspline, geometry, operators, tensor, utils   # noqa: F401
    import scipy.sparse, scipy.sparse.linalg                                           # noqa: F401
    _check({"part": "comb", "shape": [2, 2], "faces": [[0, 0]], "ncomp": 1, "container": "list"})
    _check({"part": "bc1", "kvs": [KV["a"], KV["b"]], "geo": "annulus", "data": "vec", "face": [0, 0], "spec": "tuple"})
    _check({"part": "ic", "kvs": [KV["a"], KV["b"]], "tax": 0, "side": 0, "sgeo": "identity", "T": [0.0, 1.0],
            "physical": True})


def run(ctx):
    out = Outcome()
    _warm()
    cases = rls_cases(ctx.tier, ctx.seed)
    n_rls = len(cases)
    cases += slice_cases(ctx.tier)
    cases += combine_cases(ctx.tier)
    cases += bc_cases(ctx.tier, ctx.seed)
    cases += ic_cases(ctx.tier, ctx.seed)
    ctx.log("enumerated %d cases (%d rls)" % (len(cases), n_rls))
    shapes = set()
    worst = {}
    nunsorted = 0
    results = par.pmap(_worker, cases, chunk=64)
    for case, (probs, info) in zip(cases, results):
        p = case["part"]
        out.evaluations += 1
        out.transitions += info["calls"]
        out.traces += 1
        sig = _shape_sig(case)
        shapes.add(sig)
        if info.get("nontrivial"):
            out.nontrivial.add(sig)
        if info.get("outcome") is not None:
            out.outcomes.add(info["outcome"])
        if info.get("unsorted"):
            nunsorted += 1
        if "err" in info:
            worst[p] = max(worst.get(p, 0.0), info["err"])
        out.part(p, cases=1, calls=info["calls"], failing_cases=1 if probs else 0)
        for key, msg in probs:
            out.add_violation(key, "%s: %s" % (_describe(case), msg), case)
    # boundary data in the glued numbering of a multipatch space: every outer face of small complexes, the condition
    # list in grouped / interleaved / reversed / alternating order (cases and oracle shared with C14 part D)
    from props import c14_system
    mcases = c14_system.bc_cases(ctx.tier)
    for case, probs in zip(mcases, par.pmap(_mp_worker, mcases, min_parallel=4)):
        out.evaluations += 1
        out.transitions += 4
        out.traces += 1
        shapes.add(("mpbc", repr(sorted((k, repr(v)) for k, v in case["cfg"].items()))))
        out.nontrivial.add(("mpbc", repr(sorted((k, repr(v)) for k, v in case["cfg"].items()))))
        out.part("multipatch-bc", cases=1, calls=4, failing_cases=1 if probs else 0)
        for key, msg in probs:
            out.add_violation(key, "multipatch %s: %s" % (case["cfg"], msg), case)
    out.states = len(shapes)
    out.part("rls", cases_with_unsorted_indices=nunsorted)
    for p, w in sorted(worst.items()):
        out.part(p, worst_relative_deviation=w)
        ctx.log("part %s: worst relative deviation of a passing check %.3g (tolerance %.1g)" % (p, w, TOL))
    for p in ("rls", "slice", "comb", "bc1", "bcl", "ic"):
        for c in cases:
            if c["part"] == p and (p != "rls" or (len(c["idx"]) == 2 and c["idx"] != sorted(c["idx"]))):
                out.sample({k: v for k, v in c.items()}, limit=8)
                break
    for p, d in sorted(out.parts.items()):
        ctx.log("part %-5s %s" % (p, {k: v for k, v in d.items()}))
    out.rule = ("state = enumerated shape (system size, ordered index subset, ordered elim_rows, sparsity kind | space, "
                "geometry, data kind, face or ordered face list | cylinder, time axis, side); non-trivial = RLS shapes "
                "with at least one constrained and one free dof / single faces with >= 2 dofs and non-constant data / "
                "face lists in which some dof is supplied by more than one face / slices with >= 2 dofs / every space-time case")
    out.assumptions += [
        "restrict/extend/restrict_rhs/restrict_matrix are linear and complete is affine with no value-dependent control "
        "flow: decided on every unit vector / unit matrix (plus one real call on the rounded exact solution)",
        "test matrices are non-symmetric integer matrices all of whose square sub-matrices are nonsingular (principal "
        "sub-matrices for the matrices with structural zeros); VERIF_SEED only selects these payloads and data coefficients",
        "index sets without repetition; bcs given as ndarray pairs, or list/tuple pairs as in test_solution_1d; scalar "
        "values only together with ndarray indices",
        "knot vectors are open, on [0,1] (time axis also [0,2]); geo.grid_eval is taken as input data (checked by C07)",
        "Multipatch.compute_dirichlet_bcs: cases and oracle shared with C14 part D",
    ]
    return out
