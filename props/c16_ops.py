"""C16 helpers: operand builders and the generic "LinearOperator == dense matrix" oracle.

An operand *kind* is one letter:
  d ndarray            r scipy csr_matrix        c scipy csc_matrix     l scipy aslinearoperator(ndarray)
  k pyiga KroneckerOperator(ndarray)  (nested pyiga operator)           b pyiga BlockOperator([[ndarray]])
  z pyiga NullOperator  i pyiga IdentityOperator  g pyiga DiagonalOperator  s pyiga SubspaceOperator
Every builder returns (object handed to pyiga, dense matrix it stands for).
"""
import warnings

import numpy as np

from ref import linops as R

MAIN_FORMS = ["v", "c", "m2C", "m2F", "m3C", "m3F", "I"]
LIGHT_FORMS = ["I", "p"]
GROUP = {"A": "apply", "T": "transpose", "TT": "transpose", "H": "adjoint",
         "scale": "compose", "sum": "compose", "prod": "compose", "lprod": "compose", "pow": "compose"}


def std_modes(forms=None, compose=True, square=False):
    """list of [mode, forms] pairs: the operator, its transpose and adjoint on all argument forms, and
    compositions with scipy operators on the identity and one payload vector"""
    key = (tuple(forms or MAIN_FORMS), bool(compose), bool(square))
    if key not in _MODES_CACHE:     # shared, never mutated (reduce_case builds new lists)
        forms = list(forms or MAIN_FORMS)
        modes = [["A", forms], ["T", forms], ["H", forms + ["rv", "rm"]]]
        if compose:
            modes += [[m, LIGHT_FORMS] for m in ("TT", "scale", "sum", "prod", "lprod")]
            if square:
                modes.append(["pow", LIGHT_FORMS])
        _MODES_CACHE[key] = modes
    return _MODES_CACHE[key]


_MODES_CACHE = {}


def make_operand(kind, m, n, idx, seed, dtype="f8", scale=1.0):
    """scale=0.5: half-integer entries (still exact in binary floating point, but not representable in an integer
    dtype -- used with integer/float32 *arguments*, where a result buffer of the argument's dtype would round)"""
    import scipy.sparse as sp
    from scipy.sparse.linalg import aslinearoperator
    from pyiga import operators as O
    M = R.payload(m, n, idx, seed) * scale
    Mt = M.astype(np.dtype(dtype))
    if kind == "d":
        return Mt.copy(), M
    if kind == "r":
        return sp.csr_matrix(Mt), M
    if kind == "c":
        return sp.csc_matrix(Mt), M
    if kind == "l":
        return aslinearoperator(Mt.copy()), M
    if kind == "k":
        return O.KroneckerOperator(Mt.copy()), M
    if kind == "b":
        return O.BlockOperator([[Mt.copy()]]), M
    if kind == "z":
        return O.NullOperator((m, n)), np.zeros((m, n))
    if m != n:
        raise ValueError("kind %r needs a square shape" % kind)
    if kind == "i":
        return O.IdentityOperator(n), np.eye(n)
    if kind == "g":
        dg = R.payload(1, n, idx, seed)[0]
        return O.DiagonalOperator(dg.copy()), np.diag(dg)
    if kind == "s":
        I = np.eye(n)
        if n == 1:
            return O.SubspaceOperator((I,), (M.copy(),)), M
        B1, B2 = R.payload(1, 1, idx, seed), R.payload(n - 1, n - 1, idx + 1, seed)
        return O.SubspaceOperator((I[:, :1], I[:, 1:]), (B1, B2)), R.block_diag([B1, B2])
    raise ValueError(kind)


# ------------------------------------------------------------------------------------------------
# generic oracle
# ------------------------------------------------------------------------------------------------

def derive(op, D, mode, seed):
    """the derived operator of `mode` and the dense matrix it must equal"""
    from scipy.sparse.linalg import aslinearoperator
    M, N = D.shape
    if mode == "A":
        return op, D
    if mode == "T":
        return op.T, D.T
    if mode == "TT":
        return op.T.T, D
    if mode == "H":
        return op.H, D.T              # real payloads: adjoint == transpose
    if mode == "scale":
        return (-3) * op, -3 * D
    if mode == "sum":
        P = R.payload(M, N, 7, seed)
        return op + aslinearoperator(P), D + P
    if mode == "prod":
        P = R.payload(N, 2, 8, seed)
        return op * aslinearoperator(P), D @ P
    if mode == "lprod":
        P = R.payload(2, M, 9, seed)
        return aslinearoperator(P) * op, P @ D
    if mode == "pow":
        return op ** 2, D @ D
    raise ValueError(mode)


def form_calls(Q, E, form, seed, base=None):
    """yield (label, thunk, expected) -- the implementation calls of one argument form.
    Vector forms run over *every* unit vector (decides the linear map), multi-column forms over the
    disjoint k-column windows of the identity (every unit vector once) plus a dense distinct-integer payload;
    form "I" is the full identity, which decides the multi-column map in one call."""
    M, N = E.shape
    I = np.eye(N)
    if form == "v":
        for j in range(N):
            yield "dot(e_%d)" % j, (lambda j=j: Q.dot(I[:, j].copy())), E[:, j]
        x = R.xvec(N, seed)
        yield "@ x(n,)", (lambda: Q @ x), E @ x
        yield "matvec(x(n,))", (lambda: Q.matvec(x)), E @ x
        # other real dtypes of the argument (integer payload: exactly representable, so the result is exact too)
        for dt in (np.int64, np.float32, np.int32):
            xd = x.astype(dt)
            yield "@ x(n,) dtype=%s" % np.dtype(dt).name, (lambda xd=xd: Q @ xd), E @ x
    elif form == "p":
        x = R.xvec(N, seed)
        yield "dot(x(n,))", (lambda: Q.dot(x)), E @ x
    elif form == "c":
        for j in range(N):
            yield "dot(e_%d as (n,1))" % j, (lambda j=j: Q.dot(I[:, j:j + 1].copy())), E[:, j:j + 1]
        x = R.xvec(N, seed).reshape(N, 1)
        yield "matvec(x(n,1))", (lambda: Q.matvec(x)), E @ x
    elif form in ("m2C", "m2F", "m3C", "m3F"):
        k = int(form[1])
        conv = np.ascontiguousarray if form[2] == "C" else np.asfortranarray
        starts = range(0, N, k)       # disjoint windows: every unit vector is used once
        for j in starts:
            X = conv(I[:, [(j + c) % N for c in range(k)]])
            yield "dot(I[:,%d..+%d] %s-ordered)" % (j, k, form[2]), (lambda X=X: Q.dot(X)), E @ X
        X = conv(R.xmat(N, k, seed))
        yield "@ X(n,%d) %s-ordered" % (k, form[2]), (lambda: Q @ X), E @ X
        yield "matmat(X(n,%d) %s-ordered)" % (k, form[2]), (lambda: Q.matmat(X)), E @ X
        for dt in (np.int64, np.float32):
            Xd = conv(X.astype(dt))
            yield "@ X(n,%d) %s-ordered dtype=%s" % (k, form[2], np.dtype(dt).name), (lambda Xd=Xd: Q @ Xd), E @ X
    elif form == "d":       # argument dtypes only (used with half-integer operands)
        x = R.xvec(N, seed)
        X = R.xmat(N, 2, seed)
        for dt in (np.int64, np.float32, np.int32):
            xd = x.astype(dt)
            yield "dot(x(n,) dtype=%s)" % np.dtype(dt).name, (lambda xd=xd: Q.dot(xd)), E @ x
            Xd = X.astype(dt)
            yield "dot(X(n,2) dtype=%s)" % np.dtype(dt).name, (lambda Xd=Xd: Q.dot(Xd)), E @ X
    elif form == "I":
        yield "dot(eye(n))", (lambda: Q.dot(I)), E
        yield "dot(eye(n) F-ordered)", (lambda: Q.dot(np.asfortranarray(I))), E
    elif form == "rv":      # adjoint through the LinearOperator interface of the *base* operator
        Mb = base.shape[0]
        Ib = np.eye(Mb)
        for j in range(Mb):
            yield "rmatvec(e_%d)" % j, (lambda j=j: base.rmatvec(Ib[:, j].copy())), E[:, j]
    elif form == "rm":
        Ib = np.eye(base.shape[0])
        yield "rmatmat(eye)", (lambda: base.rmatmat(Ib)), E
    else:
        raise ValueError(form)


def _excname(e):
    return type(e).__name__


def linop_problems(part, op, D, modes, seed, tag=""):
    """Compare the LinearOperator `op` with the dense matrix D for every [mode, forms] pair.
    Returns (problems, ncalls); a problem is (key, message, mode, form)."""
    probs, ncalls = [], 0
    vt = (":" + tag) if tag else ""
    if tuple(op.shape) != tuple(D.shape):
        probs.append(("%s:apply:shape%s" % (part, vt), "operator.shape=%s, dense definition has shape %s"
                      % (tuple(op.shape), D.shape), "A", None))
        return probs, ncalls
    for mode, forms in modes:
        grp = GROUP[mode]
        if mode == "pow" and D.shape[0] != D.shape[1]:
            continue
        with warnings.catch_warnings():
            warnings.simplefilter("ignore")
            try:
                Q, E = derive(op, D, mode, seed)
                qshape = tuple(Q.shape)
            except Exception as e:
                probs.append(("%s:%s:exception:%s" % (part, grp, _excname(e)),
                              "building mode %s of the operator raised %r" % (mode, e), mode, forms[0] if forms else None))
                continue
            if qshape != E.shape:
                probs.append(("%s:%s:shape%s" % (part, grp, vt), "mode %s: shape %s, dense definition %s"
                              % (mode, qshape, E.shape), mode, forms[0] if forms else None))
                continue
            kept = []
            for form in forms:
                if form in ("rv", "rm"):
                    if mode != "H":
                        continue
                for label, thunk, exp in form_calls(Q, E, form, seed, base=op):
                    ncalls += 1
                    try:
                        got = thunk()
                        got = np.asarray(got)
                    except Exception as e:
                        probs.append(("%s:%s:exception:%s" % (part, grp, _excname(e)),
                                      "mode %s %s raised %r" % (mode, label, e), mode, form))
                        break
                    if got.shape != exp.shape:
                        probs.append(("%s:%s:shape%s" % (part, grp, vt), "mode %s %s returned shape %s, expected %s"
                                      % (mode, label, got.shape, exp.shape), mode, form))
                        break
                    if not np.array_equal(got, exp):
                        bad = np.argwhere(got != exp)[0].tolist()
                        probs.append(("%s:%s:value%s" % (part, grp, vt),
                                      "mode %s %s differs from the dense definition, first at %s: got %r expected %r"
                                      % (mode, label, bad, got[tuple(bad)].item(), exp[tuple(bad)].item()), mode, form))
                        break
                    kept.append((label, form, got, exp))
            # results of earlier applications, still held by the caller, must not have been changed by later ones
            for label, form, got, exp in kept:
                if not np.array_equal(got, exp):
                    probs.append(("%s:%s:aliased-result%s" % (part, grp, vt),
                                  "mode %s: the result of %s, kept by the caller, no longer equals the dense definition after "
                                  "later applications of the same operator" % (mode, label), mode, form))
                    break
    return probs, ncalls


NESTED_NAME = {"z": "null", "i": "identity", "g": "diagonal", "s": "subspace"}


def _adjoint_unsupported(obj):
    try:
        with warnings.catch_warnings():
            warnings.simplefilter("ignore")
            obj.H.dot(np.zeros(obj.shape[0]))
    except NotImplementedError:
        return True
    except Exception:
        return False
    return False


def attribute_nested(probs, operands):
    """An adjoint that fails with NotImplementedError because a *nested* null/identity/diagonal/subspace operand
    has no adjoint of its own is filed under that operand's key (verified on the operand alone), so that one
    defect keeps one key.  Also keeps at most one problem per key and case."""
    out, seen = [], set()
    for key, msg, mode, form in probs:
        if key.endswith(":adjoint:exception:NotImplementedError"):
            for kind, obj in operands:
                if kind in NESTED_NAME and _adjoint_unsupported(obj):
                    key = "%s:adjoint:exception:NotImplementedError" % NESTED_NAME[kind]
                    msg += " (the nested %s operand alone has no adjoint either)" % NESTED_NAME[kind]
                    break
        if key in seen:
            continue
        seen.add(key)
        out.append((key, msg, mode, form))
    return out


def digest(D):
    import zlib
    D = np.ascontiguousarray(D, dtype=np.float64)
    return "%s:%08x" % ("x".join(map(str, D.shape)), zlib.crc32(D.tobytes()))


def nontrivial_matrix(D):
    """measured non-triviality of an expected dense matrix: at least 2x1/1x2... entries: size >= 4 and
    at least 3 distinct non-zero values (so that index permutations/transpositions are observable)"""
    nz = np.unique(D[D != 0])
    return bool(D.size >= 4 and nz.size >= 3)


# ------------------------------------------------------------------------------------------------
# parts: operators
# ------------------------------------------------------------------------------------------------

def kron_problems(case):
    from pyiga import operators as O
    seed = case.get("seed", 0)
    dtypes = case.get("dtypes") or ["f8"] * len(case["factors"])
    try:
        pairs = [make_operand(k, m, n, i, seed, dt) for i, ((m, n, k), dt) in enumerate(zip(case["factors"], dtypes))]
    except Exception as e:
        return [("kron:operand:exception:%s" % _excname(e), "building a nested operand raised %r" % (e,), None, None)], {}
    objs = [p[0] for p in pairs]
    D = R.kron_all([p[1] for p in pairs])
    alldense = all(k == "d" for _, _, k in case["factors"])
    allsquare = all(m == n for m, n, _ in case["factors"])
    branch = "tensordot" if (alldense or not allsquare) else "linops"
    try:
        op = O.KroneckerOperator(*objs)
    except Exception as e:
        return [("kron:construct:exception:%s" % _excname(e), "KroneckerOperator(...) raised %r" % (e,), None, None)], {}
    probs, n = linop_problems("kron", op, D, case["modes"], seed, tag=branch)
    sel = [m for m in ("A", "T") if any(mm[0] == m for mm in case["modes"])]
    if not probs and len(objs) >= 2 and not case.get("dtypes") and sel:
        # the same factors with half-integer entries, applied to integer / float32 arguments
        try:
            pairs2 = [make_operand(k, m, n_, i, seed, scale=0.5) for i, (m, n_, k) in enumerate(case["factors"])]
            op2 = O.KroneckerOperator(*[p[0] for p in pairs2])
            D2 = R.kron_all([p[1] for p in pairs2])
            probs2, n2 = linop_problems("kron", op2, D2, [[m, ["d"]] for m in sel], seed, tag=branch + ":argdtype")
            probs += probs2
            n += n2
        except Exception as e:
            probs.append(("kron:argdtype:exception:%s" % _excname(e), "half-integer operands raised %r" % (e,), "A", "d"))
    probs = attribute_nested(probs, [(f[2], o) for f, o in zip(case["factors"], objs)])
    return probs, {"calls": n, "nontrivial": nontrivial_matrix(D) and len(objs) >= 2, "digest": digest(D),
                   "branch": branch}


def block_problems(case):
    from pyiga import operators as O
    seed = case.get("seed", 0)
    hs, ws, kinds = case["heights"], case["widths"], case["kinds"]
    Mb, Nb = len(hs), len(ws)
    rows, drows = [], []
    try:
        for i in range(Mb):
            row, drow = [], []
            for j in range(Nb):
                obj, dn = make_operand(kinds[i * Nb + j], hs[i], ws[j], i * Nb + j, seed)
                row.append(obj)
                drow.append(dn)
            rows.append(row)
            drows.append(drow)
    except Exception as e:
        return [("block:operand:exception:%s" % _excname(e), "building a block raised %r" % (e,), None, None)], {}
    D = R.block_dense(drows)
    try:
        op = O.BlockOperator(rows)
    except Exception as e:
        return [("block:construct:exception:%s" % _excname(e), "BlockOperator(...) raised %r" % (e,), None, None)], {}
    probs, n = linop_problems("block", op, D, case["modes"], seed)
    # BlockOperator drops null blocks; with only null blocks it *returns* a NullOperator
    probs = attribute_nested(probs, [("z", op)] if isinstance(op, O.NullOperator) else [])
    nnull = kinds.count("z")
    return probs, {"calls": n, "nontrivial": nontrivial_matrix(D) and Mb * Nb >= 2 and 0 < nnull < Mb * Nb,
                   "digest": digest(D)}


def blockdiag_problems(case):
    from pyiga import operators as O
    seed = case.get("seed", 0)
    try:
        pairs = [make_operand(k, m, n, i, seed) for i, (m, n, k) in enumerate(case["blocks"])]
    except Exception as e:
        return [("blockdiag:operand:exception:%s" % _excname(e), "building a block raised %r" % (e,), None, None)], {}
    D = R.block_diag([p[1] for p in pairs])
    try:
        op = O.BlockDiagonalOperator(*[p[0] for p in pairs])
    except Exception as e:
        return [("blockdiag:construct:exception:%s" % _excname(e), "BlockDiagonalOperator(...) raised %r" % (e,), None, None)], {}
    # BlockOperator and BlockDiagonalOperator share BaseBlockOperator: same key prefix for what they share
    probs, n = linop_problems("block", op, D, case["modes"], seed)
    probs = attribute_nested(probs, [(b[2], p[0]) for b, p in zip(case["blocks"], pairs)])
    return probs, {"calls": n, "nontrivial": nontrivial_matrix(D) and len(pairs) >= 2, "digest": digest(D)}


def simple_problems(case):
    """DiagonalOperator / IdentityOperator / NullOperator"""
    from pyiga import operators as O
    seed = case.get("seed", 0)
    part = case["part"]
    try:
        if part == "diagonal":
            n = case["n"]
            dg = R.payload(1, n, 0, seed)[0]
            arg = {"vec": dg.copy(), "col": dg.reshape(n, 1).copy(), "row": dg.reshape(1, n).copy()}[case["diagform"]]
            op, D = O.DiagonalOperator(arg), np.diag(dg)
        elif part == "identity":
            op, D = O.IdentityOperator(case["n"]), np.eye(case["n"])
        elif part == "null":
            op, D = O.NullOperator(tuple(case["shape"])), np.zeros(tuple(case["shape"]))
        else:
            raise ValueError(part)
    except ValueError:
        raise
    except Exception as e:
        return [("%s:construct:exception:%s" % (part, _excname(e)), "constructor raised %r" % (e,), None, None)], {}
    probs, n = linop_problems(part, op, D, case["modes"], seed)
    probs = attribute_nested(probs, [])
    return probs, {"calls": n, "nontrivial": D.size >= 4, "digest": digest(D)}


def subspace_problems(case):
    """SubspaceOperator for a family of coordinate subspaces: subspace j = the index list case['subsets'][j],
    P_j = I[:, subset] (0/1 prolongation), B_j a distinct-integer non-symmetric square payload"""
    import scipy.sparse as sp
    from scipy.sparse.linalg import aslinearoperator
    from pyiga import operators as O
    seed = case.get("seed", 0)
    n = case["n"]
    I = np.eye(n)
    Ps, Bs, Pd, Bd = [], [], [], []
    for j, S in enumerate(case["subsets"]):
        P = I[:, list(S)].copy()
        B = R.payload(len(S), len(S), j, seed)
        Pd.append(P)
        Bd.append(B)
        Ps.append(sp.csr_matrix(P) if case["pkind"] == "r" else P.copy())
        bk = case["bkind"]
        Bs.append({"d": lambda: B.copy(), "r": lambda: sp.csr_matrix(B), "l": lambda: aslinearoperator(B.copy()),
                   "k": lambda: O.KroneckerOperator(B.copy())}[bk]())
    D = R.subspace_dense(Pd, Bd)
    try:
        op = O.SubspaceOperator(Ps, Bs)
    except Exception as e:
        return [("subspace:construct:exception:%s" % _excname(e), "SubspaceOperator(...) raised %r" % (e,), None, None)], {}
    probs, ncalls = linop_problems("subspace", op, D, case["modes"], seed)
    probs = attribute_nested(probs, [])
    overlapping = len({i for S in case["subsets"] for i in S}) < sum(len(S) for S in case["subsets"])
    return probs, {"calls": ncalls, "nontrivial": nontrivial_matrix(D) and (len(case["subsets"]) >= 2) and overlapping,
                   "digest": digest(D)}
