"""C04 -- hierarchical spaces stay well-formed under every refinement history.

E1: breadth-first exploration of the real HSpace under refine() events (every non-empty subset of the
currently active cells below the level bound, all levels at once) to closure; every transition is
compared with the declarative reference model (ref/hmodel.py), every distinct state has its invariants
checked.  Other properties (C03, C05, C11, C17) reuse `state_graph` to quantify over all states.
"""
import itertools
import os

import numpy as np

from mc import explore, par
from mc.outcome import Outcome
from ref import hmodel

ID = "C04"
LEVEL = "model_checking"

CONTAINERS = ("set", "list", "tuple", "frozenset")
_MK = {"set": set, "list": list, "tuple": tuple, "frozenset": frozenset}

INF = float("inf")


def _disp(d):
    return np.inf if d in (None, "inf", INF) else int(d)


def rows(tier):
    """mesh rows: dim, coarse cells per axis, level bound (cells on level L are never marked)"""
    R = []
    def add(name, k, L, ps, disps, mark_trunc=(False,), maxmark=None, mult=None, breaks=None):
        for p in ps:
            for d in disps:
                for mt in mark_trunc:
                    R.append({"row": name, "k": list(k), "L": L, "p": list(p) if isinstance(p, (list, tuple)) else [p] * len(k),
                              "disparity": d, "mark_truncate": mt, "maxmark": maxmark, "mult": mult, "breaks": breaks})
    if tier == "quick":
        add("1D-k3-L2", (3,), 2, (1, 2, 3), ("inf", 1, 2), (False, True))
        add("1D-k2-L3", (2,), 3, (1, 2), ("inf", 1))
        add("1D-k2-L3", (2,), 3, (2,), (2,))
        add("2D-2x1-L2", (2, 1), 2, (1, 2), ("inf", 1))
        add("2D-2x2-L1", (2, 2), 1, (1, 2, (2, 1)), ("inf", 1), (False, True))
        # coarse knot vectors with repeated interior knots (multiplicity 2)
        add("1D-k3-L2-m2", (3,), 2, (2, 3), ("inf", 1), mult=[2])
        add("2D-2x2-L1-m2", (2, 2), 1, ((2, 3),), ("inf",), mult=[2, 1])
        # the same degree and number of dofs per direction, but different (graded) breakpoints
        add("2D-2x2-L1-graded", (2, 2), 1, (2,), ("inf", 1), breaks=[[0.0, 0.5, 1.0], [0.0, 0.3, 1.0]])
        add("1D-k3-L2-graded", (3,), 2, (2,), ("inf",), breaks=[[0.0, 0.2, 0.7, 1.0]])
    else:
        add("2D-2x2-L1-graded", (2, 2), 1, (1, 2, 3), ("inf", 1), (False, True), breaks=[[0.0, 0.5, 1.0], [0.0, 0.3, 1.0]])
        add("2D-2x1-L2-graded", (2, 1), 2, (2,), ("inf", 1), breaks=[[0.0, 0.35, 1.0], [-1.0, 2.0]])
        add("1D-k3-L2-graded", (3,), 2, (2, 3), ("inf", 1), breaks=[[0.0, 0.2, 0.7, 1.0]])
        add("1D-k3-L2-m2", (3,), 2, (2, 3, 4), ("inf", 1, 2), (False, True), mult=[2])
        add("1D-k3-L2-m3", (3,), 2, (3,), ("inf", 1), mult=[3])
        add("2D-2x1-L2-m2", (2, 1), 2, ((2, 3), (3, 2)), ("inf", 1), mult=[2, 1])
        add("2D-2x2-L1-m2", (2, 2), 1, ((2, 3), (3, 3)), ("inf", 1), mult=[2, 2])
        add("1D-k3-L2", (3,), 2, (1, 2, 3, 4), ("inf", 1, 2, 3), (False, True))
        add("1D-k4-L2", (4,), 2, (1, 2, 3), ("inf", 1, 2), (False, True))
        add("1D-k2-L3", (2,), 3, (1, 2, 3, 4), ("inf", 1, 2, 3), (False, True))
        add("1D-k3-L3", (3,), 3, (2,), ("inf", 1), (False,), maxmark=2)
        add("2D-2x1-L2", (2, 1), 2, (1, 2, 3, (2, 1)), ("inf", 1, 2), (False, True))
        add("2D-2x2-L1", (2, 2), 1, (1, 2, 3, (2, 1)), ("inf", 1, 2), (False, True))
        add("2D-2x2-L2", (2, 2), 2, (2,), ("inf", 1), (False,), maxmark=1)
        add("3D-1x1x1-L2", (1, 1, 1), 2, (1,), ("inf", 1), (False,), maxmark=2)
    return R


def row_name(cfg):
    return "%s:p%s:d%s:%s" % (cfg["row"], "x".join(map(str, cfg["p"])), cfg["disparity"],
                              "tmark" if cfg["mark_truncate"] else "dmark")


# ------------------------------------------------------------------------------------------------------
# the system under exploration
# ------------------------------------------------------------------------------------------------------

_G = {}


def setup(cfg):
    from pyiga import bspline, hierarchical
    _G.clear()
    mult = cfg.get("mult") or [1] * len(cfg["k"])
    model = hmodel.HModel(cfg["p"], cfg["k"], mults=mult, breaks=cfg.get("breaks"))
    if cfg.get("breaks"):
        # non-uniform coarse breakpoints: the coarse knot vectors are built from the model's level-0 knots
        kvs = tuple(bspline.KnotVector(np.array(model.knots(0, d), dtype=float), p) for d, p in enumerate(cfg["p"]))
    else:
        kvs = tuple(bspline.make_knots(p, 0.0, 1.0, k, mult=m) for p, k, m in zip(cfg["p"], cfg["k"], mult))
    _G.update(cfg=cfg, kvs=kvs, H=hierarchical, model=model, disp=_disp(cfg["disparity"]))


def marks_of(ev):
    """event (tuple of (lv, cell)) -> dict lv -> container of cells; the container type rotates
    deterministically with the event so every container is used on many state shapes"""
    ct = CONTAINERS[(len(ev) + sum(lv + sum(c) for lv, c in ev)) % 4]
    d = {}
    for lv, c in ev:
        d.setdefault(lv, []).append(tuple(c))
    return {lv: _MK[ct](cs) for lv, cs in d.items()}, ct


class State:
    __slots__ = ("hs", "refined", "error", "last")

    def __init__(self):
        self.hs = None
        self.refined = []     # model state: per level the set of refined cells, taken from what refine() returned
        self.error = None
        self.last = None      # (marks, returned) of the last transition


def new_space(cfg=None, truncate=False, bdspecs="default"):
    cfg = cfg or _G["cfg"]
    if bdspecs == "default":
        bdspecs = [(0, 0)]          # one Dirichlet face: makes the lazily cached Dirichlet index structures non-trivial
    return _G["H"].HSpace(_G["kvs"], truncate=truncate, disparity=_G["disp"], bdspecs=bdspecs)


def apply_event(st, ev):
    marks, ct = marks_of(ev)
    try:
        ret = st.hs.refine(marks, truncate=True) if _G["cfg"]["mark_truncate"] else st.hs.refine(marks)
    except Exception as e:
        st.error = "refine(%r) [%s] raised %s: %s" % (marks, ct, type(e).__name__, e)
        st.last = (marks, None)
        return st
    st.last = (marks, ret)
    try:
        for lv, cs in (ret or {}).items():
            while len(st.refined) <= lv:
                st.refined.append(set())
            st.refined[lv] |= {tuple(int(x) for x in c) for c in cs}
    except Exception as e:
        st.error = "refine returned an unusable value %r (%s)" % (ret, e)
    return st


def build(history):
    st = State()
    st.hs = new_space()
    for ev in history:
        apply_event(st, ev)
        if st.error:
            break
    return st


def enabled(st):
    if st.error:
        return []
    cfg = _G["cfg"]
    L = cfg["L"]
    cells = []
    for lv in range(min(st.hs.numlevels, L)):
        for c in sorted(st.hs.active_cells(lv)):
            cells.append((lv, tuple(int(x) for x in c)))
    mm = cfg.get("maxmark")
    evs = []
    if mm is None:
        for r in range(1, len(cells) + 1):
            evs.extend(itertools.combinations(cells, r))
    else:
        for r in range(1, min(mm, len(cells)) + 1):
            evs.extend(itertools.combinations(cells, r))
        # plus all cells of one level at once, and all markable cells at once
        for lv in sorted({lv for lv, _ in cells}):
            whole = tuple(c for c in cells if c[0] == lv)
            if len(whole) > mm:
                evs.append(whole)
        if len(cells) > mm and tuple(cells) not in evs:
            evs.append(tuple(cells))
    return evs


def warm(hs):
    """touch every lazily cached index structure of the space (as an adaptive loop that assembles, smooths or
    prolongates between two refinements would)"""
    try:
        hs.ravel_global
        hs.index_dirichlet
        hs.ravel_dirichlet
        hs.dirichlet_dofs()
    except Exception:
        pass


def cached_observables(hs):
    """what the lazily cached structures let a user observe; must not depend on WHEN the caches were filled"""
    obs = {}
    obs["ravel_global"] = [[np.asarray(a).tolist() for a in lvl] for lvl in hs.ravel_global]
    obs["dirichlet_dofs"] = [np.asarray(hs.dirichlet_dofs(lv)).tolist() for lv in range(hs.numlevels)]
    obs["non_dirichlet_dofs"] = list(map(int, hs.non_dirichlet_dofs()))
    for strat in ("new", "func_supp", "cell_supp"):
        obs["smooth:" + strat] = [np.asarray(a).tolist() for a in hs.indices_to_smooth(strat)]
    if hs.dim >= 2:
        obs["boundary_map"] = [np.asarray(hs.boundary((ax, sd))[1]).tolist() for ax in range(hs.dim) for sd in (0, 1)]
    return obs


def step(st, ev, history):
    import copy
    warm(st.hs)                 # the successor is produced from an object whose caches are populated
    s2 = State()
    s2.hs = copy.deepcopy(st.hs)
    s2.refined = [set(x) for x in st.refined]
    return apply_event(s2, ev)


def canon(st):
    if st.error:
        return ("error", st.error)
    hs = st.hs
    return (hs.numlevels,
            tuple(tuple(sorted(hs.hmesh.active[l])) for l in range(hs.numlevels)),
            tuple(tuple(sorted(hs.hmesh.deactivated[l])) for l in range(hs.numlevels)),
            tuple(tuple(sorted(hs.actfun[l])) for l in range(hs.numlevels)),
            tuple(tuple(sorted(hs.deactfun[l])) for l in range(hs.numlevels)))


# ------------------------------------------------------------------------------------------------------
# oracles
# ------------------------------------------------------------------------------------------------------

def _norm(cells):
    return {tuple(int(x) for x in c) for c in cells}


def transition_problems(s, ev, s2, history):
    """the successor produced by the implementation vs. the declarative model"""
    M = _G["model"]
    if s2.error:
        kind = s2.error.split(" raised ")[-1].split(":")[0] if " raised " in s2.error else "bad-return"
        return [("refine:exception:%s" % kind, s2.error)]
    probs = []
    marks, ret = s2.last
    hs0, hs = s.hs, s2.hs
    # what refine() returns: superset of the marks, cells active before the call, equal for disparity inf
    act_before = [_norm(hs0.active_cells(l)) for l in range(hs0.numlevels)]
    for lv, cs in marks.items():
        if not _norm(cs) <= _norm(ret.get(lv, ())):
            probs.append(("refine:returned-not-superset", "returned cells on level %d do not contain the marked ones" % lv))
    for lv, cs in ret.items():
        extra = _norm(cs) - (act_before[lv] if lv < len(act_before) else set())
        if extra:
            probs.append(("refine:returned-inactive", "returned cells %s on level %d were not active before the call" % (sorted(extra)[:3], lv)))
        if _G["disp"] == np.inf and _norm(cs) != _norm(marks.get(lv, ())):
            probs.append(("refine:returned-differs", "disparity=inf but returned cells differ from the marks on level %d" % lv))
    if probs:
        return probs
    L = hs.numlevels
    need = max([lv for lv, cs in enumerate(s2.refined) if cs] + [-1]) + 2
    if L < max(need, 1):
        return [("levels", "numlevels=%d but cells of level %d have been refined" % (L, need - 2))]
    try:
        active, ref = M.cells(s2.refined, L)
    except ValueError as e:
        return [("cells:inconsistent", str(e))]
    for l in range(L):
        if _norm(hs.hmesh.active[l]) != active[l] or _norm(hs.hmesh.deactivated[l]) != ref[l]:
            probs.append(("cells:successor", "level %d: active/deactivated cells differ from old - marked + children(marked)" % l))
            return probs
    # differential oracle: the state reached from a warm object (caches filled before the refinement) must be
    # observably the same as the state reached from the initial space by replaying the history on a fresh object
    if history is not None and not probs:
        try:
            fresh = build(list(history) + [ev])
            if not fresh.error:
                a_, b_ = cached_observables(hs), cached_observables(fresh.hs)
                for k in a_:
                    if a_[k] != b_[k]:
                        probs.append(("stale-cache:%s" % k.split(":")[0], "after refining an object whose index caches were already "
                                      "filled, %s differs from the same space built from scratch" % k))
                        break
        except Exception as e:
            probs.append(("stale-cache:exception:%s" % type(e).__name__, "cached index query raised %r on the refined warm object" % (e,)))
    actf, deactf = M.functions(s2.refined, L)
    for l in range(L):
        a, d = _norm(hs.actfun[l]), _norm(hs.deactfun[l])
        if a != actf[l]:
            probs.append(("functions:active", "level %d: active functions %s.. differ from the rule (supp in Omega_l, not in Omega_l+1) %s.. [missing %s, extra %s]"
                          % (l, sorted(a)[:4], sorted(actf[l])[:4], sorted(actf[l] - a)[:3], sorted(a - actf[l])[:3])))
            break
        if d != deactf[l]:
            probs.append(("functions:deactivated", "level %d: deactivated functions differ from the rule (supp in Omega_l and Omega_l+1) [missing %s, extra %s]"
                          % (l, sorted(deactf[l] - d)[:3], sorted(d - deactf[l])[:3])))
            break
    return probs


def _close_ext(got, want):
    return len(got) == len(want) and all(abs(g[0] - w[0]) <= 1e-14 and abs(g[1] - w[1]) <= 1e-14 for g, w in zip(got, want))


def state_problems(st, history, deep=True):
    if st.error:
        return []
    M = _G["model"]
    hs = st.hs
    L = hs.numlevels
    probs = []
    refined = st.refined
    try:
        if not M.tiling_ok(refined, L):
            probs.append(("tiling", "active cells do not tile the domain exactly once"))
        active, ref = M.cells(refined, L)
        actf, deactf = M.functions(refined, L)
        canon_f = M.canonical(actf)
        canon_c = [(l, c) for l in range(L) for c in sorted(active[l])]
        got_f = [(int(l), tuple(int(x) for x in f)) for l, f in hs.active_functions(flat=True)]
        got_c = [(int(l), tuple(int(x) for x in c)) for l, c in hs.active_cells(flat=True)]
        if got_f != canon_f:
            probs.append(("order:functions", "active_functions(flat=True) is not the canonical (level, lexicographic) list"))
        if got_c != canon_c:
            probs.append(("order:cells", "active_cells(flat=True) is not the canonical (level, lexicographic) list"))
        if int(hs.numdofs) != len(canon_f) or tuple(hs.numactive) != tuple(len(a) for a in actf):
            probs.append(("numdofs", "numdofs/numactive = %s/%s, model %d" % (hs.numdofs, hs.numactive, len(canon_f))))
        if int(hs.total_active_cells) != len(canon_c):
            probs.append(("numcells", "total_active_cells=%s, model %d" % (hs.total_active_cells, len(canon_c))))
        if probs:
            return probs
        R_hb = M.rep_hb(refined, L)
        R_thb = M.rep_thb(refined, L)
        n = len(canon_f)
        if np.linalg.matrix_rank(R_hb) != n:
            probs.append(("independence", "the active functions are linearly dependent (rank %d < %d)" % (np.linalg.matrix_rank(R_hb), n)))
        tol = 1e-12
        G_hb = hs.represent_fine(truncate=False).toarray()
        G_thb = hs.represent_fine(truncate=True).toarray()
        if G_hb.shape != R_hb.shape or np.abs(G_hb - R_hb).max() > tol:
            probs.append(("represent_fine:hb", "represent_fine(truncate=False) differs from exact knot insertion"))
        if G_thb.shape != R_thb.shape or np.abs(G_thb - R_thb).max() > tol:
            probs.append(("represent_fine:thb", "represent_fine(truncate=True) differs from the reference truncation"))
        else:
            if G_thb.min() < 0:
                probs.append(("thb:nonneg", "truncated basis has a negative coefficient %.3g" % G_thb.min()))
            if np.abs(G_thb.sum(axis=1) - 1).max() > 1e-13:
                probs.append(("thb:partition", "truncated basis does not sum to one (%.3g)" % np.abs(G_thb.sum(axis=1) - 1).max()))
        T = hs.thb_to_hb().toarray()
        Ti = hs.hb_to_thb().toarray()
        if np.abs(T @ Ti - np.eye(n)).max() > tol or np.abs(Ti @ T - np.eye(n)).max() > tol:
            probs.append(("thb<->hb:inverse", "thb_to_hb and hb_to_thb are not mutually inverse"))
        if np.abs(R_hb @ T - R_thb).max() > tol:
            probs.append(("thb_to_hb:function", "thb_to_hb does not map THB coefficients to HB coefficients of the same function"))
        if np.abs(R_thb @ Ti - R_hb).max() > tol:
            probs.append(("hb_to_thb:function", "hb_to_thb does not map HB coefficients to THB coefficients of the same function"))
        d = _G["disp"]
        if d != np.inf and not _G["cfg"]["mark_truncate"]:
            gap = M.max_level_gap(refined, L)
            if gap > d:
                probs.append(("disparity", "an active function is non-zero on an active cell %d levels finer (disparity %d)" % (gap, d)))
        if deep:
            Z = hs.incidence_matrix().toarray()
            Zr = M.incidence(refined, L)
            if Z.shape != Zr.shape or not np.array_equal(Z != 0, Zr != 0) or not np.array_equal(Z, Zr):
                probs.append(("incidence", "incidence_matrix differs from the geometric incidence"))
            for (l, f) in canon_f:
                ext = tuple((M.cell_extent(l, tuple(c0 for c0, _ in [M.supp1d(l, dd, f[dd]) for dd in range(M.dim)]))[dd][0],
                             M.cell_extent(l, tuple(c1 - 1 for _, c1 in [M.supp1d(l, dd, f[dd]) for dd in range(M.dim)]))[dd][1])
                            for dd in range(M.dim))
                got = tuple((float(a), float(b)) for a, b in hs.function_support(l, f))
                if not _close_ext(got, ext):
                    probs.append(("function_support", "function_support(%d,%s)=%s, geometry %s" % (l, f, got, ext)))
                    break
                S = M.support_cells(l, f)
                want = {}
                for lc in range(l, L):
                    cs = {c for c in active[lc] if M.ancestor(c, lc - l) in S}
                    if cs:
                        want[lc] = cs
                fl = [[] for _ in range(L)]
                fl[l] = [f]
                gotc = {int(k): _norm(v) for k, v in hs.compute_supports(fl).items() if v}
                if gotc != want:
                    probs.append(("compute_supports", "compute_supports of function (%d,%s) is not the set of active cells in its support" % (l, f)))
                    break
            for (l, c) in canon_c:
                got = tuple((float(a), float(b)) for a, b in hs.cell_extents(l, c))
                if not _close_ext(got, M.cell_extent(l, c)):
                    probs.append(("cell_extents", "cell_extents(%d,%s)=%s, geometry %s" % (l, c, got, M.cell_extent(l, c))))
                    break
    except Exception as e:
        import traceback
        tb = traceback.extract_tb(e.__traceback__)
        where = "%s:%d" % (tb[-1].filename.split("/")[-1], tb[-1].lineno)
        if "/verif/" in tb[-1].filename and "hmodel" not in tb[-1].filename and "props" in tb[-1].filename:
            raise
        probs.append(("state:exception:%s" % type(e).__name__, "query raised %r at %s" % (e, where)))
    return probs


def on_state(st, history):
    return state_problems(st, history)


# ------------------------------------------------------------------------------------------------------
# refine_region (predicates) as extra deterministic histories
# ------------------------------------------------------------------------------------------------------

PREDICATES = {
    "corner": lambda *x: all(xi < 0.5 for xi in x),
    "band": lambda *x: abs(sum(x) / len(x) - 0.5) < 0.26,
    "centre": lambda *x: all(abs(xi - 0.5) < 0.2 for xi in x),
    "xlow": lambda *x: x[0] < 0.4,           # x is the LAST parameter axis: checks the documented argument order
}


def region_case_problems(case):
    """refine_region(lv, pred) for lv = 0..depth-1 with a predicate; compare with marking the cells whose
    centre (in x,y[,z] order) satisfies the predicate"""
    cfg = case["cfg"]
    setup(cfg)
    M = _G["model"]
    pred = PREDICATES[case["pred"]]
    st = State()
    st.hs = new_space()
    probs = []
    try:
        for lv in range(case["depth"]):
            if lv >= st.hs.numlevels:
                break
            want = set()
            for c in _norm(st.hs.active_cells(lv)):
                ext = M.cell_extent(lv, c)
                centre = tuple(0.5 * (lo + hi) for lo, hi in reversed(ext))   # x first
                if pred(*centre):
                    want.add(c)
            if not want:
                continue
            ret = st.hs.refine_region(lv, pred)
            got = _norm(ret.get(lv, ()))
            if _G["disp"] == np.inf and got != want:
                probs.append(("refine_region:cells", "refine_region(%d,%s) refined %s, cells with centre in the region: %s" % (lv, case["pred"], sorted(got)[:4], sorted(want)[:4])))
                return probs
            if not want <= got:
                probs.append(("refine_region:cells", "refine_region(%d,%s) did not refine all cells with centre in the region" % (lv, case["pred"])))
                return probs
            for l2, cs in ret.items():
                while len(st.refined) <= l2:
                    st.refined.append(set())
                st.refined[l2] |= _norm(cs)
            s_prev = State(); s_prev.hs = st.hs   # cells-before check is skipped here (covered by the BFS)
            L = st.hs.numlevels
            active, ref = M.cells(st.refined, L)
            actf, deactf = M.functions(st.refined, L)
            for l in range(L):
                if _norm(st.hs.hmesh.active[l]) != active[l] or _norm(st.hs.actfun[l]) != actf[l] or _norm(st.hs.deactfun[l]) != deactf[l]:
                    probs.append(("refine_region:successor", "state after refine_region(%d,%s) differs from the model on level %d" % (lv, case["pred"], l)))
                    return probs
        probs += state_problems(st, None)
    except Exception as e:
        probs.append(("refine_region:exception:%s" % type(e).__name__, "refine_region raised %r" % (e,)))
    return probs


# ------------------------------------------------------------------------------------------------------

def state_graph(cfg, check=True, workers=None, cap=None):
    setup(cfg)
    return explore.explore([[]], build, enabled, step, canon,
                           transition_problems if check else None, on_state if check else None,
                           cap_states=cap, workers=workers)


def chain_histories(cfg, depth):
    """all histories of single-cell marks that follow one cell down the levels: call i marks one child of the cell
    marked by call i-1 (the first call marks any coarse cell)"""
    dim = len(cfg["k"])
    hists = []
    coarse = list(itertools.product(*(range(k) for k in cfg["k"])))

    def rec(h, cell, lv):
        hists.append(list(h))
        if lv + 1 >= depth:
            return
        for ch in hmodel.HModel.children(cell):
            rec(h + [((lv + 1, ch),)], ch, lv + 1)
    for c in coarse:
        rec([((0, c),)], c, 0)
    return hists


def chain_cases(tier):
    cases = []
    def add(k, depth, ps, disps):
        for p in ps:
            for d in disps:
                cfg = {"row": "chain-%s-D%d" % ("x".join(map(str, k)), depth), "k": list(k), "L": depth, "p": [p] * len(k),
                       "disparity": d, "mark_truncate": False, "maxmark": 1, "mult": None}
                for h in chain_histories(cfg, depth):
                    if len(h) == depth:          # maximal chains; every prefix is checked on the way
                        cases.append({"part": "chain", "cfg": cfg, "history": [[[lv, list(c)] for lv, c in ev] for ev in h]})
    if tier == "quick":
        add((4,), 6, (1, 2), (2,))
        add((2,), 6, (1,), (1, 3))
        add((2, 2), 4, (1,), (1, 2))
    else:
        add((4,), 7, (1, 2, 3), (1, 2, 3))
        add((2, 2), 5, (1, 2), (1, 2))
    return cases


def chain_problems(case):
    """replay one maximal chain on the real space; every transition and every intermediate state is checked"""
    setup(case["cfg"])
    hist = [tuple((lv, tuple(c)) for lv, c in ev) for ev in case["history"]]
    probs = []
    st = build([])
    for i, ev in enumerate(hist):
        # a cell of the chain may already have been refined by the disparity closure of an earlier call
        lv, c = ev[0]
        if lv >= st.hs.numlevels or tuple(c) not in _norm(st.hs.active_cells(lv)):
            continue
        s2 = step(st, ev, hist[:i])
        probs += transition_problems(st, ev, s2, None)
        if s2.error:
            break
        probs += state_problems(s2, hist[:i + 1], deep=False)
        if probs:
            break
        st = s2
    return probs


def check_case(case):
    if case.get("part") == "region":
        return region_case_problems(case)
    if case.get("part") == "chain":
        return _dedupe(chain_problems(case))
    setup(case["cfg"])
    hist = [tuple((lv, tuple(c)) for lv, c in ev) for ev in case["history"]]
    probs = []
    if hist:
        s = build(hist[:-1])
        s2 = step(s, hist[-1], hist[:-1])
        probs += transition_problems(s, hist[-1], s2, hist[:-1])
        if not s2.error:
            probs += state_problems(s2, hist)
    else:
        probs += state_problems(build([]), [])
    seen, out = set(), []
    for k, m in probs:
        if k not in seen:
            seen.add(k)
            out.append((k, m))
    return out


def _dedupe(probs):
    seen, out = set(), []
    for k, m in probs:
        if k not in seen:
            seen.add(k)
            out.append((k, m))
    return out


def _region_w(case):
    if case.get("part") == "chain":
        return case, _dedupe(chain_problems(case))
    return case, region_case_problems(case)


BIG_ROWS = ("1D-k3-L3", "2D-2x2-L2", "3D-1x1x1-L2")


def _row_worker(args):
    cfg, cap = args
    g = state_graph(cfg, cap=cap, workers=1)
    return cfg, g


def run(ctx):
    out = Outcome()
    cap = 3000 if ctx.tier == "quick" else 100000
    allrows = rows(ctx.tier)
    # rows with thousands of transitions are explored with the frontier split over all workers (better balance than
    # one row per worker); in the quick tier these run to closure, the cap only concerns the thorough-only rows
    wide = BIG_ROWS
    small = [c for c in allrows if c["row"] not in wide]
    # heaviest rows first (one row per worker, dealt round-robin): the wall time is the longest worker's sum
    weight = {"1D-k2-L3": 100, "2D-2x1-L2": 60, "1D-k4-L2": 40, "2D-2x1-L2-graded": 60, "2D-2x1-L2-m2": 60}
    small.sort(key=lambda c: -weight.get(c["row"], 1))
    big = [c for c in allrows if c["row"] in wide]
    # small rows: one row per worker (explored serially inside); big rows: frontier split over workers
    results = par.pmap(_row_worker, [(c, cap) for c in small], min_parallel=2, chunk=1)
    # big rows are explored breadth-first up to a state cap (reported as a cap in the evidence when it is hit: everything
    # up to the reported depth is covered completely)
    cap_big = int(os.environ.get("VERIF_C04_BIGCAP", "12000"))
    for cfg in big:
        g = state_graph(cfg, cap=cap_big if cfg["row"] in BIG_ROWS else cap)
        results.append((cfg, g))
        if not g.closed:
            out.caps_hit.append("%s: state cap %d hit at depth %d" % (row_name(cfg), cap_big if cfg["row"] in BIG_ROWS else cap, g.max_depth))
        ctx.log("wide row %s done" % row_name(cfg))
    for cfg, g in results:
        out.states += g.states
        out.transitions += g.transitions
        out.traces += g.states
        out.part(cfg["row"], configs=1, states=g.states, transitions=g.transitions)
        out.nontrivial.add(row_name(cfg))
        out.outcomes.add((cfg["row"], g.states))
        if not g.closed and cfg["row"] not in wide:
            out.caps_hit.append("%s: state cap %d hit at depth %d" % (row_name(cfg), cap, g.max_depth))
        for kind, hist, ev, (key, msg) in g.problems:
            h = list(hist) + ([ev] if ev is not None else [])
            out.add_violation(key, "%s after %s: %s" % (row_name(cfg), h, msg), {"cfg": cfg, "history": h})
        ctx.log("%-36s states=%d transitions=%d depth=%d closed=%s problems=%d"
                % (row_name(cfg), g.states, g.transitions, g.max_depth, g.closed, len(g.problems)))
        if len(out.samples) < 3 and g.states > 3:
            some = sorted(g.rep.values(), key=len)[-1]
            out.sample({"row": row_name(cfg), "a_deepest_history": [[list(x) for x in ev] for ev in some]})
    # refine_region
    rcases = []
    for cfg in rows(ctx.tier):
        if cfg["mark_truncate"] or cfg.get("maxmark") or cfg.get("mult"):
            continue
        for pred in PREDICATES:
            rcases.append({"part": "region", "cfg": cfg, "pred": pred, "depth": cfg["L"]})
    ccases = chain_cases(ctx.tier)
    for case, probs in par.pmap(_region_w, rcases + ccases, min_parallel=8):
        if case.get("part") == "chain":
            out.transitions += len(case["history"])
            out.states += len(case["history"])
            out.traces += 1
            out.part("chains", histories=1)
            out.nontrivial.add(("chain", row_name(case["cfg"]), repr(case["history"])))
            for key, msg in probs:
                out.add_violation(key, "%s along the chain %s: %s" % (row_name(case["cfg"]), case["history"], msg), case)
            continue
        out.transitions += case["depth"]
        out.part("refine_region", cases=1)
        out.nontrivial.add(("region", row_name(case["cfg"]), case["pred"]))
        for key, msg in probs:
            out.add_violation(key, "%s refine_region(%s): %s" % (row_name(case["cfg"]), case["pred"], msg), case)
    ctx.log("refine_region cases=%d, deep single-cell chains=%d" % (len(rcases), len(ccases)))
    out.evaluations = out.transitions
    out.rule = ("BFS to closure over refine() events = every non-empty subset of the active cells below the level bound (all "
                "levels simultaneously; rows with `maxmark` restrict to subsets of that size plus whole levels) on the real "
                "HSpace; state = (cells, functions) per level; every transition vs. the declarative activation model, every "
                "distinct state: tiling, activation rule, canonical order, independence, (T)HB representation, THB>=0 and "
                "partition of unity, HB<->THB transforms, disparity bound, incidence/support queries. Non-trivial = distinct "
                "(row, degree, disparity, marking variant) configurations and refine_region cases.")
    out.assumptions += ["uniform dyadic meshes on [0,1]^d with 1-4 coarse cells per axis, degrees 1-4, level bound 1-3",
                        "the marking closure for finite disparity is not compared with a re-implementation; what it must achieve is checked as the disparity state invariant (default marking only)"]
    return out
