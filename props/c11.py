"""C11 -- relaxation and multigrid are consistent, contractive iterations.

Part A (props/c11_gs.py, ref/gs.py): Gauss-Seidel on EVERY off-diagonal sparsity pattern of n x n matrices (n <= 3
with every storage form, sweep, 1-3 iterations and every ordered index subset; n = 4: all 4096 patterns in the
thorough tier, a subset in the quick tier) against the textbook update in exact rational arithmetic; the affine map
of the implementation is assembled on every unit vector; exact solutions are fixed points (bit-identical);
A - E^T A E >= 0 for SPD / PSD value sets.
Part B (props/c11_mg.py, ref/hmodel.py): local multigrid on ALL refinement states of the small C04 mesh rows x Dirichlet
faces x HB/THB x strategy x smoother: smoothing-set invariants, exact solution is a fixed point, energy contraction.
Part C (props/c11_drivers.py): iterative_solve under every scripted residual pattern, solve_hmultigrid against an
explicit loop, twogrid with every kind of starting vector.
"""
import numpy as np

from mc import par
from mc.outcome import Outcome

ID = "C11"
LEVEL = "model_checking"


# ----------------------------------------------------------------------------------------------------
# check_case: explorer-free oracle for one case
# ----------------------------------------------------------------------------------------------------

def _dedupe(probs):
    seen, out = set(), []
    for p in probs:
        if p[0] not in seen:
            seen.add(p[0])
            out.append((p[0], p[1]))
    return out


def check_case(case):
    part = case["part"]
    if part == "gs":
        from props import c11_gs
        return _dedupe(c11_gs.check(case)[0])
    if part == "mg":
        from props import c11_mg
        return _dedupe(c11_mg.check(case)[0])
    from props import c11_drivers as D
    if part == "iter":
        return _dedupe(D.check_iter(case))
    if part == "hmg":
        return _dedupe(D.check_hmg(case))
    if part == "twogrid":
        return _dedupe(D.check_twogrid(case))
    raise ValueError(part)


# ----------------------------------------------------------------------------------------------------
# workers
# ----------------------------------------------------------------------------------------------------

def _gs_worker(case):
    from props import c11_gs
    probs, stats = c11_gs.check(case)
    return case, probs, stats


def _mg_worker(case):
    from props import c11_mg
    probs, stats = c11_mg.check(case)
    return case, probs, stats


def _drv_worker(case):
    from props import c11_drivers as D
    if case["part"] == "iter":
        return case, D.check_iter(case), None
    if case["part"] == "hmg":
        return case, D.check_hmg(case), None
    probs, margin = D.twogrid_eval(case)
    return case, probs, margin


def _graph_worker(cfg):
    from props import c04
    g = c04.state_graph(cfg, check=False, workers=1)
    hists = sorted(g.rep.values(), key=lambda h: (len(h), sum(len(ev) for ev in h), h))
    return cfg, [[[[lv, list(c)] for lv, c in ev] for ev in h] for h in hists], g.closed


# ----------------------------------------------------------------------------------------------------
# configurations of part B
# ----------------------------------------------------------------------------------------------------

def mg_configs(tier):
    out = []

    def add(row, k, L, ps, disps, bds, tmark=False):
        for p in ps:
            for d in disps:
                out.append(({"row": row, "k": list(k), "L": L, "p": [p] * len(k), "disparity": d,
                             "mark_truncate": tmark, "maxmark": None}, bds))
    # THB-admissible marking (refine(..., truncate=True)): HB functions interact beyond the disparity of the space
    add("1D-k2-L3", (2,), 3, (2,), (1,), ("all", "one") if tier == "quick" else ("all", "one", "none"), tmark=True)
    if tier == "quick":
        add("1D-k3-L2", (3,), 2, (1, 2), ("inf", 1), ("all", "one"))
        add("1D-k3-L2", (3,), 2, (2,), (1,), ("none",))
        add("1D-k2-L3", (2,), 3, (1,), (1,), ("all", "one"))
        add("1D-k2-L3", (2,), 3, (2,), ("inf",), ("all", "one"))
        add("2D-2x1-L2", (2, 1), 2, (2,), ("inf",), ("all", "one"))
    else:
        # (levels 0..2 only: disparity 2 is the same as inf for this row)
        add("1D-k3-L2", (3,), 2, (1, 2, 3), ("inf", 1), ("all", "one", "none"))
        add("1D-k2-L3", (2,), 3, (1, 2, 3), ("inf", 1, 2), ("all", "one", "none"))
        add("2D-2x1-L2", (2, 1), 2, (2,), ("inf", 1), ("all", "one", "none"))
    return out


def cfg_name(cfg):
    return "%s:p%s:d%s%s" % (cfg["row"], "x".join(map(str, cfg["p"])), cfg["disparity"], ":tmark" if cfg.get("mark_truncate") else "")


# ----------------------------------------------------------------------------------------------------
# run
# ----------------------------------------------------------------------------------------------------

def run(ctx):
    from props import c11_gs, c11_mg, c11_drivers as D
    import resource
    out = Outcome()
    tier, seed = ctx.tier, ctx.seed
    quick = tier == "quick"
    last = [0.0]

    def cpu(name):
        t = sum(getattr(resource.getrusage(w), a) for w in (resource.RUSAGE_SELF, resource.RUSAGE_CHILDREN) for a in ("ru_utime", "ru_stime"))
        out.part("cpu_seconds", **{name: round(t - last[0], 1)})
        ctx.log("cpu %-14s %.1f s" % (name, t - last[0]))
        last[0] = t

    # ---- part A: Gauss-Seidel
    gcases = c11_gs.cases(tier, seed)
    patterns = {}
    for case, probs, stats in par.pmap(_gs_worker, gcases):
        out.states += 1
        out.transitions += stats["calls"]
        out.evaluations += stats["calls"] + stats["energy"]
        out.part("gauss_seidel", matrices=1, configs=stats["configs"], calls=stats["calls"], energy_checks=stats["energy"])
        patterns.setdefault(case["n"], set()).add(case["pattern"])
        if c11_gs.nontrivial(case):
            out.nontrivial.add(("gs", case["n"], case["pattern"], case["values"]))
        for o in stats["outcomes"]:
            out.outcomes.add(("gs-order", case["n"], o))
        for key, msg, focus in probs:
            c = dict(case)
            c["focus"] = focus
            out.add_violation(key, msg, c)
    for n, ps in sorted(patterns.items()):
        out.part("gauss_seidel", **{"patterns_n%d" % n: len(ps)})
    ctx.log("gauss_seidel: matrices=%d %s" % (len(gcases), out.parts.get("gauss_seidel")))
    cpu("gauss_seidel")
    out.sample(gcases[len(gcases) // 2])

    # ---- part B: multigrid on all states
    cfgs = mg_configs(tier)
    distinct = []
    for c, _ in cfgs:
        if c not in distinct:
            distinct.append(c)
    gres = par.pmap(_graph_worker, distinct, min_parallel=2, chunk=1)
    graphs = [gres[distinct.index(c)] for c, _ in cfgs]
    cpu("state graphs")
    mcases = []
    hsel = []
    counted = []
    for (cfg, bds), (_, hists, closed) in zip(cfgs, graphs):
        if not closed:
            out.caps_hit.append("state graph of %s not closed" % cfg_name(cfg))
        if cfg not in [c for c, _ in cfgs[:len(counted)]]:
            ctx.log("states %-22s %d" % (cfg_name(cfg), len(hists)))
            out.part("multigrid", configs=1, states=len(hists))
        counted.append(cfg)
        for h in hists:
            for bd in bds:
                for tr in (False, True):
                    mcases.append({"part": "mg", "cfg": cfg, "history": h, "bd": bd, "truncate": tr, "seed": seed,
                                   "rhs": ["load"] if quick else ["load", "int"]})
        # states for the solve_hmultigrid driver: the deepest histories and an evenly spaced selection
        K = 2 if quick else 6
        pick = sorted(set([len(hists) - 1] + [(j * (len(hists) - 1)) // K for j in range(1, K)]))
        hsel += [(cfg, hists[i]) for i in pick if hists[i] and (cfg, hists[i]) not in hsel]
    mcases.sort(key=lambda c: (len(c["history"]), sum(len(ev) for ev in c["history"])))
    for case, probs, stats in par.pmap(_mg_worker, mcases):
        out.states += 1
        out.traces += 1
        out.transitions += stats["steps"]
        out.evaluations += stats["steps"] + stats["sets"] + stats["energy"]
        out.part("multigrid", cases=1, combos=stats["combos"], steps=stats["steps"], set_checks=stats["sets"],
                 energy_checks=stats["energy"])
        if stats["levels"] >= 2 and stats["ndofs"] >= 3:
            out.nontrivial.add(("mg", cfg_name(case["cfg"]), repr(case["history"]), case["bd"], case["truncate"]))
        for o in stats["outcomes"]:
            out.outcomes.add(("mg",) + tuple(o))
        for key, msg, focus in probs:
            c = dict(case)
            c["focus"] = focus
            out.add_violation(key, msg, c)
    ctx.log("multigrid: cases=%d %s" % (len(mcases), out.parts.get("multigrid")))
    cpu("multigrid")
    if mcases:
        out.sample({k: v for k, v in mcases[-1].items()})

    # ---- part C: drivers
    dcases = D.iter_cases()
    for cfg, h in hsel:
        for tr in (False, True):
            for strat in c11_mg.STRATEGIES:
                for sm in c11_mg.SMOOTHERS:
                    for tol, mi in D.HMG_SETTINGS:
                        dcases.append({"part": "hmg", "cfg": cfg, "history": h, "bd": "all", "truncate": tr,
                                       "strategy": strat, "smoother": sm, "tol": tol, "maxiter": mi})
    tg = D.twogrid_cases(tier)
    for c in tg:
        c["seed"] = seed
    dcases += tg
    worst = 0.0
    for case, probs, extra in par.pmap(_drv_worker, dcases):
        out.states += 1
        out.transitions += 1
        out.evaluations += 1
        out.part(case["part"], cases=1)
        if case["part"] == "iter":
            if 0 in case["pattern"] and 1 in case["pattern"]:
                out.nontrivial.add(("iter", tuple(case["pattern"]), case["x0"], case["active"], case["mat"]))
            out.outcomes.add(("iter", case["maxiter"], case["pattern"].index(1) if 1 in case["pattern"] else -1))
        elif case["part"] == "hmg":
            out.traces += 1
            out.nontrivial.add(("hmg", cfg_name(case["cfg"]), repr(case["history"]), case["truncate"], case["strategy"],
                                case["smoother"], case["maxiter"]))
        else:
            if case["u0"] != "none":
                out.nontrivial.add(("twogrid", case["p"], case["n"], case["smoother"], case["tol"], case["u0"]))
            if extra is not None:
                worst = max(worst, extra)
        for key, msg in probs:
            out.outcomes.add(("problem", key))
            out.add_violation(key, msg, case)
    out.part("twogrid", worst_reduction_over_tol=round(worst, 4))
    cpu("drivers")
    ctx.log("drivers: iterative_solve=%d solve_hmultigrid=%d twogrid=%d" % (
        out.parts.get("iter", {}).get("cases", 0), out.parts.get("hmg", {}).get("cases", 0), out.parts.get("twogrid", {}).get("cases", 0)))
    out.sample(dcases[7])
    out.sample(tg[2])

    out.rule = (
        "Part A: every off-diagonal sparsity pattern of n x n integer matrices (n<=3: all 1+4+64; n=4: all 4096 in the thorough "
        "tier, the 64 symmetric ones + every 32nd in the quick tier) x value sets {dominant, non-symmetric; SPD, PSD (graph "
        "Laplacian), Gram on symmetric patterns} x forms {dense, csr, csc, coo; each sparse form also with explicit zeros and with "
        "unsorted indices} x sweeps x 1-3 iterations x index lists (n<=3 and the n=4 subsets: every ordered subset without "
        "repetition); the implementation's affine map (E, G) is assembled on every unit vector and compared with exact rational "
        "arithmetic. Part B: every refinement state of the listed C04 rows x Dirichlet faces {all, one, none} x HB/THB x 4 strategies "
        "x 5 smoothers. Part C: every residual-answer pattern in {>=tol,<tol}^k, k<=4. Non-trivial = matrices whose pattern couples "
        "rows in both triangles; hierarchical states with >= 2 levels; answer patterns containing both answers; starting vectors "
        "other than None.")
    out.assumptions += [
        "Gauss-Seidel inputs: float64 matrices with small integer entries and non-zero diagonal, float64 x and b, duplicate-free sparse storage",
        "the relaxation and the multigrid cycle have no value-dependent control flow (affine maps), so unit vectors decide all starting vectors / right-hand sides of Part A and all starting vectors of Part B; the fixed-point check of Part B uses the right-hand sides f=1 (and a distinct-integer load in the thorough tier)",
        "multigrid systems: A = I^T (stiffness + mass) I on [0,1]^d without geometry map, uniform dyadic meshes, degrees 1-3, homogeneous Dirichlet values",
        "twogrid: the returned residual is demanded to be <= sqrt(cond A) * tol * res0 (the driver tests the residual before its last coarse-grid correction)",
    ]
    return out
