"""C11 part B -- local multigrid on ALL refinement states of the small C04 mesh rows.

One case = (mesh row cfg, refinement history, Dirichlet faces, HB/THB).  The real HSpace is rebuilt by replaying the
history (same marks as props/c04.py), the Galerkin system is  A = I^T (K + M)_fine I,  f = I^T f_fine  with
I = hs.represent_fine() (verified by C04) and the tensor-product stiffness + mass matrix of the finest level.
For every strategy x smoother:

  * smoothing sets (pure set checks against ref/hmodel.py): on every virtual level the set contains every function
    that is active or deactivated on that level and does not lie on a Dirichlet face ("newly added dofs"), contains no
    Dirichlet dof, and hs.dirichlet_dofs(lv) is what the model says;
  * the exact discrete solution (direct solve on the non-Dirichlet dofs, zero on the Dirichlet dofs -- the usage of
    test/test_localmg.py) is a fixed point of local_mg_step(...):  |x - step(x)| <= 1e-9 |x|, for the load of f = 1
    and (thorough tier) a distinct-integer load;
  * smoothers exact and symmetric_gs: the error propagation E is assembled on every non-Dirichlet unit vector and
    A_nd - E^T A E >= -1e-9 |A|  (energy norm of the error never increases, for every starting vector).
"""
import numpy as np

from ref import hmodel

STRATEGIES = ("new", "trunc", "func_supp", "cell_supp")
SMOOTHERS = ("gs", "forward_gs", "backward_gs", "symmetric_gs", "exact")
ENERGY_SMOOTHERS = ("exact", "symmetric_gs")
FP_TOL = 1e-9
E_TOL = 1e-9


def bdspecs_of(bd, dim):
    if bd == "all":
        return [(ax, s) for ax in range(dim) for s in (0, 1)]
    if bd == "one":
        return [(dim - 1, 0)]
    if bd == "none":
        return None
    if bd == "empty":
        return []
    raise ValueError(bd)


def history_of(case):
    return [tuple((int(lv), tuple(int(x) for x in c)) for lv, c in ev) for ev in case["history"]]


def build_space(cfg, history, truncate, bd):
    """replay the refinement history of a C04 state on a fresh HSpace with the requested truncate / bdspecs;
    returns (hs, refined) with `refined` the per-level sets of refined cells as returned by refine()"""
    from pyiga import bspline, hierarchical
    from props import c04
    kvs = tuple(bspline.make_knots(p, 0.0, 1.0, k) for p, k in zip(cfg["p"], cfg["k"]))
    hs = hierarchical.HSpace(kvs, truncate=truncate, disparity=c04._disp(cfg["disparity"]),
                             bdspecs=bdspecs_of(bd, len(kvs)))
    refined = []

    def call(ev):
        marks, ct = c04.marks_of(ev)
        ret = hs.refine(marks, truncate=True) if cfg.get("mark_truncate") else hs.refine(marks)
        for lv, cs in (ret or {}).items():
            while len(refined) <= lv:
                refined.append(set())
            refined[lv] |= {tuple(int(x) for x in c) for c in cs}

    for ev in history:
        # adaptive-loop usage: the cells of one recorded call are refined one call at a time (coarsest first) and the
        # index structures are queried between any two calls, as a solve-estimate-mark-refine loop does; a refinement
        # call that does not add a level must leave the lazily cached index structures valid.  The state reached is a
        # legitimate reachable state in any case; the oracles below are computed from the cells actually refined.
        for lv, c in sorted(ev):
            if lv < hs.numlevels and tuple(c) in {tuple(int(x) for x in cc) for cc in hs.active_cells(lv)}:
                call(((lv, tuple(c)),))
                try:
                    hs.dirichlet_dofs()
                    hs.non_dirichlet_dofs()
                    hs.indices_to_smooth("func_supp")
                except Exception:
                    pass
    return hs, refined


def model_sets(cfg, refined, L, bd):
    """per virtual level lv: (size, new non-Dirichlet positions, Dirichlet positions) in the library's virtual-level
    ordering  act(0), ..., act(lv-1), act(lv), deact(lv)  (each block lexicographically sorted)"""
    M = hmodel.HModel(cfg["p"], cfg["k"])
    actf, deactf = M.functions(refined, L)
    specs = bdspecs_of(bd, M.dim) or []

    def is_dir(l, f):
        return any(f[ax] == (0 if side == 0 else M.nfun(l, ax) - 1) for ax, side in specs)

    out = []
    for lv in range(L):
        funs = [(l, f) for l in range(lv) for f in sorted(actf[l])]
        nold = len(funs)
        funs += [(lv, f) for f in sorted(actf[lv])] + [(lv, f) for f in sorted(deactf[lv])]
        dirs = {i for i, (l, f) in enumerate(funs) if is_dir(l, f)}
        new = {i for i in range(nold, len(funs)) if i not in dirs}
        out.append((len(funs), new, dirs))
    return out


def system(hs):
    """A = I^T (K + M) I (csr), f for rhs 'load' (f = 1) and 'int' (distinct integers on the finest level)"""
    from pyiga import assemble
    kf = hs.knotvectors(hs.numlevels - 1)
    Mf = assemble.mass(kf)
    Af = assemble.stiffness(kf) + Mf
    I = hs.represent_fine()
    A = (I.T @ Af @ I).tocsr()
    return A, I, Mf


def rhs(I, Mf, which, seed):
    nf = Mf.shape[0]
    if which == "load":
        return I.T @ (Mf @ np.ones(nf))
    j = np.arange(nf)
    v = ((j * 7 + seed) % 11 - 5).astype(float)
    v[v == 0] = 6.0
    return I.T @ v


def exact_solution(A, f, nd):
    x = np.zeros(A.shape[0])
    if len(nd):
        x[nd] = np.linalg.solve(A[nd][:, nd].toarray(), f[nd])
    return x


def check(case):
    """returns (problems, stats)"""
    from pyiga import solvers
    cfg, bd, tr = case["cfg"], case["bd"], bool(case["truncate"])
    seed = case.get("seed", 0)
    focus = case.get("focus") or {}
    hist = history_of(case)
    probs = []
    stats = {"combos": 0, "steps": 0, "energy": 0, "sets": 0, "levels": 0, "ndofs": 0, "outcomes": set()}
    where = "HSpace(%s, truncate=%s, disparity=%s, bdspecs=%s) after refine history %s" % (
        "p=%s k=%s" % (cfg["p"], cfg["k"]), tr, cfg["disparity"], bdspecs_of(bd, len(cfg["k"])), [list(map(list, ev)) for ev in hist])

    def bad(key, msg, **fc):
        probs.append((key, "%s: %s" % (where, msg), fc))

    try:
        hs, refined = build_space(cfg, hist, tr, bd)
        L = hs.numlevels
    except Exception as e:
        bad("mg:exception:build:%s" % type(e).__name__, "building the space raised %r" % (e,))
        return probs, stats
    stats["levels"] = L
    stats["ndofs"] = int(hs.numdofs)
    msets = model_sets(cfg, refined, L, bd)

    # ---- Dirichlet dofs per virtual level
    try:
        nd = [int(i) for i in hs.non_dirichlet_dofs()]
        for lv in range(L):
            got = {int(i) for i in hs.dirichlet_dofs(lv)}
            if got != msets[lv][2]:
                bad("mg:dirichlet_dofs:model", "dirichlet_dofs(%d) = %s, functions on the Dirichlet faces: %s"
                    % (lv, sorted(got), sorted(msets[lv][2])))
        if sorted(nd) != sorted(set(range(msets[L - 1][0])) - msets[L - 1][2]):
            bad("mg:non_dirichlet_dofs:model", "non_dirichlet_dofs() = %s is not the complement of the Dirichlet dofs %s"
                % (nd, sorted(msets[L - 1][2])))
    except Exception as e:
        bad("mg:exception:dirichlet_dofs:%s" % type(e).__name__, "dirichlet_dofs / non_dirichlet_dofs raised %r" % (e,))
        return probs, stats
    if probs:
        return probs, stats

    # ---- system
    try:
        A, I, Mf = system(hs)
        Ps = hs.virtual_hierarchy_prolongators()
        Ad = A.toarray()
        normA = float(np.linalg.norm(Ad, 2))
        rhss = [(w, rhs(I, Mf, w, seed)) for w in (case.get("rhs") or ("load", "int"))]
        sols = [exact_solution(A, f, nd) for _, f in rhss]
    except Exception as e:
        bad("mg:exception:system:%s" % type(e).__name__, "represent_fine / virtual_hierarchy_prolongators raised %r" % (e,))
        return probs, stats
    n = A.shape[0]

    for strat in STRATEGIES:
        if focus.get("strategy") and focus["strategy"] != strat:
            continue
        # ---- smoothing sets
        try:
            inds = hs.indices_to_smooth(strat)
            if len(inds) != L:
                bad("mg:sets:%s:levels" % strat, "indices_to_smooth(%r) has %d entries for %d levels" % (strat, len(inds), L), strategy=strat)
                continue
            for lv in range(L):
                size, new, dirs = msets[lv]
                got = {int(i) for i in inds[lv]}
                stats["sets"] += 1
                stats["outcomes"].add((strat, lv, len(got), len(new)))
                if got and (min(got) < 0 or max(got) >= size):
                    bad("mg:sets:%s:range" % strat, "indices_to_smooth(%r)[%d] = %s has indices outside the %d dofs of virtual level %d"
                        % (strat, lv, sorted(got), size, lv), strategy=strat)
                if not new <= got:
                    bad("mg:sets:%s:missing-new" % strat, "indices_to_smooth(%r)[%d] = %s lacks the newly added non-Dirichlet dofs %s of level %d"
                        % (strat, lv, sorted(got), sorted(new - got), lv), strategy=strat)
                if got & dirs:
                    bad("mg:sets:%s:dirichlet" % strat, "indices_to_smooth(%r)[%d] = %s contains the Dirichlet dofs %s"
                        % (strat, lv, sorted(got), sorted(got & dirs)), strategy=strat)
        except Exception as e:
            bad("mg:exception:indices_to_smooth:%s:%s" % (strat, type(e).__name__), "indices_to_smooth(%r) raised %r" % (strat, e), strategy=strat)
            continue
        # ---- the cycle
        for sm in SMOOTHERS:
            if focus.get("smoother") and focus["smoother"] != sm:
                continue
            stats["combos"] += 1
            basis = "THB" if tr else "HB"
            call = "local_mg_step(hs, A, f, hs.virtual_hierarchy_prolongators(), hs.indices_to_smooth(%r), %r)" % (strat, sm)
            try:
                step = None
                for (w, f), xs in zip(rhss, sols):
                    step = solvers.local_mg_step(hs, A, f, Ps, inds, sm)
                    y = step(xs.copy())
                    stats["steps"] += 1
                    dev = float(np.linalg.norm(y - xs))
                    nx = float(np.linalg.norm(xs))
                    if not dev <= FP_TOL * nx:
                        bad("mg:fixed-point:%s:%s" % (sm, basis), "%s moves the exact discrete solution (rhs %s): |x - step(x)| = %.3g |x|"
                            % (call, w, dev / nx if nx else float("inf")), strategy=strat, smoother=sm)
                        break
                if sm in ENERGY_SMOOTHERS and len(nd):
                    # error propagation on the non-Dirichlet unit vectors (step is affine: E e = step(e) - step(0))
                    s0 = step(np.zeros(n))
                    E = np.zeros((n, len(nd)))
                    for c, j in enumerate(nd):
                        e = np.zeros(n)
                        e[j] = 1.0
                        E[:, c] = step(e) - s0
                    stats["steps"] += len(nd) + 1
                    S = Ad[np.ix_(nd, nd)] - E.T @ Ad @ E
                    S = 0.5 * (S + S.T)
                    lam = float(np.linalg.eigvalsh(S).min())
                    stats["energy"] += 1
                    stats["outcomes"].add((sm, round(lam / normA, 3)))
                    if not lam >= -E_TOL * normA:
                        bad("mg:energy:%s:%s" % (sm, basis), "%s increases the energy norm of some error: min eig(A - E^T A E) = %.3g |A|"
                            % (call, lam / normA), strategy=strat, smoother=sm)
            except Exception as e:
                bad("mg:exception:local_mg_step:%s:%s" % (sm, type(e).__name__), "%s raised %r" % (call, e), strategy=strat, smoother=sm)
    return probs, stats
