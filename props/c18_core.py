"""C18 part A -- explicit-state exploration of the tensor formats.

A state is (real tensor object, dense ndarray model).  Every event applies the *real* pyiga operation to
the real object and the boring dense reference (ref/tensor_model.py) to the model; after every event

    asarray(result) == op_dense(asarray(operand))        (exactly: integer payloads)
    result.shape / result.ndim agree with the model, getitem keeps the format,
    no array reachable from any operand on the history (or from the partner operand) has changed.

States reached through an orthogonal factorisation (orthogonalize / compress / hosvd) are compared with
an absolute tolerance 1e-12 * (magnitude bound of the representation), everything else with ==.
No state merging: the exploration is a depth-first walk of the full event tree.
"""
import zlib

import numpy as np

from ref import tensor_model as R

_T = None      # pyiga.tensor, imported lazily


def T():
    global _T
    if _T is None:
        from pyiga import tensor
        _T = tensor
    return _T


# ------------------------------------------------------------------------------------------------
# payloads: small distinct integers; the seed only permutes them
# ------------------------------------------------------------------------------------------------

def payload(seed, tag, shape, lo=1):
    """distinct integers lo..lo+size-1 in a seeded order with a seeded sign pattern, as float64"""
    size = int(np.prod(shape)) if len(shape) else 1
    rs = np.random.RandomState((zlib.crc32(tag.encode()) + 7919 * int(seed)) % (2 ** 32))
    vals = np.arange(lo, lo + size, dtype=float)
    rs.shuffle(vals)
    sign = np.where(rs.randint(0, 3, size=size) == 0, -1.0, 1.0)
    return (vals * sign).reshape(shape)


def matrix_for(seed, n, code, axis):
    """operand matrices of the mode products: code 1 = tall (n+1) x n, code 2 = 1 x n row"""
    if code == 0:
        return None
    m = n + 1 if code == 1 else 1
    M = payload(seed, "M%d:%d:%d" % (code, n, axis), (m, n))
    return np.sign(M) * (1 + (np.abs(M) - 1) % 3)          # entries in +-{1,2,3}


# ------------------------------------------------------------------------------------------------
# tensor construction from a JSON spec
# ------------------------------------------------------------------------------------------------

def make_tensor(spec, seed):
    """spec = {"kind": C|T|A|S|P, "shape": [...], "rank": r, "var": v, "salt": s}"""
    t = T()
    kind, shape = spec["kind"], tuple(spec["shape"])
    r, var = int(spec.get("rank", 1)), int(spec.get("var", 0))
    tag = "%s:%s:%d:%d:%s" % (kind, "x".join(map(str, shape)), r, var, spec.get("salt", 0))
    d = len(shape)
    if kind == "C":
        if r == 0:
            return t.CanonicalTensor.zeros(shape)
        return t.CanonicalTensor(tuple(payload(seed, tag + ":X%d" % j, (shape[j], r)) for j in range(d)))
    if kind == "T":
        if r == 0:
            return t.TuckerTensor.zeros(shape)
        # var 1: mixed multilinear rank (r, 1, r, ...)
        ranks = tuple(r if (var == 0 or j % 2 == 0) else 1 for j in range(d))
        Us = tuple(payload(seed, tag + ":U%d" % j, (shape[j], ranks[j])) for j in range(d))
        X = payload(seed, tag + ":core", ranks)
        return t.TuckerTensor(Us, X)
    if kind == "A":
        return payload(seed, tag + ":A", shape)
    sub = lambda k, shp, rr=1, v=0: make_tensor({"kind": k, "shape": list(shp), "rank": rr, "var": v,
                                                 "salt": "%s/%s" % (spec.get("salt", 0), tag)}, seed)
    if kind == "S":
        if var == 0:
            return t.TensorSum(sub("C", shape, max(r, 1)), sub("T", shape, 1))
        if var == 1:
            return t.TensorSum(sub("A", shape), sub("C", shape, max(r, 1)))
        return t.TensorSum(sub("A", shape))
    if kind == "P":
        if d == 1:
            return t.TensorProd(sub("C", shape, max(r, 1))) if var == 0 else t.TensorProd(sub("A", shape))
        if var == 0:
            return t.TensorProd(sub("C", shape[:1], max(r, 1)), sub("T", shape[1:], 1))
        if var == 1:
            return t.TensorProd(sub("A", shape[:1]), sub("C", shape[1:], max(r, 1)))
        if d == 2:
            return t.TensorProd(sub("A", shape[:1]), sub("A", shape[1:]))
        return t.TensorProd(sub("T", shape[:2], max(r, 1)), sub("A", shape[2:]))
    raise ValueError(kind)


def kind_of(obj):
    t = T()
    if isinstance(obj, t.CanonicalTensor):
        return "C"
    if isinstance(obj, t.TuckerTensor):
        return "T"
    if isinstance(obj, t.TensorSum):
        return "S"
    if isinstance(obj, t.TensorProd):
        return "P"
    if isinstance(obj, np.ndarray) and obj.ndim > 0:
        return "A"
    if np.isscalar(obj) or (isinstance(obj, np.ndarray) and obj.ndim == 0):
        return "x"
    return "?"


def leaves(obj, out=None):
    """all ndarrays reachable from a tensor object (its complete numerical state)"""
    if out is None:
        out = []
    k = kind_of(obj)
    if k == "C":
        out.extend(obj.Xs)
    elif k == "T":
        out.extend(obj.Us)
        out.append(obj.X)
    elif k in "SP":
        for X in obj.Xs:
            leaves(X, out)
    elif k == "A":
        out.append(obj)
    return out


def snapshot(obj):
    return [(a, a.shape, a.tobytes()) for a in leaves(obj) if isinstance(a, np.ndarray)]


def unchanged(snap):
    return all(a.shape == shp and a.tobytes() == b for (a, shp, b) in snap)


def repr_mag(obj):
    """upper bound for the magnitude of the partial sums that asarray() forms"""
    k = kind_of(obj)
    if k == "C":
        if obj.R == 0:
            return 0.0
        return float(np.sum(np.prod([np.max(np.abs(X), axis=0) if X.shape[0] else np.zeros(X.shape[1])
                                     for X in obj.Xs], axis=0)))
    if k == "T":
        if obj.X.size == 0:
            return 0.0
        return float(np.sum(np.abs(obj.X)) * np.prod([np.max(np.abs(U)) if U.size else 0.0 for U in obj.Us]))
    if k == "S":
        return float(sum(repr_mag(X) for X in obj.Xs))
    if k == "P":
        return float(np.prod([repr_mag(X) for X in obj.Xs]))
    a = np.asarray(obj, dtype=float)
    return float(np.max(np.abs(a))) if a.size else 0.0


class State:
    __slots__ = ("obj", "model", "exact", "mag", "snap", "kind")

    def __init__(self, obj, model, exact=True, mag=1.0):
        self.obj = obj
        self.model = model
        self.exact = exact
        self.mag = mag
        self.kind = kind_of(obj)
        self.snap = snapshot(obj)


def dense_of_spec_object(obj):
    """independent expansion of a *seed* object from its own arrays (not through pyiga's asarray)"""
    k = kind_of(obj)
    if k == "C":
        return R.canonical_dense(obj.Xs)
    if k == "T":
        return R.tucker_dense(obj.Us, obj.X)
    if k == "S":
        out = dense_of_spec_object(obj.Xs[0]).copy()
        for X in obj.Xs[1:]:
            out = out + dense_of_spec_object(X)
        return out
    if k == "P":
        return R.outer_all([dense_of_spec_object(X) for X in obj.Xs])
    return np.array(obj, dtype=float)


# ------------------------------------------------------------------------------------------------
# event alphabets
# ------------------------------------------------------------------------------------------------

S_ALL = ["s", None, None, None]
S_STEP2 = ["s", None, None, 2]
S_REV = ["s", None, None, -1]
S_TAIL = ["s", 1, None, None]
S_REV2 = ["s", -1, 0, -2]


def axis_items(n, ext):
    """index-expression alphabet of one axis of length n (base: 6 items; ext adds 3)"""
    lst = ["l", [-1, 0]] if n > 1 else ["l", [0]]
    items = [0, -1, S_ALL, S_STEP2, S_REV, lst]
    if ext:
        items += [S_TAIL, S_REV2]
        if n > 1:
            items.append(1)
        if n > 2:
            items.append(["l", [1, 2, 0]])
    return items


def item_kind(it):
    if isinstance(it, int):
        return "int" if it >= 0 else "negint"
    if it[0] == "l":
        return "list"
    if it == S_ALL:
        return "all"
    if it[3] is not None and it[3] < 0:
        return "negstep"
    if it[3] is not None and it[3] > 1:
        return "step"
    return "range"


def index_exprs(shape, ext):
    """all index expressions: every per-axis alphabet product for the full tuple and for every proper
    prefix (omitted trailing axes), restricted to the expressions on which numpy's own semantics and
    per-axis indexing coincide (see ref.tensor_model.numpy_agrees)"""
    import itertools
    d = len(shape)
    out, skipped = [], 0
    for L in range(1, d + 1):
        for items in itertools.product(*[axis_items(shape[k], ext) for k in range(L)]):
            items = list(items)
            if sum(1 for it in items if not isinstance(it, int) and it[0] == "l") > 1 or not _agrees(shape, items):
                skipped += 1
                continue
            out.append(items)
    return out, skipped


_AGREE = {}


def _agrees(shape, items):
    """whether numpy's semantics and per-axis indexing coincide depends only on the *types* of the items
    (integer / slice / list) and the number of axes: decided once per type pattern on a generic shape
    (all axes of length 3, list [2, 0]), which also excludes coincidences on degenerate shapes"""
    key = (len(shape), tuple("i" if isinstance(it, int) else it[0] for it in items))
    v = _AGREE.get(key)
    if v is None:
        generic = [0 if k == "i" else (["s", None, None, None] if k == "s" else ["l", [2, 0]]) for k in key[1]]
        v = _AGREE[key] = R.numpy_agrees((3,) * len(shape), generic)
    return v


_MENU = {}


def menu(kind, shape, ext, grow):
    """finite event menu of a state; depends only on (format, shape).  ext: extended index alphabet;
    grow: also offer TensorSum(...) / TensorProd(...) constructions"""
    key = (kind, tuple(shape), ext, grow)
    if key in _MENU:
        return _MENU[key]
    import itertools
    d = len(shape)
    evs = []
    if kind in "CTSP":
        evs.append(["neg"])
        partners = ["C", "T", "A", "T0", "S", "P"]
        for pk in partners:
            evs.append(["add", pk])
            evs.append(["sub", pk])
        evs.append(["add", "C0"])
        exprs, _ = index_exprs(shape, ext)
        evs += [["idx", e] for e in exprs]
    if kind in "CT":
        evs.append(["sq", None])
        single = [k for k in range(d) if shape[k] == 1]
        for k in single:
            evs.append(["sq", k])
        if len(single) >= 2:
            evs.append(["sq", single])
            evs.append(["sq", single[::-1]])
        if d >= 2 and shape[-1] == 1:
            evs.append(["sq", -1])
        multi = [k for k in range(d) if shape[k] != 1]
        if multi:
            evs.append(["sqbad", multi[0]])
        evs.append(["copy"])
    if kind == "C":
        evs.append(["reterm"])
    if kind in "CTSPA":
        for codes in itertools.product((0, 1, 2), repeat=d):
            evs.append(["nway", list(codes), "d"])
        evs.append(["nway", [1] * d, "s"])
        evs.append(["nway", [1] * d, "l"])
        if d >= 2:
            evs.append(["nway", [1] * (d - 1), "d"])         # fewer operators than axes: trailing axes untouched
            evs.append(["nway", [2], "s"])
        evs.append(["pad", [[1, 2]] * d])
        evs.append(["pad", [None if k % 2 == 0 else [0, 1] for k in range(d)]])
        evs.append(["pad", [[2, 0] if k % 2 == 0 else None for k in range(d)]])
        evs.append(["norm"])
        evs.append(["ravel"])
        evs.append(["to_tucker"])
    if kind == "T":
        evs.append(["orth"])
        evs.append(["compress"])
        evs.append(["trunc", 1])
        evs.append(["trunc", 0])
        evs.append(["trunc", [1 + (k % 2) for k in range(d)]])
        evs.append(["to_canon"])
        evs.append(["join", "T"])
        evs.append(["join", "T0"])
    if kind == "A":
        evs.append(["hosvd"])
    if grow and kind in "CTSPA":
        evs.append(["mksum", "C"])
        evs.append(["mksum", "A"])
        if d <= 2:
            evs.append(["mkprod", "right"])
            evs.append(["mkprod", "left"])
    if not ext:
        _MENU[key] = evs        # extended menus are large (thousands of events) and used once per walk: not cached
    return evs


def family(ev):
    return ev[0]


# ------------------------------------------------------------------------------------------------
# partner operands (cached per shape; checked for mutation after every use)
# ------------------------------------------------------------------------------------------------

_PARTNERS = {}


def partner(pk, shape, seed):
    key = (pk, tuple(shape), seed)
    st = _PARTNERS.get(key)
    if st is None:
        spec = {"C": {"kind": "C", "rank": 1}, "C0": {"kind": "C", "rank": 0}, "T": {"kind": "T", "rank": 2, "var": 1},
                "T0": {"kind": "T", "rank": 0}, "A": {"kind": "A"}, "S": {"kind": "S", "var": 1},
                "P": {"kind": "P", "var": 0}}[pk]
        spec = dict(spec, shape=list(shape), salt="partner")
        try:
            obj = make_tensor(spec, seed)
        except Exception:
            # the constructor itself fails (reported once by the seed check of that spec): no such partner
            _PARTNERS[key] = False
            return None
        st = _PARTNERS[key] = State(obj, dense_of_spec_object(obj), True, 1.0)
        st.mag = max(1.0, repr_mag(obj))
    return st or None


def reset_caches():
    _PARTNERS.clear()


# ------------------------------------------------------------------------------------------------
# one transition: real operation + reference + checks
# ------------------------------------------------------------------------------------------------

TOL = 1e-12
KNAME = {"C": "CanonicalTensor", "T": "TuckerTensor", "S": "TensorSum", "P": "TensorProd", "A": "ndarray", "x": "scalar"}


_MATS = {}


def _mats(seed, shape, codes, mk):
    key = (seed, tuple(shape[:len(codes)]), tuple(codes), mk)
    v = _MATS.get(key)
    if v is None:
        v = _MATS[key] = _mats_build(seed, shape, codes, mk)
    return v


def _mats_build(seed, shape, codes, mk):
    import scipy.sparse
    import scipy.sparse.linalg
    dense = [matrix_for(seed, shape[k], c, k) for k, c in enumerate(codes)]
    if mk == "d":
        real = list(dense)
        watch = [M for M in real if M is not None]
    elif mk == "s":
        real = [None if M is None else scipy.sparse.csr_matrix(M) for M in dense]
        watch = [M.data for M in real if M is not None]
    else:
        keep = [None if M is None else M.copy() for M in dense]
        real = [None if M is None else scipy.sparse.linalg.aslinearoperator(M) for M in keep]
        watch = [M for M in keep if M is not None]
    ref = [None if M is None else M.copy() for M in dense]
    return ref, real, [(a, a.shape, a.tobytes()) for a in watch]


def exc_site(e):
    """innermost pyiga function on the traceback: the canonical signature of an exception"""
    import os
    tb = e.__traceback__
    site = None
    while tb is not None:
        code = tb.tb_frame.f_code
        if os.sep + "pyiga" + os.sep in code.co_filename:
            site = "%s.%s" % (os.path.basename(code.co_filename).rsplit(".", 1)[0],
                              getattr(code, "co_qualname", code.co_name))
        tb = tb.tb_next
    return site or "caller"


def exc_key(e):
    return "exception:%s@%s" % (type(e).__name__, exc_site(e))


def _amp(dense):
    a = 1.0
    for M in dense:
        if M is not None:
            a *= float(np.max(np.sum(np.abs(M), axis=1)))
    return max(a, 1.0)


def apply_event(st, ev, seed, need_child=True):
    """returns (problems, child State or None, info).  problems: list of (key, message)."""
    probs, child, info = _apply_event(st, ev, seed, need_child)
    if probs and ev[0] == "sq" and ev[1] == -1:
        # one defect (negative axis numbers are not normalised), whatever its symptom
        probs = [("sq:negative-axis", probs[0][1])]
    return probs, child, info


def _apply_event(st, ev, seed, need_child):
    t = T()
    fam = ev[0]
    obj, model, kind = st.obj, st.model, st.kind
    shape = model.shape
    pst = None
    exact = st.exact
    mag = st.mag
    accept_type_error = False
    observer = None          # for events whose result is not a tensor
    tag = "%s:%s" % (fam, kind)
    try:
        if fam == "neg":
            res, want = -obj, -model
        elif fam in ("add", "sub"):
            pst = partner(ev[1], shape, seed)
            if pst is None:
                return [], None, "no-partner"
            tag = "%s:%s:%s" % (fam, kind, pst.kind if ev[1] not in ("T0", "C0") else ev[1])
            # CanonicalTensor/TuckerTensor explicitly reject operands they cannot coerce (TypeError
            # 'cannot add ...'): a documented refusal, not a promise
            accept_type_error = kind in "CT" and pst.kind in "SP"
            if fam == "add":
                res, want = obj + pst.obj, model + pst.model
            else:
                res, want = obj - pst.obj, model - pst.model
            mag = st.mag + pst.mag
        elif fam == "idx":
            res = obj[R.decode_expr(ev[1])]
            want = R.ortho_index(model, ev[1])
        elif fam == "sq":
            ax = ev[1]
            res = obj.squeeze() if ax is None else obj.squeeze(tuple(ax) if isinstance(ax, list) else ax)
            want = np.squeeze(model) if ax is None else np.squeeze(model, axis=tuple(ax) if isinstance(ax, list) else ax)
        elif fam == "sqbad":
            try:
                obj.squeeze(ev[1])
            except ValueError:
                return [], None, "raises"
            return [(tag + ":no-error", "squeeze(%d) of a length-%d axis did not raise ValueError (numpy.squeeze does)"
                     % (ev[1], shape[ev[1]]))], None, "silent"
        elif fam == "copy":
            res, want = obj.copy(), model
            if any(np.shares_memory(a, b) for a in leaves(res) for b in leaves(obj)):
                return [(tag + ":alias", "copy() shares memory with the original")], None, "alias"
        elif fam == "reterm":
            if obj.R == 0:
                return [], None, "rank0"        # from_terms needs at least one term
            res, want = t.CanonicalTensor.from_terms(obj.terms()), model
            if res.R != obj.R:
                return [(tag + ":rank", "from_terms(X.terms()) has rank %d, X has %d" % (res.R, obj.R))], None, "rank"
        elif fam == "nway":
            dense, real, mwatch = _mats(seed, shape, ev[1], ev[2])
            tag = "nway:%s:%s" % (kind, {"d": "dense", "s": "sparse", "l": "linop"}[ev[2]])
            if len(ev[1]) < len(shape):
                tag += ":short"
            res = t.apply_tprod(tuple(real), obj)
            want = R.mode_products(model, dense)
            if not unchanged(mwatch):
                _MATS.clear()
                return [(tag + ":mutation-matrix", "%s changed an operator matrix" % describe(ev))], None, "mutation"
            mag = st.mag * _amp(dense)
        elif fam == "pad":
            pw = [None if w is None else tuple(w) for w in ev[1]]
            res, want = t.pad(obj, pw), R.pad_dense(model, ev[1])
        elif fam == "norm":
            ref = float(np.sqrt(np.sum(model * model)))
            vals = [("fro_norm", float(t.fro_norm(obj)))]
            if kind in "CT":
                vals.append(("norm", float(obj.norm())))
            probs = []
            for nm, v in vals:
                # exact states: all Gram entries are integers, only the final sqrt / the QR rounds
                tol = (1e-12 * max(ref, 1.0)) if st.exact and kind != "T" else 1e-12 * max(ref, st.mag, 1.0)
                if kind == "T" or not st.exact:
                    # norm via QR (Tucker) or via Gram sums of an inexact representation: error in norm^2 is
                    # eps * mag^2, which is sqrt(eps)*mag in the norm itself when the tensor cancels to ~0
                    ok = abs(v * v - ref * ref) <= 1e-12 * max(st.mag, 1.0) ** 2 or abs(v - ref) <= tol
                else:
                    ok = abs(v - ref) <= tol
                if not ok:
                    probs.append(("%s:%s:value" % (tag, nm), "%s = %r, dense Frobenius norm = %r" % (nm, v, ref)))
            if not unchanged(st.snap):
                probs.append((tag + ":mutation", "norm changed its operand"))
            return probs, None, "norm"
        elif fam == "ravel":
            v = obj.ravel()
            probs = []
            if not _same(np.asarray(v), model.ravel(), st.exact, st.mag):
                probs.append((tag + ":value", "ravel() differs from the row-major vectorisation of the dense tensor"))
            if tuple(obj.shape) != shape or obj.ndim != model.ndim:
                probs.append((tag + ":shape", "shape/ndim attributes %r/%r, dense %r" % (obj.shape, obj.ndim, shape)))
            a2 = t.asarray(obj)
            if not _same(np.asarray(a2), model, st.exact, st.mag):
                probs.append((tag + ":asarray", "tensor.asarray(X) differs from X.asarray()"))
            return probs, None, "ravel"
        elif fam == "to_tucker":
            res, want = t.TuckerTensor.from_tensor(obj), model
            if not isinstance(res, t.TuckerTensor):
                return [(tag + ":type", "TuckerTensor.from_tensor returned %s" % type(res).__name__)], None, "type"
        elif fam == "to_canon":
            res, want = t.CanonicalTensor.from_tensor(obj), model
            if not isinstance(res, t.CanonicalTensor):
                return [(tag + ":type", "CanonicalTensor.from_tensor returned %s" % type(res).__name__)], None, "type"
        elif fam == "orth":
            res, want = obj.orthogonalize(), model
            exact = False
            mag = max(st.mag, repr_mag(obj))
            observer = "orthonormal"
        elif fam == "compress":
            res, want = obj.compress(), model
            exact = False
            mag = max(st.mag, repr_mag(obj))
        elif fam == "hosvd":
            res, want = t.hosvd(obj), model
            exact = False
            mag = max(st.mag, repr_mag(obj))
            observer = "orthonormal"
        elif fam == "trunc":
            k = ev[1]
            res = obj.truncate(tuple(k) if isinstance(k, list) else k)
            ks = k if isinstance(k, list) else [k] * len(shape)
            want = R.tucker_dense([np.asarray(U)[:, :kk] for U, kk in zip(obj.Us, ks)],
                                  np.asarray(obj.X)[tuple(slice(None, kk) for kk in ks)])
        elif fam == "join":
            pst = partner(ev[1], shape, seed)
            if pst is None:
                return [], None, "no-partner"
            tag = "join:%s" % ev[1]
            U, X1, X2 = t.join_tucker_bases(obj, pst.obj)
            res, want = t.TuckerTensor(U, X1), model
            other = t.TuckerTensor(U, X2)
            if not _same(np.asarray(other.asarray()), pst.model, True, 1.0):
                return [(tag + ":second", "TuckerTensor(U, X2) does not expand to T2")], None, "value"
        elif fam == "mksum":
            pst = partner(ev[1], shape, seed)
            if pst is None:
                return [], None, "no-partner"
            tag = "mksum:%s:%s" % (kind, ev[1])
            res, want = t.TensorSum(obj, pst.obj), model + pst.model
            mag = st.mag + pst.mag
        elif fam == "mkprod":
            vec = payload(seed, "vec:%s" % ev[1], (2,))
            if ev[1] == "right":
                res, want = t.TensorProd(obj, vec), np.multiply.outer(model, vec)
            else:
                res, want = t.TensorProd(vec, obj), np.multiply.outer(vec, model)
            mag = st.mag * 2.0
        else:
            raise ValueError("unknown event %r" % (ev,))
    except Exception as e:      # exceptions of the library on a legal input are results
        if accept_type_error and isinstance(e, TypeError) and str(e).startswith("cannot add"):
            return [], None, "refused"
        if fam in ("add", "sub", "join", "mksum") and pst is None:
            raise
        if isinstance(e, ValueError) and str(e).startswith("unknown event"):
            raise
        return [(exc_key(e), "%s on a %s of shape %r raised %r" % (describe(ev), KNAME[kind], shape, e))], None, "exception"

    probs = []
    want = np.asarray(want, dtype=float)
    rk = kind_of(res)
    if rk == "?":
        return [(tag + ":type", "%s returned %s, not a tensor" % (describe(ev), type(res).__name__))], None, "type"
    # -- value and shape --------------------------------------------------------------------------
    if rk == "x":
        if want.ndim != 0:
            probs.append((tag + ":shape", "%s returned a scalar, the dense result has shape %r" % (describe(ev), want.shape)))
        elif not _same(np.asarray(float(res)), want, exact, mag):
            probs.append((tag + ":value", "%s = %r, dense value %r" % (describe(ev), float(res), float(want))))
        child = None
    else:
        if fam == "idx" and want.ndim > 0 and rk != kind:
            probs.append((tag + ":type", "indexing a %s returned a %s (documented: same format)" % (kind, rk)))
        try:
            rshape, rndim = tuple(res.shape), int(res.ndim)
            got = np.asarray(t.asarray(res), dtype=float)
        except Exception as e:
            return [("asarray-" + exc_key(e), "asarray of the result of %s on a %s of shape %r raised %r"
                     % (describe(ev), KNAME[kind], shape, e))], None, "exception"
        if rshape != want.shape or rndim != want.ndim:
            probs.append((tag + ":shape", "%s has shape %r (ndim %d), the dense result has shape %r"
                          % (describe(ev), rshape, rndim, want.shape)))
        if got.shape != want.shape:
            probs.append((tag + ":asarray-shape", "asarray of %s has shape %r, the dense result has shape %r"
                          % (describe(ev), got.shape, want.shape)))
        elif not _same(got, want, exact, max(mag, repr_mag(res) if not exact else 0.0)):
            dev = float(np.max(np.abs(got - want))) if got.size else 0.0
            probs.append((tag + ":value", "asarray of %s deviates from the dense result by %.3g" % (describe(ev), dev)))
        if observer == "orthonormal" and not probs:
            for j, U in enumerate(res.Us):
                G = U.T.dot(U)
                if G.shape[0] and np.max(np.abs(G - np.eye(G.shape[0]))) > 1e-12:
                    probs.append((tag + ":orthonormal", "factor %d of %s does not have orthonormal columns" % (j, describe(ev))))
                    break
        child = None
        if need_child and not probs and want.size > 0 and fam not in ("mksum", "mkprod"):
            child = State(res, want, exact, max(mag, 1.0))
    # -- no mutation --------------------------------------------------------------------------------
    if not unchanged(st.snap):
        probs.append((tag + ":mutation", "%s changed its operand" % describe(ev)))
    if pst is not None and not unchanged(pst.snap):
        probs.append((tag + ":mutation-rhs", "%s changed its right operand" % describe(ev)))
        _PARTNERS.clear()
    return probs, child, (rk, tuple(want.shape), exact)


def _same(got, want, exact, mag):
    if got.shape != want.shape:
        return False
    if exact:
        return bool(np.array_equal(got, want))
    if got.size == 0:
        return True
    return bool(np.all(np.isfinite(got)) and np.max(np.abs(got - want)) <= TOL * max(mag, 1.0))


def describe(ev):
    fam = ev[0]
    if fam == "idx":
        def s(it):
            if isinstance(it, int):
                return str(it)
            if it[0] == "l":
                return str(it[1])
            return ":".join("" if v is None else str(v) for v in it[1:])
        return "X[%s]" % ", ".join(s(it) for it in ev[1])
    if fam in ("add", "sub"):
        return "X %s %s" % ("+" if fam == "add" else "-", ev[1])
    if fam == "nway":
        return "apply_tprod(%s %s, X)" % ({"d": "dense", "s": "sparse", "l": "LinearOperator"}[ev[2]], ev[1])
    if fam == "sq":
        return "X.squeeze(%s)" % ("" if ev[1] is None else ev[1])
    return "%s(%s)" % (fam, ", ".join(map(str, ev[1:])))


def idx_signature(items):
    ks = sorted(set(item_kind(it) for it in items) - {"all"})
    return "+".join(ks) if ks else "all"


# ------------------------------------------------------------------------------------------------
# the walk
# ------------------------------------------------------------------------------------------------

class Counters:
    def __init__(self):
        self.states = 0
        self.transitions = 0
        self.traces = 0
        self.fams = {}
        self.outcomes = set()
        self.nontrivial_traces = 0
        self.sample_path = []
        self.problems = {}       # key -> [count, first (path, message)]
        self.maxdev = 0.0

    def problem(self, key, path, msg):
        rec = self.problems.get(key)
        if rec is None:
            self.problems[key] = [1, (list(path), msg)]
        else:
            rec[0] += 1
            if len(path) < len(rec[1][0]):
                rec[1] = (list(path), msg)


def seed_problems(spec, seed):
    """constructor failures of the documented constructors are results of the seed case"""
    try:
        make_tensor(spec, seed)
    except Exception as e:
        name = {"C": "CanonicalTensor", "T": "TuckerTensor", "S": "TensorSum", "P": "TensorProd", "A": "ndarray"}[spec["kind"]]
        if int(spec.get("rank", 1)) == 0:
            name += ".zeros"
        return [(exc_key(e), "%s(%s) raised %r" % (name, tuple(spec["shape"]), e))]
    return []


def seed_state(spec, seed):
    obj = make_tensor(spec, seed)
    model = dense_of_spec_object(obj)
    st = State(obj, model, True, max(1.0, repr_mag(obj)))
    return st


def check_seed(st, spec):
    """depth-0 invariant: asarray of the constructed object equals the independent expansion"""
    t = T()
    try:
        got = np.asarray(t.asarray(st.obj), dtype=float)
    except Exception as e:
        return [("seed:%s:asarray-exception:%s" % (st.kind, type(e).__name__), "asarray raised %r" % (e,))]
    probs = []
    if got.shape != st.model.shape or not np.array_equal(got, st.model):
        probs.append(("seed:%s:value" % st.kind, "asarray of the constructed tensor differs from its definition"))
    if st.kind != "A" and (tuple(st.obj.shape) != st.model.shape or st.obj.ndim != st.model.ndim):
        probs.append(("seed:%s:shape" % st.kind, "shape/ndim attributes wrong"))
    return probs


def walk(st, depth, seed, ext, grow, path, fams, stack, cnt, first_only=None):
    """depth-first walk of the full event tree below `st` (no merging)."""
    cnt.states += 1
    evs = menu(st.kind, st.model.shape, ext and not path, grow)
    if first_only is not None:
        evs = [evs[first_only]]
    for ev in evs:
        probs, child, info = apply_event(st, ev, seed, depth > 1)
        cnt.transitions += 1
        cnt.fams[ev[0]] = cnt.fams.get(ev[0], 0) + 1
        cnt.outcomes.add(info if not isinstance(info, tuple) else (ev[0],) + info)
        # ancestors must be unchanged as well (results may share arrays with their operands)
        for anc in stack:
            if not unchanged(anc.snap):
                probs = probs + [("%s:%s:mutation-ancestor" % (ev[0], st.kind),
                                  "%s changed an array of an earlier tensor on the history" % describe(ev))]
                break
        p2 = path + [ev]
        for key, msg in probs:
            if ev[0] == "idx":
                key = key + ":" + idx_signature(ev[1])
            cnt.problem(key, p2, msg)
        f2 = fams + (ev[0],)
        if child is not None and depth > 1 and not probs:
            walk(child, depth - 1, seed, ext, grow, p2, f2, stack + [st], cnt)
        else:
            cnt.traces += 1
            if len(set(f2)) >= 2:
                cnt.nontrivial_traces += 1
                if len(p2) > len(cnt.sample_path):
                    cnt.sample_path = p2
    return cnt


def replay(spec, path, seed):
    """explorer-free: rebuild the seed, apply the events of `path` one by one, checking every step"""
    reset_caches()
    probs = seed_problems(spec, seed)
    if probs:
        return probs
    st = seed_state(spec, seed)
    probs = check_seed(st, spec)
    if probs:
        return probs
    stack = []
    for i, ev in enumerate(path):
        probs, child, info = apply_event(st, ev, seed)
        for anc in stack:
            if not unchanged(anc.snap):
                probs = probs + [("%s:%s:mutation-ancestor" % (ev[0], st.kind),
                                  "%s changed an array of an earlier tensor on the history" % describe(ev))]
                break
        if probs:
            if ev[0] == "idx":
                probs = [(k + ":" + idx_signature(ev[1]), m) for k, m in probs]
            return [(k, "after %s: %s" % ([describe(e) for e in path[:i]], m)) for k, m in probs]
        if child is None:
            break
        stack.append(st)
        st = child
    return []
