"""C11 part C -- the iteration drivers, by enumeration of the environment's answers.

iterative_solve: the `step` callable is scripted so that the residual reduction it produces realises every pattern
in {>= tol, < tol}^maxiter, maxiter <= 4, with and without x0 / active_dofs, for A given as ndarray, CSR matrix and
LinearOperator.  The driver must return at the first index whose reduction is below tol, with that count and that
iterate, after exactly that many calls of `step`; otherwise (x_maxiter, inf) after maxiter calls.

solve_hmultigrid: compared with an explicit loop over local_mg_step + the documented stopping rule (residual on the
non-Dirichlet dofs relative to the starting residual), and the returned iterate must itself (fail to) meet the test.

twogrid: u0 in {None, list, ndarray, zero ndarray} on small SPD problems must converge (terminate through its
tolerance test, not through 'Diverged' / 'too many iterations') and return a vector whose residual reduction is at
most sqrt(cond A) * tol (the bound that follows from the driver's own test, see twogrid_eval).
"""
import contextlib
import io
import itertools

import numpy as np

TOL = 2.0 ** -7
RHO = {0: 0.5, 1: 2.0 ** -9}       # reduction realised for answer 0 (not yet) / 1 (meets tol); both far from tol
N = 5
ACTIVE = [0, 2, 3]
INACTIVE = [1, 4]


# ----------------------------------------------------------------------------------------------------
# iterative_solve
# ----------------------------------------------------------------------------------------------------

def iter_cases():
    out = []
    for maxiter in (1, 2, 3, 4):
        for pat in itertools.product((0, 1), repeat=maxiter):
            for x0 in (False, True):
                for act in ("none", "list", "array"):
                    for mat in ("dense", "csr", "linop"):
                        out.append({"part": "iter", "maxiter": maxiter, "pattern": list(pat), "x0": x0, "active": act, "mat": mat})
    return out


def _iter_system(mat):
    import scipy.sparse
    import scipy.sparse.linalg
    Ad = (np.diag([4.0] * N) - np.diag([1.0] * (N - 1), 1) - np.diag([1.0] * (N - 1), -1))
    if mat == "dense":
        return Ad, Ad
    if mat == "csr":
        return Ad, scipy.sparse.csr_matrix(Ad)
    return Ad, scipy.sparse.linalg.aslinearoperator(scipy.sparse.csr_matrix(Ad))


def check_iter(case):
    from pyiga import solvers
    maxiter, pat, use_x0, act, mat = case["maxiter"], list(case["pattern"]), case["x0"], case["active"], case["mat"]
    Ad, A = _iter_system(mat)
    active = list(range(N)) if act == "none" else ACTIVE
    inactive = [] if act == "none" else INACTIVE
    # starting residual r0 = f - A x_start: O(1) on the active dofs, 2^10 on the inactive ones; with x0 the starting
    # residual on the active dofs is 2^-8 of |f| there (so res0 must really be the residual of x0)
    r0 = np.zeros(N)
    r0[active] = [(-1.0) ** k * (k % 3 + 1) for k in range(len(active))]
    r0[inactive] = 1024.0
    if use_x0:
        x0 = np.linalg.solve(Ad, 256.0 * np.where(np.isin(np.arange(N), active), r0, 0.0))
        f = Ad @ x0 + r0
    else:
        x0 = None
        f = r0.copy()
    xstart = np.zeros(N) if x0 is None else x0.copy()
    # scripted iterates: residual rho_k * r0 on the active dofs; on the inactive dofs 0 when the answer is
    # "not yet" and 2^10 |r0| when the answer is "meets tol" (the inactive dofs must be ignored)
    xs = []
    for bit in pat:
        r = np.zeros(N)
        r[active] = RHO[bit] * r0[active]
        r[inactive] = 0.0 if bit == 0 else 1024.0 * 1024.0
        xs.append(np.linalg.solve(Ad, f - r))
    got_args = []

    def step(x):
        got_args.append(np.array(x, dtype=float, copy=True))
        return xs[min(len(got_args), len(xs)) - 1].copy()      # calls beyond maxiter are counted and reported below

    kw = {}
    if use_x0:
        kw["x0"] = x0.copy()
    if act == "list":
        kw["active_dofs"] = list(ACTIVE)
    elif act == "array":
        kw["active_dofs"] = np.array(ACTIVE)
    call = "iterative_solve(step, A<%s>, f%s%s, tol=2**-7, maxiter=%d) with scripted reductions %s" % (
        mat, ", x0" if use_x0 else "", ", active_dofs=%s" % ACTIVE if act != "none" else "", maxiter,
        ["<tol" if b else ">=tol" for b in pat])
    tag = ("x0" if use_x0 else "nox0") + ("+active" if act != "none" else "")
    probs = []
    buf = io.StringIO()
    try:
        with contextlib.redirect_stdout(buf):
            ret = solvers.iterative_solve(step, A, f, tol=TOL, maxiter=maxiter, **kw)
        x, its = ret
    except Exception as e:
        return [("iter:exception:%s:%s" % (tag, type(e).__name__), "%s raised %r" % (call, e))]
    first = pat.index(1) + 1 if 1 in pat else None
    want_calls = first if first is not None else maxiter
    if len(got_args) > maxiter:
        return [("iter:calls:%s:beyond-maxiter" % tag, "%s called step %d times" % (call, len(got_args)))]
    if first is not None:
        if not (its == first):
            kind = "early" if (its != float("inf") and its < first) else "late"
            probs.append(("iter:count:%s:%s" % (tag, kind), "%s returned iterations=%r, first index meeting the reduction is %d" % (call, its, first)))
    else:
        if not (its == float("inf")):
            probs.append(("iter:limit-report:%s" % tag, "%s returned iterations=%r although no iterate met the reduction within maxiter (documented: infinite)" % (call, its)))
    if len(got_args) != want_calls and not probs:
        probs.append(("iter:calls:%s" % tag, "%s called step %d times, expected %d" % (call, len(got_args), want_calls)))
    if not probs:
        if not (np.shape(x) == (N,) and np.array_equal(np.asarray(x), xs[want_calls - 1])):
            probs.append(("iter:result:%s" % tag, "%s did not return the iterate of step %d" % (call, want_calls)))
        if not np.array_equal(got_args[0], xstart):
            probs.append(("iter:start:%s" % tag, "%s started from %s instead of %s" % (call, got_args[0].tolist(), xstart.tolist())))
        for k in range(1, len(got_args)):
            if not np.array_equal(got_args[k], xs[k - 1]):
                probs.append(("iter:chain:%s" % tag, "%s: call %d of step did not receive the previous iterate" % (call, k + 1)))
                break
    return probs


# ----------------------------------------------------------------------------------------------------
# solve_hmultigrid
# ----------------------------------------------------------------------------------------------------

HMG_SETTINGS = ((1e-8, 100), (1e-8, 2), (1e-1, 1))


def check_hmg(case):
    import scipy.linalg
    from pyiga import solvers
    from props import c11_mg as MG
    cfg, bd, tr = case["cfg"], case["bd"], bool(case["truncate"])
    strat, sm, tol, maxiter = case["strategy"], case["smoother"], float(case["tol"]), int(case["maxiter"])
    hist = MG.history_of(case)
    call = "solve_hmultigrid(hs, A, f, strategy=%r, smoother=%r, tol=%g, maxiter=%d) [p=%s k=%s disparity=%s bdspecs=%s %s history=%s]" % (
        strat, sm, tol, maxiter, cfg["p"], cfg["k"], cfg["disparity"], MG.bdspecs_of(bd, len(cfg["k"])), "THB" if tr else "HB",
        [list(map(list, ev)) for ev in hist])
    try:
        hs, refined = MG.build_space(cfg, hist, tr, bd)
        A, I, Mf = MG.system(hs)
        f = MG.rhs(I, Mf, "load", 0)
        nd = hs.non_dirichlet_dofs()
    except Exception as e:
        return [("hmg:exception:setup:%s" % type(e).__name__, "%s: setting up raised %r" % (call, e))]
    buf = io.StringIO()
    try:
        with contextlib.redirect_stdout(buf):
            x, its = solvers.solve_hmultigrid(hs, A, f, strategy=strat, smoother=sm, tol=tol, maxiter=maxiter)
    except Exception as e:
        return [("hmg:exception:%s" % type(e).__name__, "%s raised %r" % (call, e))]
    probs = []
    res0 = scipy.linalg.norm(f[nd])
    ratio = scipy.linalg.norm((f - A @ x)[nd]) / res0
    if its == float("inf"):
        if ratio < tol * (1 - 1e-9):
            probs.append(("hmg:limit-report", "%s reported no convergence (inf) but the returned vector has reduction %.3g < tol" % (call, ratio)))
    else:
        if not ratio < tol * (1 + 1e-9):
            probs.append(("hmg:stopped-early", "%s returned after %r iterations with reduction %.3g >= tol" % (call, its, ratio)))
        if not (1 <= its <= maxiter):
            probs.append(("hmg:count-range", "%s returned iterations=%r outside 1..maxiter" % (call, its)))
    if probs:
        return probs
    # explicit loop with the documented stopping rule
    try:
        step = solvers.local_mg_step(hs, A, f, hs.virtual_hierarchy_prolongators(), hs.indices_to_smooth(strat), sm)
        y = np.zeros(A.shape[0])
        want = float("inf")
        for k in range(1, maxiter + 1):
            y = step(y)
            if scipy.linalg.norm((f - A @ y)[nd]) / res0 < tol:
                want = k
                break
    except Exception as e:
        return [("hmg:exception:loop:%s" % type(e).__name__, "%s: explicit loop over local_mg_step raised %r" % (call, e))]
    if its != want:
        probs.append(("hmg:count", "%s returned iterations=%r, the explicit loop over local_mg_step stops at %r" % (call, its, want)))
    elif not np.abs(np.asarray(x) - y).max() <= 1e-12 * max(1.0, np.abs(y).max()):
        probs.append(("hmg:result", "%s returned a vector different from iterate %r of the explicit loop" % (call, want)))
    return probs


# ----------------------------------------------------------------------------------------------------
# twogrid
# ----------------------------------------------------------------------------------------------------

U0S = ("none", "list", "array", "zeros")
TG_SMOOTHERS = ("gs", "sgs", "seq")


def twogrid_cases(tier):
    out = []
    ps = (1, 2, 3)
    ns = (2, 3, 5) if tier == "quick" else (2, 3, 4, 5, 8)
    tols = (1e-8,) if tier == "quick" else (1e-8, 1e-4)
    for p in ps:
        for n in ns:
            for sm in TG_SMOOTHERS:
                for tol in tols:
                    for u0 in U0S:
                        out.append({"part": "twogrid", "p": p, "n": n, "smoother": sm, "tol": tol, "u0": u0})
    return out


def twogrid_eval(case):
    """returns (problems, achieved reduction / tol or None)"""
    from pyiga import assemble, bspline, solvers
    p, n, sm, tol, u0k = case["p"], case["n"], case["smoother"], float(case["tol"]), case["u0"]
    seed = case.get("seed", 0)
    kv_c = bspline.make_knots(p, 0.0, 1.0, n)
    kv = kv_c.refine()
    P = bspline.prolongation(kv_c, kv)
    M = assemble.mass(kv)
    A = M + assemble.stiffness(kv)
    nf = A.shape[0]
    f = M @ np.ones(nf)
    if sm == "gs":
        S = solvers.GaussSeidelSmoother()
    elif sm == "sgs":
        S = solvers.GaussSeidelSmoother(iterations=1, sweep="symmetric")
    else:
        S = solvers.SequentialSmoother((solvers.GaussSeidelSmoother(sweep="backward"), solvers.OperatorSmoother(1e-6 * np.eye(nf))))
    start = np.array([float((3 * j + seed) % 5 - 2) for j in range(nf)])
    if u0k == "none":
        u0, s = None, np.zeros(nf)
    elif u0k == "list":
        u0, s = [float(v) for v in start], start
    elif u0k == "array":
        u0, s = start.copy(), start
    else:
        u0, s = np.zeros(nf), np.zeros(nf)
    call = "twogrid(A, f, P, %s, u0=<%s>, tol=%g) [A = mass+stiffness, p=%d, %d coarse spans refined once]" % (sm, u0k, tol, p, n)
    buf = io.StringIO()
    try:
        with contextlib.redirect_stdout(buf):
            u = solvers.twogrid(A, f, P, S, u0=u0, tol=tol)
    except Exception as e:
        kind = "u0-array" if u0k in ("array", "zeros") else "u0-" + u0k
        return [("twogrid:%s:exception:%s" % (kind, type(e).__name__), "%s raised %r" % (call, e))], None
    probs = []
    text = buf.getvalue()
    if "Diverged" in text or "too many" in text:
        probs.append(("twogrid:no-convergence", "%s did not converge on an SPD problem: it printed %r" % (call, text.strip()[:80])))
        return probs, None
    u = np.asarray(u)
    if u.shape != (nf,):
        return [("twogrid:result-shape", "%s returned an object of shape %s" % (call, u.shape))], None
    res0 = np.linalg.norm(f - A @ s)
    res = np.linalg.norm(f - A @ u)
    # the driver measures the residual before its last coarse-grid correction; that correction cannot increase the
    # energy norm of the error, hence the returned residual is at most sqrt(cond(A)) * tol * res0
    bound = float(np.sqrt(np.linalg.cond(A.toarray()))) * tol * res0 * (1 + 1e-6)
    if not res <= bound:
        probs.append(("twogrid:tolerance", "%s returned a vector with residual reduction %.3g, more than sqrt(cond A) * tol = %.3g"
                      % (call, res / res0, bound / res0)))
    return probs, res / res0 / tol


def check_twogrid(case):
    return twogrid_eval(case)[0]
