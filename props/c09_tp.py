"""C09, tensor-product part: Kronecker path vs generic path vs predefined forms vs strings vs Kronecker
products of the exact 1D matrices; exact references under multilinear geometry maps with polynomial
Jacobian determinant; load vectors / inner products / integrals of monomials; closed-form 2x2 / 3x3
determinants and inverses on integer grids."""
import itertools
from fractions import Fraction

import numpy as np

from ref import galerkin as G
from props.c09_util import (RTOL, RTOL_ROUTES, Lib, cmp, dedupe, axis_objects, dense, monomial, box_of,
                            make_geo, scaled_min_eig)

SYM_TOL = 1e-13
SUM_TOL = 1e-12
KER_TOL = 1e-10      # |K 1|_max <= KER_TOL * max|K| (unchanged tree: <= 3e-15)
EIG_MIN = 1e-10      # smallest eigenvalue after diagonal scaling (unchanged tree, thorough space: >= 1.6e-8; a missing direction gives ~1e-17)
DENSE_MAX = 700      # largest matrix dimension for which spectra are computed

MASS_STR = "u * v * dx"
STIFF_STR = "inner(grad(u), grad(v)) * dx"


def _kron(mats):
    out = mats[0]
    for m in mats[1:]:
        out = np.kron(out, m)
    return out


def _setup(axes):
    objs = [axis_objects(a) for a in axes]
    kvs = tuple(o[0] for o in objs)
    Rs = [o[1] for o in objs]
    brs = [o[2] for o in objs]
    return kvs, Rs, brs


def _consequences(part, name, A, probs, stats, measure=None, stiffness=False, exact_sym=False):
    """symmetry, sum = measure, SPD / SPSD with kernel = constants"""
    if A is None:
        return
    Ad = dense(A)
    n = Ad.shape[0]
    sc = np.abs(Ad).max()
    asym = np.abs(Ad - Ad.T).max()
    if exact_sym:
        if asym != 0.0:
            probs.append((part + ":symmetry:bitwise", "%s: assembled with symmetric=True but not bitwise symmetric (%.3g)" % (name, asym)))
    elif asym > SYM_TOL * sc:
        probs.append((part + ":symmetry", "%s: not symmetric: %.3g (scale %.3g)" % (name, asym, sc)))
    if measure is not None:
        s = Ad.sum()
        if stats is not None:
            stats[part + ":sum"] = max(stats.get(part + ":sum", 0.0), abs(s - measure) / abs(measure))
        if abs(s - measure) > SUM_TOL * abs(measure):
            probs.append((part + ":sum", "%s: entries sum to %.17g, measure of the domain is %.17g" % (name, s, measure)))
    if stiffness:
        r = np.abs(Ad.sum(axis=1)).max()
        if stats is not None:
            stats[part + ":K1"] = max(stats.get(part + ":K1", 0.0), r / sc)
        if r > KER_TOL * sc:
            probs.append((part + ":K1", "%s: K*1 = %.3g (scale %.3g): constants are not in the kernel" % (name, r, sc)))
    if n <= DENSE_MAX:
        ev = scaled_min_eig(Ad, z=np.ones(n) if stiffness else None)
        if stats is not None and ev is not None:
            k = "eig:" + part
            stats[k] = min(stats.get(k, 1.0), ev)
        if ev is None or ev < EIG_MIN:
            if stiffness:
                probs.append((part + ":kernel", "%s: not positive semidefinite with kernel = constants (diagonally scaled "
                              "lambda_min(K + zz^T) = %r)" % (name, ev)))
            else:
                probs.append((part + ":spd", "%s: not positive definite (diagonally scaled lambda_min = %r)" % (name, ev)))


# -------------------------------------------------------------------------------------------------
# identity family: Kronecker path / generic path / predefined forms / strings
# -------------------------------------------------------------------------------------------------

def check_tpid(case, stats=None):
    from pyiga import assemble, geometry, vform
    axes = case["axes"]
    d = len(axes)
    kvs, Rs, brs = _setup(axes)
    box = box_of(axes)
    unit = all(tuple(b) == (0.0, 1.0) for b in box)
    probs = []
    lib = Lib(probs)
    try:
        Is = [G.PPInt(G.merged_breaks(br), max(2 * R.p, 1)) for R, br in zip(Rs, brs)]
        M1 = [G.fl(I.biform(R, 0, R, 0)) for I, R in zip(Is, Rs)]
        refM = _kron(M1)
        N = refM.shape[0]
        vol = float(np.prod([Fraction(b[1]) - Fraction(b[0]) for b in box]))
        stiff = all(R.p >= 1 for R in Rs)
        if stiff:
            K1 = [G.fl(I.biform(R, 1, R, 1)) for I, R in zip(Is, Rs)]
            refK = sum(_kron([K1[a] if a == b else M1[a] for a in range(d)]) for b in range(d))
        geo, mm = make_geo({"type": "identity"}, box)
        arg = kvs if d > 1 else kvs[0]
        routes_m, routes_k = [], []
        routes_m.append(("kron", lib("tp:mass", "mass(kvs)", assemble.mass, arg), False))
        routes_m.append(("fast-nogeo", lib("tp:mass", "mass_fast(kvs)", assemble.mass_fast, arg), False))
        if d > 1:
            routes_m.append(("kron", lib("tp:mass", "mass(list(kvs))", assemble.mass, list(kvs)), False))
            f = assemble.bsp_mass_2d if d == 2 else assemble.bsp_mass_3d
            routes_m.append(("kron", lib("tp:mass", "bsp_mass_%dd(kvs)" % d, f, kvs), False))
            routes_m.append(("generic", lib("tp:mass", "mass(kvs, geo=identity)", assemble.mass, kvs, geo), True))
            routes_m.append(("vform", lib("tp:mass", "assemble(mass_vf(%d), kvs, geo=identity)" % d, assemble.assemble,
                                          vform.mass_vf(d), kvs, geo=geo), False))
            routes_m.append(("vform", lib("tp:mass", "assemble(mass_vf(%d), kvs, geo=identity, symmetric=True)" % d, assemble.assemble,
                                          vform.mass_vf(d), kvs, geo=geo, symmetric=True), True))
            routes_m.append(("string", lib("tp:mass", "assemble(%r, kvs, geo=identity)" % MASS_STR, assemble.assemble,
                                           MASS_STR, kvs, geo=geo), False))
            if unit:
                ug = geometry.unit_square() if d == 2 else geometry.unit_cube()
                routes_m.append(("generic", lib("tp:mass", "mass(kvs, geometry.unit_%s())" % ("square" if d == 2 else "cube"),
                                                assemble.mass, kvs, ug), True))
        elif case.get("strings"):
            routes_m.append(("string", lib("tp:mass", "assemble(%r, (kv,), geo=identity)" % MASS_STR, assemble.assemble,
                                           MASS_STR, kvs, geo=geo), False))
        done = set()
        for route, A, exact_sym in routes_m:
            cmp("mass via %s, axes=%s" % (route, axes), A, refM, probs, "tp:mass:" + route, stats=stats)
            if route in ("kron", "generic") and (route, exact_sym) not in done and A is not None:
                done.add((route, exact_sym))
                _consequences("tp:mass:" + route, "mass via " + route, A, probs, stats, measure=vol, exact_sym=exact_sym)
        if stiff:
            routes_k.append(("kron", lib("tp:stiffness", "stiffness(kvs)", assemble.stiffness, arg), False))
            routes_k.append(("fast-nogeo", lib("tp:stiffness", "stiffness_fast(kvs)", assemble.stiffness_fast, arg), False))
            if d > 1:
                f = assemble.bsp_stiffness_2d if d == 2 else assemble.bsp_stiffness_3d
                routes_k.append(("kron", lib("tp:stiffness", "bsp_stiffness_%dd(kvs)" % d, f, kvs), False))
                routes_k.append(("generic", lib("tp:stiffness", "stiffness(kvs, geo=identity)", assemble.stiffness, kvs, geo), True))
                routes_k.append(("vform", lib("tp:stiffness", "assemble(stiffness_vf(%d), kvs, geo=identity)" % d, assemble.assemble,
                                              vform.stiffness_vf(d), kvs, geo=geo), False))
                if unit:
                    ug = geometry.unit_square() if d == 2 else geometry.unit_cube()
                    routes_k.append(("generic", lib("tp:stiffness", "stiffness(kvs, geometry.unit_%s())" % ("square" if d == 2 else "cube"),
                                                    assemble.stiffness, kvs, ug), True))
            if case.get("strings"):
                routes_k.append(("string", lib("tp:stiffness", "assemble(%r, kvs, geo=identity)" % STIFF_STR, assemble.assemble,
                                               STIFF_STR, kvs, geo=geo), False))
            done = set()
            for route, A, exact_sym in routes_k:
                cmp("stiffness via %s, axes=%s" % (route, axes), A, refK, probs, "tp:stiffness:" + route, stats=stats)
                if route in ("kron", "generic") and (route, exact_sym) not in done and A is not None:
                    done.add((route, exact_sym))
                    _consequences("tp:stiffness:" + route, "stiffness via " + route, A, probs, stats, stiffness=True, exact_sym=exact_sym)
            # div-div form (predefined vector-valued form): block (i, j) = int d_{x_i} v  d_{x_j} u
            if d > 1 and case.get("divdiv"):
                D = {}
                for a, (I, R) in enumerate(zip(Is, Rs)):
                    for du in (0, 1):
                        for dv in (0, 1):
                            D[a, du, dv] = G.fl(I.biform(R, du, R, dv))
                blocks = [[_kron([D[a, int(a == d - 1 - j), int(a == d - 1 - i)] for a in range(d)]) for j in range(d)]
                          for i in range(d)]
                refD = np.block(blocks)
                A = lib("tp:divdiv", "divdiv(kvs, geo=identity)", assemble.divdiv, kvs, geo)
                cmp("divdiv(kvs, identity), blocked, axes=%s" % (axes,), A, refD, probs, "tp:divdiv:blocked", stats=stats)
                A = lib("tp:divdiv", "divdiv(kvs, geo=identity, layout='packed')", assemble.divdiv, kvs, geo, layout="packed")
                perm = np.arange(N * d).reshape(d, N).T.ravel()       # packed index dof*d+comp -> blocked index comp*N+dof
                cmp("divdiv(kvs, identity), packed, axes=%s" % (axes,), A, refD[np.ix_(perm, perm)], probs, "tp:divdiv:packed", stats=stats)
                if unit:
                    A = lib("tp:divdiv", "divdiv(kvs)", assemble.divdiv, kvs)
                    cmp("divdiv(kvs), axes=%s" % (axes,), A, refD, probs, "tp:divdiv:nogeo", stats=stats)
    except Exception as e:
        probs.append(("tp:exception:%s" % type(e).__name__, "tensor-product identity-family check raised %r" % (e,)))
    return dedupe(probs), lib.calls


# -------------------------------------------------------------------------------------------------
# multilinear geometries with polynomial det J
# -------------------------------------------------------------------------------------------------

def _absdet(mm):
    s = mm.det_sign()
    if s is None:
        raise ValueError("geometry of the case is singular / changes orientation")
    return G.pscale(mm.det(), s), s


def check_tpgeo(case, stats=None):
    from pyiga import assemble, vform
    axes, spec = case["axes"], case["geo"]
    d = len(axes)
    kvs, Rs, brs = _setup(axes)
    box = box_of(axes)
    probs = []
    lib = Lib(probs)
    try:
        geo, mm = make_geo(spec, box)
        adet, sgn = _absdet(mm)
        pmax = max(R.p for R in Rs)
        degJ = [G.pdeg(adet, a) for a in range(d)]
        sufficient = all(2 * R.p + degJ[a] <= 2 * pmax + 1 for a, R in enumerate(Rs))
        Is = [G.PPInt(G.merged_breaks(br), max(2 * R.p + degJ[a], 1)) for a, (R, br) in enumerate(zip(Rs, brs))]
        measure = float(mm.measure())
        A1 = lib("tpgeo:mass", "mass(kvs, geo)", assemble.mass, kvs, geo)
        A2 = lib("tpgeo:mass", "assemble(mass_vf(%d), kvs, geo=geo)" % d, assemble.assemble, vform.mass_vf(d), kvs, geo=geo)
        if A1 is not None and A2 is not None:
            cmp("mass_vf vs mass(kvs, geo)", A2, dense(A1), probs, "tpgeo:mass:routes", rtol=RTOL_ROUTES, stats=stats)
        if sufficient:
            cache = {}

            def fac(a, e):
                if (a, e) not in cache:
                    cache[a, e] = Is[a].biform(Rs[a], 0, Rs[a], 0, wpow=e)
                return cache[a, e]
            refM = G.fl(G.tensor_contract(adet, fac))
            cmp("mass(kvs, geo) vs exact integral of N_i N_j |det J|, axes=%s geo=%s" % (axes, spec), A1, refM, probs,
                "tpgeo:mass:value", stats=stats)
            _consequences("tpgeo:mass", "mass(kvs, geo)", A1, probs, stats, measure=measure, exact_sym=True)
        else:
            _consequences("tpgeo:mass", "mass(kvs, geo)", A1, probs, stats, exact_sym=True)
        if all(R.p >= 1 for R in Rs):
            K1 = lib("tpgeo:stiffness", "stiffness(kvs, geo)", assemble.stiffness, kvs, geo)
            K2 = lib("tpgeo:stiffness", "assemble(stiffness_vf(%d), kvs, geo=geo)" % d, assemble.assemble, vform.stiffness_vf(d), kvs, geo=geo)
            if K1 is not None and K2 is not None:
                cmp("stiffness_vf vs stiffness(kvs, geo)", K2, dense(K1), probs, "tpgeo:stiffness:routes", rtol=RTOL_ROUTES, stats=stats)
            _consequences("tpgeo:stiffness", "stiffness(kvs, geo)", K1, probs, stats, stiffness=True, exact_sym=True)
            if all(dj == 0 for dj in degJ) and spec["type"] == "affine":
                # constant Jacobian: K = |det J| sum_{c1,c2} (J^T J)^{-1}_{c1 c2} int d_{c2} u d_{c1} v  (exact, rational)
                Jp = mm.jacobian()
                J = [[G.peval(Jp[i][c], [0] * d) for c in range(d)] for i in range(d)]
                JtJ = [[sum(J[k][i] * J[k][j] for k in range(d)) for j in range(d)] for i in range(d)]
                cols = [G.solve_exact(JtJ, [Fraction(int(i == j)) for i in range(d)]) for j in range(d)]
                Binv = [[cols[j][i] for j in range(d)] for i in range(d)]
                dconst = G.peval(adet, [0] * d)
                cacheK = {}

                def bf(a, du, dv):
                    if (a, du, dv) not in cacheK:
                        cacheK[a, du, dv] = Is[a].biform(Rs[a], du, Rs[a], dv)
                    return cacheK[a, du, dv]
                refK = None
                for c1 in range(d):
                    for c2 in range(d):
                        coef = dconst * Binv[c1][c2]
                        if coef == 0:
                            continue
                        t = None
                        for a in range(d):
                            f = bf(a, int(a == d - 1 - c2), int(a == d - 1 - c1))
                            t = f if t is None else G.kron_exact(t, f)
                        t = [[coef * v for v in row] for row in t]
                        refK = t if refK is None else [[x + y for x, y in zip(r1, r2)] for r1, r2 in zip(refK, t)]
                cmp("stiffness(kvs, affine geo) vs exact, axes=%s geo=%s" % (axes, spec), K1, G.fl(refK), probs,
                    "tpgeo:stiffness:value", stats=stats)
    except Exception as e:
        probs.append(("tpgeo:exception:%s" % type(e).__name__, "geometry check raised %r" % (e,)))
    return dedupe(probs), lib.calls


# -------------------------------------------------------------------------------------------------
# right-hand sides and integrals of monomials
# -------------------------------------------------------------------------------------------------

def monomials(d, each, total):
    return [e for e in itertools.product(range(each + 1), repeat=d) if sum(e) <= total]


def check_rhs(case, stats=None):
    from pyiga import assemble, vform
    axes, spec = case["axes"], case.get("geo")
    d = len(axes)
    kvs, Rs, brs = _setup(axes)
    box = box_of(axes)
    probs = []
    lib = Lib(probs)
    skipped = 0
    try:
        pmax = max(R.p for R in Rs)
        top = 2 * pmax + 1
        Is = [G.PPInt(G.merged_breaks(br), R.p + top) for R, br in zip(Rs, brs)]
        shape = tuple(R.n for R in Rs)
        if spec is not None:
            geo, mm = make_geo(spec, box)
            adet, sgn = _absdet(mm)
        mcache = {}

        def mom(a, e):
            if (a, e) not in mcache:
                mcache[a, e] = Is[a].moments(Rs[a], e)
            return mcache[a, e]
        arg = kvs if d > 1 else kvs[0]
        for exps in monomials(d, case["each"], case["total"]):
            f = monomial(exps)                       # f(x, y[, z])
            fpar = {tuple(exps[::-1]): Fraction(1)}   # as polynomial of the axis variables (axis d-1 is x)
            fphys = {tuple(exps): Fraction(1)}        # as polynomial of the physical variables
            modes = []
            if spec is None:
                modes.append(("nogeo", fpar, {}))
            else:
                modes.append(("param", G.pmul(fpar, adet), {"geo": geo}))
                modes.append(("phys", G.pmul(mm.compose(fphys), adet), {"geo": geo, "f_physical": True}))
            for mode, c, kw in modes:
                degs = [G.pdeg(c, a) for a in range(d)]
                tag = "f=x^%s, %s, axes=%s geo=%s" % (list(exps), mode, axes, spec)
                # integrate: rule with pmax+1 nodes per span and direction
                if all(dg <= top for dg in degs):
                    ex = float(G.pintegrate_box(c, box))
                    sc = float(G.pintegrate_box({e: abs(v) for e, v in c.items()},
                                                [(0, max(abs(Fraction(a)), abs(Fraction(b)))) for a, b in box]))
                    got = lib("integrate", "integrate(kvs, %s)" % tag, assemble.integrate, arg, f, **kw)
                    if got is not None:
                        if np.ndim(got) != 0:
                            probs.append(("integrate:shape", "integrate(%s) returned shape %s" % (tag, np.shape(got))))
                        elif not np.isfinite(got) or abs(float(got) - ex) > RTOL * sc:
                            probs.append(("integrate:value:" + mode, "integrate(%s) = %.17g, exact %.17g (scale %.3g)" % (tag, got, ex, sc)))
                        elif stats is not None and sc > 0:
                            stats["integrate:" + mode] = max(stats.get("integrate:" + mode, 0.0), abs(float(got) - ex) / sc)
                else:
                    skipped += 1
                if all(dg + R.p <= top for dg, R in zip(degs, Rs)):
                    ref = G.fl(G.tensor_contract(c, mom)).reshape(shape)
                    got = lib("inner_products", "inner_products(kvs, %s)" % tag, assemble.inner_products, arg, f, **kw)
                    cmp("inner_products(%s)" % tag, got, ref, probs, "inner_products:value:" + mode, stats=stats)
                    if d > 1 and spec is not None:
                        vf = vform.L2functional_vf(d, physical=(mode == "phys"))
                        got = lib("L2functional", "assemble(L2functional_vf(%d, physical=%s), %s)" % (d, mode == "phys", tag),
                                  assemble.assemble, vf, kvs, geo=geo, f=f)
                        cmp("L2functional_vf(%s)" % tag, got, ref, probs, "L2functional:value:" + mode, stats=stats)
                else:
                    skipped += 1
    except Exception as e:
        probs.append(("rhs:exception:%s" % type(e).__name__, "right-hand side check raised %r" % (e,)))
    return dedupe(probs), lib.calls


# -------------------------------------------------------------------------------------------------
# closed-form determinants / inverses on integer grids (device 3: multilinear identities)
# -------------------------------------------------------------------------------------------------

def check_det(case, stats=None):
    from pyiga import assemble_tools
    d = case["d"]
    vals = case["values"]
    probs = []
    lib = Lib(probs)
    try:
        grid = np.array(list(itertools.product(vals, repeat=d * d)), dtype=float).reshape(-1, d, d)
        n = grid.shape[0]
        # arrange as the (n0, n1[, n2], d, d) arrays the routines document
        if d == 2:
            k = int(round(n ** 0.5))
            X = np.ascontiguousarray(grid.reshape(k, n // k, 2, 2))
        else:
            k = int(round(n ** (1 / 3.0)))
            while n % (k * k):
                k -= 1
            X = np.ascontiguousarray(grid.reshape(k, k, n // (k * k), 3, 3))
        Xc = X.copy()
        if d == 2:
            det = X[..., 0, 0] * X[..., 1, 1] - X[..., 0, 1] * X[..., 1, 0]
            adj = np.empty_like(X)
            adj[..., 0, 0], adj[..., 0, 1], adj[..., 1, 0], adj[..., 1, 1] = X[..., 1, 1], -X[..., 0, 1], -X[..., 1, 0], X[..., 0, 0]
        else:
            det = np.zeros(X.shape[:-2])
            for perm in itertools.permutations(range(3)):
                sg = np.linalg.det(np.eye(3)[list(perm)])
                det += round(sg) * X[..., 0, perm[0]] * X[..., 1, perm[1]] * X[..., 2, perm[2]]
            adj = np.empty_like(X)
            for i in range(3):
                for j in range(3):
                    r = [x for x in range(3) if x != j]
                    c = [x for x in range(3) if x != i]
                    m = X[..., r[0], c[0]] * X[..., r[1], c[1]] - X[..., r[0], c[1]] * X[..., r[1], c[0]]
                    adj[..., i, j] = (-1) ** (i + j) * m
        reg = det != 0
        got = lib("det", "determinants(X)", assemble_tools.determinants, X)
        if got is not None:
            got = np.asarray(got)
            if got.shape != det.shape:
                probs.append(("det:determinants:shape", "determinants: shape %s, expected %s" % (got.shape, det.shape)))
            elif not np.array_equal(got, det):
                probs.append(("det:determinants:value", "determinants differs from the integer determinant on %d of %d grid matrices"
                              % (int((got != det).sum()), det.size)))
        r = lib("det", "det_and_inv(X)", assemble_tools.det_and_inv, X)
        invs = []
        if r is not None:
            g_det, g_inv = np.asarray(r[0]), np.asarray(r[1])
            if g_det.shape != det.shape or not np.array_equal(g_det, det):
                probs.append(("det:det_and_inv:det", "det_and_inv: determinant differs from the integer determinant"))
            invs.append(("det_and_inv", g_inv))
        r = lib("det", "inverses(X)", assemble_tools.inverses, X)
        if r is not None:
            invs.append(("inverses", np.asarray(r)))
        for name, g_inv in invs:
            if g_inv.shape != X.shape:
                probs.append(("det:%s:shape" % name, "%s: inverse has shape %s" % (name, g_inv.shape)))
                continue
            ref = adj[reg] / det[reg][:, None, None]
            err = np.abs(g_inv[reg] - ref).max()
            if not np.all(np.isfinite(g_inv[reg])) or err > 1e-14 * max(1.0, np.abs(ref).max()):
                probs.append(("det:%s:value" % name, "%s: inverse deviates from adj/det by %.3g on regular grid matrices" % (name, err)))
        if not np.array_equal(X, Xc):
            probs.append(("det:mutation", "input array modified"))
    except Exception as e:
        probs.append(("det:exception:%s" % type(e).__name__, "determinant helper raised %r" % (e,)))
    return dedupe(probs), lib.calls
