"""C05 -- every transfer between nested spline spaces preserves the function.

(a) E2: all pairs (coarse, fine) of nested knot vectors from the shape alphabet x all sub-multisets of a
    candidate insertion set: prolongation / knot_insertion against exact Boehm insertion in Fractions.
(b) E1: on the C04 state graphs: represent_fine(lv), virtual-hierarchy prolongators (HB and THB),
    level-wise evaluation of hierarchical splines (values, gradients, Hessians, single points) on every
    unit coefficient vector, boundary restriction maps, and prolongate_to for every ancestor/descendant
    pair of states (all edges; all pairs at distance 2 in the thorough tier).
"""
import itertools

import numpy as np

from mc import par
from mc.outcome import Outcome
from ref import bsp, hmodel, kvs as KV

ID = "C05"
LEVEL = "model_checking"

TOL = 1e-11


# ------------------------------------------------------------------------------------------------------
# (a) knot vectors
# ------------------------------------------------------------------------------------------------------

def kv_cases(tier):
    out = []
    pmax = 3 if tier == "quick" else 6
    maxins = 2 if tier == "quick" else 3
    for p in range(0, pmax + 1):
        for name, br, m in KV.kv_shapes(p):
            if tier == "quick" and name in ("U4",) and p >= 2:
                continue
            if tier == "thorough" and name == "U4" and p >= 5 and sum(m) % 3:
                continue
            out.append({"part": "kv", "p": p, "pattern": name, "mults": m, "maxins": maxins})
    return out


def candidates(br, mults, p):
    cand = []
    # existing interior knots (while multiplicity stays <= p)
    for b, m in zip(br[1:-1], mults):
        for _ in range(max(0, min(2, p - m))):
            cand.append(float(b))
    for x0, x1 in zip(br[:-1], br[1:]):
        cand.append(float(x0 + (x1 - x0) / 2))
    if len(br) > 2:
        b = br[1]
        cand.append(float(b + (br[2] - b) * 1e-9))
    cand.append(float(br[0] + (br[1] - br[0]) * 0.25))
    cand.append(float(br[-1] - (br[-1] - br[-2]) * 0.125))
    return cand


def check_kv(case):
    from pyiga import bspline
    p = case["p"]
    br = KV.PATTERNS[case["pattern"]]
    kn = KV.knots_from(br, case["mults"], p)
    cand = candidates(br, case["mults"], p)
    probs = []
    n_pairs = 0
    seen = set()
    worst = 0.0
    try:
        for r in range(1, case["maxins"] + 1):
            for combo in itertools.combinations(range(len(cand)), r):
                ins = tuple(sorted(cand[i] for i in combo))
                if ins in seen:
                    continue
                seen.add(ins)
                fine = np.sort(np.concatenate((kn, np.array(ins))))
                # admissible: interior multiplicity <= max(p,1)
                u, c = np.unique(fine[p + 1:len(fine) - p - 1], return_counts=True)
                if c.size and c.max() > max(p, 1):
                    continue
                n_pairs += 1
                Pref = bsp.to_float(bsp.refinement_matrix(kn, fine, p))
                kv1 = bspline.KnotVector(kn.copy(), p)
                kv2 = bspline.KnotVector(fine.copy(), p)
                P = bspline.prolongation(kv1, kv2).toarray()
                err = np.abs(P - Pref).max() if P.shape == Pref.shape else np.inf
                worst = max(worst, err if np.isfinite(err) else 0.0)
                if not err <= TOL:
                    probs.append(("kv:prolongation", "prolongation(%s + %r) deviates from exact knot insertion by %.3g" % (case["pattern"], list(ins), err)))
                # via refine(new_knots)
                kv3 = kv1.refine(np.array(ins))
                if not np.array_equal(np.asarray(kv3.kv), fine):
                    probs.append(("kv:refine", "refine(new_knots) is not the sorted union"))
                # single knot insertion, composed
                cur = bspline.KnotVector(kn.copy(), p)
                M = np.eye(cur.numdofs)
                for x in ins:
                    Mi = bspline.knot_insertion(cur, x).toarray()
                    M = Mi @ M
                    cur = cur.refine(np.array([x]))
                err = np.abs(M - Pref).max() if M.shape == Pref.shape else np.inf
                if not err <= TOL:
                    probs.append(("kv:knot_insertion", "composed knot_insertion(%s + %r) deviates from exact knot insertion by %.3g" % (case["pattern"], list(ins), err)))
                if len(probs) > 3:
                    return n_pairs, worst, probs
        # uniform refinement chains (length <= 3), prolongation between successive levels and composed
        kv = bspline.KnotVector(kn.copy(), p)
        chain = [kv]
        for _ in range(2 if p > 3 else 3):
            chain.append(chain[-1].refine())
        M = np.eye(kv.numdofs)
        for a, b in zip(chain[:-1], chain[1:]):
            Pab = bspline.prolongation(a, b).toarray()
            Pref = bsp.to_float(bsp.refinement_matrix(np.asarray(a.kv), np.asarray(b.kv), p))
            n_pairs += 1
            if not np.abs(Pab - Pref).max() <= TOL:
                probs.append(("kv:prolongation:chain", "prolongation along a uniform refinement chain deviates by %.3g" % np.abs(Pab - Pref).max()))
            M = Pab @ M
        Pref = bsp.to_float(bsp.refinement_matrix(kn, np.asarray(chain[-1].kv), p))
        if not np.abs(M - Pref).max() <= 10 * TOL:
            probs.append(("kv:prolongation:composed", "composed chain prolongation deviates by %.3g" % np.abs(M - Pref).max()))
    except Exception as e:
        probs.append(("kv:exception:%s" % type(e).__name__, "transfer routine raised %r" % (e,)))
    return n_pairs, worst, probs


# ------------------------------------------------------------------------------------------------------
# (b) hierarchical
# ------------------------------------------------------------------------------------------------------

def hrows(tier):
    R = []
    def add(name, k, L, p, disp, tmark=False, breaks=None):
        R.append({"row": name + ("-graded" if breaks else ""), "k": list(k), "L": L, "p": list(p), "disparity": disp,
                  "mark_truncate": tmark, "maxmark": None, "breaks": breaks})
    if tier != "quick":
        add("2D-2x2-L1", (2, 2), 1, (2, 2), "inf", breaks=[[0.0, 0.5, 1.0], [0.0, 0.3, 1.0]])
        add("2D-2x1-L2", (2, 1), 2, (2, 2), 1, breaks=[[0.0, 0.35, 1.0], [0.0, 1.0]])
        add("1D-k2-L3", (2,), 3, (3,), 1, tmark=True)
        add("2D-2x1-L2", (2, 1), 2, (2, 2), 1, tmark=True)
    if tier == "quick":
        add("1D-k3-L2", (3,), 2, (2,), "inf")
        add("1D-k2-L3", (2,), 3, (2,), "inf")
        add("1D-k2-L3", (2,), 3, (1,), 1)
        # THB-admissible marking (refine(..., truncate=True)): HB functions interact beyond the disparity
        add("1D-k2-L3", (2,), 3, (2,), 1, tmark=True)
        # equal degree and number of dofs per direction, different (graded) breakpoints
        add("2D-2x2-L1", (2, 2), 1, (2, 2), "inf", breaks=[[0.0, 0.5, 1.0], [0.0, 0.3, 1.0]])
        add("2D-2x1-L2", (2, 1), 2, (2, 1), "inf")
    else:
        for p in (1, 2, 3):
            add("1D-k3-L2", (3,), 2, (p,), "inf")
            add("1D-k2-L3", (2,), 3, (p,), "inf")
        for d in (1, 2):
            add("1D-k2-L3", (2,), 3, (2,), d)
            add("1D-k3-L2", (3,), 2, (1,), d)
        add("2D-2x1-L2", (2, 1), 2, (2, 1), "inf")
        add("2D-2x1-L2", (2, 1), 2, (1, 1), 1)
        add("2D-2x1-L2", (2, 1), 2, (2, 2), "inf")
        add("2D-2x2-L1", (2, 2), 1, (2, 2), "inf")
    return R


_REFC = {}


def _fine_colloc(M, lv, der):
    """reference collocation matrices (value/der) of the TP space on level lv at a fixed point grid"""
    key = (M.degs, M.ncoarse, M.mults, repr(M.breaks), lv, der)
    if key not in _REFC:
        mats, grids = [], []
        for d in range(M.dim):
            kn = M.knots(lv, d)
            R = bsp.RefKV(kn, M.degs[d])
            n = M.ncell(lv, d)
            pts = sorted({M.a + (M.b - M.a) * (i + t) / n for i in range(n) for t in (0.0, 0.37)} | {M.b})
            grids.append(np.array(pts))
            mats.append(R.colloc(pts, der=der))
        _REFC[key] = (grids, mats)
    return _REFC[key]


def _tp_eval(M, lv, ders):
    grids = _fine_colloc(M, lv, 0)[0]
    A = _fine_colloc(M, lv, ders[0])[1][0]
    for d in range(1, M.dim):
        A = np.kron(A, _fine_colloc(M, lv, ders[d])[1][d])
    return grids, A


def state_problems(case):
    """all per-state transfer checks"""
    from props import c04
    from pyiga import hierarchical
    cfg = case["cfg"]
    c04.setup(cfg)
    hist = [tuple((lv, tuple(c)) for lv, c in ev) for ev in case["history"]]
    st = c04.build(hist)
    if st.error:
        return []        # C04's finding, not a transfer
    hs, refined = st.hs, st.refined
    M = c04._G["model"]
    L = hs.numlevels
    probs = []
    try:
        R = {False: M.rep_hb(refined, L), True: M.rep_thb(refined, L)}
        n = R[False].shape[1]
        # represent_fine for every virtual level
        for lv in range(L):
            for tr in (False, True):
                ref = M.rep_thb(refined, L, lv) if tr else M.rep_hb(refined, L, lv)
                got = hs.represent_fine(lv=lv, truncate=tr).toarray()
                if got.shape != ref.shape or np.abs(got - ref).max() > TOL:
                    probs.append(("represent_fine:lv:%s" % ("thb" if tr else "hb"),
                                  "represent_fine(lv=%d, truncate=%s) differs from the reference" % (lv, tr)))
        # virtual hierarchy prolongators
        for tr in (False, True):
            Ps = hs.virtual_hierarchy_prolongators(truncate=tr)
            if len(Ps) != L - 1:
                probs.append(("vhp:count", "virtual_hierarchy_prolongators returned %d matrices for %d levels" % (len(Ps), L)))
                continue
            tag = "thb" if tr else "hb"
            for k in range(L - 1):
                comp = np.eye(Ps[k].shape[1])
                for j in range(k, L - 1):
                    comp = Ps[j].toarray() @ comp
                if comp.shape[0] != n:
                    probs.append(("vhp:shape:" + tag, "composition from level %d has %d rows, numdofs=%d" % (k, comp.shape[0], n)))
                    break
                Vk = M.rep_hb(refined, L, k)
                want = M.Ptp_range(k, L - 1) @ Vk
                got = R[tr] @ comp
                if got.shape != want.shape:
                    probs.append(("vhp:shape:" + tag, "composition from level %d acts on %d coefficients, virtual level has %d" % (k, comp.shape[1], Vk.shape[1])))
                    break
                if k == 0 or not tr:
                    if np.abs(got - want).max() > TOL:
                        probs.append(("vhp:function:%s:%s:%s" % (tag, "coarsest" if k == 0 else "intermediate", "2-levels" if L == 2 else "3+levels"),
                                      "composed prolongators from virtual level %d of %d do not reproduce the function (max dev %.3g)"
                                      % (k, L, np.abs(got - want).max())))
                        break
                r1, r2 = np.linalg.matrix_rank(got, 1e-9), np.linalg.matrix_rank(want, 1e-9)
                r12 = np.linalg.matrix_rank(np.hstack((got, want)), 1e-9)
                if not (r1 == r2 == r12):
                    probs.append(("vhp:span:%s:%s" % (tag, "2-levels" if L == 2 else "3+levels"), "columns composed from virtual level %d of %d span a different space (ranks %d/%d/%d)" % (k, L, r1, r2, r12)))
                    break
        # evaluation through level-wise contributions on every unit coefficient vector
        grids, E0 = _tp_eval(M, L - 1, [0] * M.dim)
        E = {0: E0}
        shape = tuple(len(g) for g in grids)
        for tr in (False, True):
            tag = "thb" if tr else "hb"
            want_v = (E0 @ R[tr])
            for j in range(n):
                e = np.zeros(n)
                e[j] = 1.0
                f = hierarchical.HSplineFunc(hs, e, truncate=tr)
                v = np.asarray(f.grid_eval(tuple(grids))).reshape(-1)
                if np.abs(v - want_v[:, j]).max() > 1e-10:
                    probs.append(("eval:grid:" + tag, "HSplineFunc.grid_eval of unit vector %d differs from its TP representation by %.3g" % (j, np.abs(v - want_v[:, j]).max())))
                    break
                if j % 3 == 0:
                    # Jacobian (x first) and Hessian (xx, xy, yy ...)
                    Jw = []
                    for c in range(M.dim):
                        ders = [1 if a == M.dim - 1 - c else 0 for a in range(M.dim)]
                        Jw.append(_tp_eval(M, L - 1, ders)[1] @ R[tr][:, j])
                    Jw = np.stack(Jw, axis=-1)
                    Jg = np.asarray(f.grid_jacobian(tuple(grids))).reshape(-1, M.dim)
                    sc = max(1.0, np.abs(Jw).max())
                    if np.abs(Jg - Jw).max() > 1e-10 * sc:
                        probs.append(("eval:jacobian:" + tag, "HSplineFunc.grid_jacobian of unit vector %d deviates by %.3g" % (j, np.abs(Jg - Jw).max())))
                        break
                    if min(M.degs) >= 1:
                        Hw = []
                        for c1 in range(M.dim):
                            for c2 in range(c1, M.dim):
                                ders = [0] * M.dim
                                ders[M.dim - 1 - c1] += 1
                                ders[M.dim - 1 - c2] += 1
                                Hw.append(_tp_eval(M, L - 1, ders)[1] @ R[tr][:, j])
                        Hw = np.stack(Hw, axis=-1)
                        Hg = np.asarray(f.grid_hessian(tuple(grids))).reshape(Hw.shape)
                        sc = max(1.0, np.abs(Hw).max())
                        if np.abs(Hg - Hw).max() > 1e-10 * sc:
                            probs.append(("eval:hessian:" + tag, "HSplineFunc.grid_hessian of unit vector %d deviates by %.3g" % (j, np.abs(Hg - Hw).max())))
                            break
                    # single points, called as f(x, y)
                    for flat in (0, want_v.shape[0] // 2, want_v.shape[0] - 1):
                        mi = np.unravel_index(flat, shape)
                        x = [float(grids[d][mi[d]]) for d in range(M.dim)]
                        val = f(*reversed(x))
                        if abs(float(val) - want_v[flat, j]) > 1e-10:
                            probs.append(("eval:point:" + tag, "HSplineFunc(%s) of unit vector %d = %r, TP representation gives %r" % (list(reversed(x)), j, val, want_v[flat, j])))
                            break
        # the explicit truncate argument of the evaluation decides how the coefficients are read, whatever the space's own
        # flag says; None means the space's flag (the combination own=False / explicit flag is covered above)
        own0 = hs.truncate
        try:
            for own, tr in ((True, False), (True, True), (True, None), (False, None)):
                hs.truncate = own
                eff = own if tr is None else tr
                want_v = (E0 @ R[eff])
                for j in range(n):
                    e = np.zeros(n)
                    e[j] = 1.0
                    v = np.asarray(hierarchical.HSplineFunc(hs, e, truncate=tr).grid_eval(tuple(grids))).reshape(-1)
                    if np.abs(v - want_v[:, j]).max() > 1e-10:
                        probs.append(("eval:grid:flag:space=%s:arg=%s" % (own, tr),
                                      "HSplineFunc(hs, e_%d, truncate=%s).grid_eval on a space with hs.truncate=%s differs from the TP "
                                      "representation of the %s function by %.3g" % (j, tr, own, "THB" if eff else "HB", np.abs(v - want_v[:, j]).max())))
                        break
        finally:
            hs.truncate = own0
        # boundary restriction (dim >= 2)
        if M.dim >= 2:
            for ax in range(M.dim):
                for side in (0, 1):
                    bhs, mapping = hs.boundary((ax, side))
                    mapping = [int(i) for i in mapping]
                    nf = M.nfun_tp(L - 1)
                    rows = [i for i, mi in enumerate(itertools.product(*(range(k) for k in nf)))
                            if mi[ax] == (0 if side == 0 else nf[ax] - 1)]
                    Rf = R[False][rows, :]
                    nonzero = [j for j in range(n) if np.abs(Rf[:, j]).max() > 0]
                    if sorted(mapping) != nonzero:
                        probs.append(("boundary:map:set", "boundary((%d,%d)) maps to functions %s, functions that do not vanish on the face: %s" % (ax, side, sorted(mapping)[:8], nonzero[:8])))
                        continue
                    # the boundary space itself: same refinement restricted to the face
                    Mb = hmodel.HModel([p for d, p in enumerate(M.degs) if d != ax], [k for d, k in enumerate(M.ncoarse) if d != ax],
                                       breaks=[b for d, b in enumerate(M.breaks) if d != ax] if M.breaks else None)
                    Lb = bhs.numlevels
                    ref_b = [set(tuple(int(x) for x in c) for c in bhs.hmesh.deactivated[l]) for l in range(Lb)]
                    Rb = Mb.rep_hb(ref_b, Lb)
                    Rb = Mb.Ptp_range(Lb - 1, L - 1) @ Rb if Lb < L else Rb
                    if int(bhs.numdofs) != len(mapping) or Rb.shape[1] != len(mapping):
                        probs.append(("boundary:size", "boundary space has %d dofs, map has %d entries" % (bhs.numdofs, len(mapping))))
                        continue
                    # the boundary space must be the hierarchical space over the knot vectors of the FACE
                    for l in range(Lb):
                        want_kn = [np.asarray(Mb.knots(l, dd)) for dd in range(Mb.dim)]
                        got_kv = bhs.knotvectors(l)
                        if len(got_kv) != len(want_kn) or any(kv.p != Mb.degs[dd] or np.asarray(kv.kv).shape != want_kn[dd].shape
                                                               or np.abs(np.asarray(kv.kv) - want_kn[dd]).max() > 1e-14
                                                               for dd, kv in enumerate(got_kv)):
                            probs.append(("boundary:knotvectors", "boundary((%d,%d)): level %d of the boundary space does not use the knot vectors of the face" % (ax, side, l)))
                            break
                    else:
                        Gb = bhs.represent_fine(truncate=False).toarray()
                        Rb_own = Mb.rep_hb(ref_b, Lb)
                        if Gb.shape != Rb_own.shape or np.abs(Gb - Rb_own).max() > TOL:
                            probs.append(("boundary:represent_fine", "boundary((%d,%d)): the boundary space represents different functions than the face restriction" % (ax, side)))
                    if np.abs(Rf[:, mapping] - Rb).max() > TOL:
                        probs.append(("boundary:function", "restriction of function map[i] to face (%d,%d) is not boundary function i" % (ax, side)))
    except Exception as e:
        import traceback
        tb = traceback.extract_tb(e.__traceback__)
        if tb[-1].filename.startswith("/verif/"):
            raise
        probs.append(("state:exception:%s" % type(e).__name__, "%r at %s:%d" % (e, tb[-1].filename.split("/")[-1], tb[-1].lineno)))
    return probs


def pair_problems(case):
    """c.prolongate_to(f) for an ancestor state c and a descendant f (f = c + extra refinement calls)"""
    from props import c04
    cfg = case["cfg"]
    c04.setup(cfg)
    hist = [tuple((lv, tuple(c)) for lv, c in ev) for ev in case["history"]]
    ext = [tuple((lv, tuple(c)) for lv, c in ev) for ev in case["extra"]]
    sc, sf = c04.build(hist), c04.build(hist + ext)
    if sc.error or sf.error:
        return []
    M = c04._G["model"]
    probs = []
    # adaptive-loop usage: the coarse space is a copy taken from the SAME object (with filled caches) before it is
    # refined further; must give the same prolongation as two independently built spaces
    try:
        warm = c04.build(hist)
        c04.warm(warm.hs)
        coarse = warm.hs.copy()
        for ev in ext:
            c04.apply_event(warm, ev)
        if not warm.error:
            Pw = coarse.prolongate_to(warm.hs).toarray()
            Pc = sc.hs.prolongate_to(sf.hs).toarray()
            if Pw.shape != Pc.shape or np.abs(Pw - Pc).max() > TOL:
                probs.append(("prolongate_to:warm-object", "prolongate_to between a copy of a space and the same object refined further "
                              "differs from the prolongation between two freshly built spaces (stale index caches)"))
    except Exception as e:
        probs.append(("prolongate_to:warm-object:exception:%s" % type(e).__name__, "%r" % (e,)))
    try:
        P = sc.hs.prolongate_to(sf.hs).toarray()
        Lc, Lf = sc.hs.numlevels, sf.hs.numlevels
        Ic, If = M.rep_hb(sc.refined, Lc), M.rep_hb(sf.refined, Lf)
        want = M.Ptp_range(Lc - 1, Lf - 1) @ Ic
        if P.shape != (If.shape[1], Ic.shape[1]):
            return [("prolongate_to:shape", "prolongate_to has shape %s, expected %s" % (P.shape, (If.shape[1], Ic.shape[1])))]
        err = np.abs(If @ P - want).max()
        if err > TOL:
            nl = Lf - Lc
            probs.append(("prolongate_to:function:disp=%s" % cfg["disparity"],
                          "prolongate_to does not reproduce the coarse functions in the refined space (max dev %.3g; %d -> %d levels)" % (err, Lc, Lf)))
    except Exception as e:
        probs.append(("prolongate_to:exception:%s" % type(e).__name__, "prolongate_to raised %r" % (e,)))
    return probs


# ------------------------------------------------------------------------------------------------------

def check_case(case):
    if case["part"] == "kv":
        return _dedupe(check_kv(case)[2])
    if case["part"] == "state":
        return _dedupe(state_problems(case))
    return _dedupe(pair_problems(case))


def _dedupe(probs):
    seen, out = set(), []
    for k, m in probs:
        if k not in seen:
            seen.add(k)
            out.append((k, m))
    return out


def _w(case):
    if case["part"] == "kv":
        n, worst, probs = check_kv(case)
        return n, _dedupe(probs)
    return 1, check_case(case)


def _graph_worker(cfg):
    from props import c04
    g = c04.state_graph(cfg, check=False, workers=1)
    c04.setup(cfg)
    items = []
    for d, hist in g.rep.items():
        st = c04.build(hist)
        evs = c04.enabled(st)
        items.append((hist, evs))
    return cfg, items


def run(ctx):
    out = Outcome()
    cases = kv_cases(ctx.tier)
    nkv = len(cases)
    graphs = par.pmap(_graph_worker, hrows(ctx.tier), min_parallel=2, chunk=1)
    npairs = 0
    from props import c04

    def enc(ev):
        return [[lv, list(c)] for lv, c in ev]

    for cfg, items in graphs:
        out.states += len(items)
        out.traces += len(items)
        out.part("hier:" + cfg["row"], states=len(items))
        all_edges = ctx.tier == "thorough" or len(items) <= 300
        for hist, evs in items:
            h = [enc(ev) for ev in hist]
            cases.append({"part": "state", "cfg": cfg, "history": h})
            if all_edges or len(hist) <= 1:
                for ev in evs:
                    cases.append({"part": "pair", "cfg": cfg, "history": h, "extra": [enc(ev)]})
                    npairs += 1
        # chains of 2 and 3 further refinement calls: from the initial state all of them (thorough: also from the
        # depth-1 states with a stride), so that the fine space is several levels deeper than the coarse one
        c04.setup(cfg)
        starts = [hist for hist, _ in items if len(hist) == 0]
        if ctx.tier == "thorough":
            starts += [hist for hist, _ in items if len(hist) == 1][::3]
        for hist in starts:
            s1 = c04.build(list(hist))
            for ev in c04.enabled(s1):
                s2 = c04.build(list(hist) + [ev])
                ev2s = c04.enabled(s2)
                if len(hist) or len(ev2s) > 40:
                    ev2s = ev2s[:: max(1, len(ev2s) // 12)]
                for ev2 in ev2s:
                    cases.append({"part": "pair", "cfg": cfg, "history": [enc(e) for e in hist], "extra": [enc(ev), enc(ev2)]})
                    npairs += 1
                    if not hist and cfg["L"] >= 3:
                        s3 = c04.build(list(hist) + [ev, ev2])
                        ev3s = c04.enabled(s3)
                        for ev3 in ev3s[:: max(1, len(ev3s) // 6)]:
                            cases.append({"part": "pair", "cfg": cfg, "history": [], "extra": [enc(ev), enc(ev2), enc(ev3)]})
                            npairs += 1
    ctx.log("cases: kv=%d hierarchical states=%d pairs=%d" % (nkv, out.states, npairs))
    res = par.pmap(_w, cases, min_parallel=8)
    for case, (cnt, probs) in zip(cases, res):
        out.transitions += cnt
        out.part(case["part"], cases=1, comparisons=cnt)
        if case["part"] == "kv":
            out.states += 1
            if KV.is_nontrivial(KV.PATTERNS[case["pattern"]], case["mults"]):
                out.nontrivial.add(("kv", case["p"], case["pattern"], tuple(case["mults"])))
        else:
            if case["history"]:
                out.nontrivial.add((case["part"], case["cfg"]["row"], tuple(case["cfg"]["p"]), str(case["cfg"]["disparity"]),
                                    bool(case["cfg"].get("mark_truncate")), repr(case["history"]), repr(case.get("extra"))))
        out.outcomes.add((case["part"], len(probs)))
        for key, msg in probs:
            label = {k: v for k, v in case.items() if k != "cfg"}
            if "cfg" in case:
                label["row"] = "%s p=%s disp=%s%s" % (case["cfg"]["row"], case["cfg"]["p"], case["cfg"]["disparity"],
                                                       " refine(truncate=True)" if case["cfg"].get("mark_truncate") else "")
            out.add_violation(key, "%s: %s" % (label, msg), case)
    out.evaluations = out.transitions
    out.sample(cases[0]); out.sample(cases[nkv]); out.sample(cases[-1])
    out.rule = ("(a) every knot vector of the shape alphabet x every sub-multiset (size<=2 quick / 3 thorough) of a candidate "
                "insertion set (existing knots, midpoints, 1e-9 from a knot, first/last span) + uniform refinement chains; "
                "(b) every state of the listed C04 rows: represent_fine(lv) for all lv, HB/THB virtual-hierarchy prolongators, "
                "level-wise evaluation on every unit vector, boundary maps; prolongate_to on every edge of the state graph "
                "plus chains of 2-3 further calls from the initial state (deterministic strides where the menu exceeds 40). Non-trivial: knot vectors with repeated interior "
                "knot and non-uniform spans; hierarchical states/pairs with non-empty history.")
    out.assumptions += ["hierarchical part on uniform dyadic meshes (rows of C04), degrees 1-3, dim 1-2",
                        "knot-vector part: breakpoint patterns from the finite alphabet; tolerance 1e-11 absolute on matrix entries (entries are in [0,1])"]
    return out
