"""C08 -- assembly is independent of symmetry flag, format, layout, subset, thread count.

 (1) configuration lattice (enumerated completely): forms x symmetric x format x layout vs the reference
     configuration (symmetric=False, csr, blocked; tied to the denotational oracle by C01);
 (2) entry subsets: every single entry, every single row and multi-row sets through nonzeros_for_rows +
     multi_entries, blocks through multi_blocks;
 (3) schedules: the chunk tasks of multi_entries/multi_blocks are handed to a CONTROLLED executor (installed
     through the module globals of pyiga.assemble_tools_cy in a fresh process) which runs them in EVERY order
     (all k! for k <= 4 chunks, all orders with <= 2 inversions beyond) for every thread count 2..16, with the
     other tasks' output slices poisoned: result bitwise equal to the single-thread result and write footprints
     inside the own slice (=> tasks pairwise independent => every interleaving equivalent to an explored order);
     the prange path is decomposed into its per-row tasks; plus the real pool / real OpenMP for n = 1..16 in
     fresh processes, bitwise against n = 1;
 (4) update sequences (E1): all event sequences to depth 3 over {update(f_k), update_params(p_k), assemble(fmt),
     assemble(f=f_k)} on one Assembler object: every result equals a fresh construction with the current data.
"""
import itertools
import json
import os
import subprocess
import sys

import numpy as np

from mc import par
from mc.outcome import Outcome
from ref import vgen
from props import vspaces, c01

ID = "C08"
LEVEL = "model_checking"
RT = 1e-12


# ---------------------------------------------------------------------------------------------------
# forms
# ---------------------------------------------------------------------------------------------------

def form_programs(tier):
    """name -> (program, symmetric?)"""
    U, Vv, DXM = vgen.U, vgen.Vv, vgen.DXM
    gu, gv = ["grad", U, False], ["grad", Vv, False]
    F = {}

    def P(name, d, e, nu=None, nv=None, arity=2, sym=False, updatable=None):
        p = vgen.base_prog(d, arity=arity)
        if arity == 2:
            p["bfuns"] = {"u": [nu, 0], "v": [nv, 0]}
        else:
            p["bfuns"] = {"v": [nv, 0]}
        p["terms"] = [vgen.mul(e, DXM)]
        vgen.decl_for(p, e)
        for n in (updatable or []):
            p["inputs"][n]["updatable"] = True
        p["tag"] = "c08:" + name
        F[name] = (p, sym)
    b, f, pp = ["param", "b"], ["field", "f"], ["param", "p"]
    for d in (1, 2, 3):
        P("mass%dD" % d, d, vgen.mul(U, Vv), sym=True)
        P("laplace%dD" % d, d, ["inner", gu, gv], sym=True)
    P("convection2D", 2, vgen.mul(["inner", gu, b], Vv))
    # the updatable field enters through its values AND its gradient (two arrays that an update must both refresh)
    P("reaction_f2D", 2, vgen.mul(vgen.add(vgen.mul(f, pp), vgen.Dx(f, 0)), vgen.mul(U, Vv)), sym=True, updatable=["f"])
    P("vlaplace2D", 2, ["inner", gu, gv], 2, 2, sym=True)
    P("divdiv2D", 2, vgen.mul(["diverg", U, False], ["diverg", Vv, False]), 2, 2, sym=True)
    P("stokesB2D", 2, vgen.mul(["diverg", U, False], Vv), 2, 1)
    P("stokesBT2D", 2, vgen.mul(U, ["diverg", Vv, False]), 1, 2)
    P("mixed23_2D", 2, vgen.add(vgen.mul(vgen.comp(U, 0), vgen.comp(Vv, 2)), vgen.mul(vgen.Dx(vgen.comp(U, 1), 0), vgen.comp(Vv, 0))), 2, 3)
    # 3D vector forms with non-square component blocks: four-level matrix structure whose last (packed) or first
    # (blocked) level is rectangular
    P("stokesB3D", 3, vgen.mul(["diverg", U, False], Vv), 3, 1)
    P("stokesBT3D", 3, vgen.mul(U, ["diverg", Vv, False]), 1, 3)
    # symmetric 3D vector form: the mirror-block logic of the symmetric kernel has three nested levels only here
    P("divdiv3D", 3, vgen.mul(["diverg", U, False], ["diverg", Vv, False]), 3, 3, sym=True)
    P("functional2D", 2, vgen.mul(f, Vv), arity=1)
    P("vfunctional2D", 2, ["inner", ["field", "w"], Vv], None, 2, arity=1)
    if tier == "thorough":
        P("vlaplace3D", 3, ["inner", gu, gv], 3, 3, sym=True)
        P("curlb3D", 3, ["inner", ["cross", U, b], Vv], 3, 3)
        P("convection1D", 1, vgen.mul(vgen.Dx(U, 0), Vv))
    return F


_CLS = {}


def _registry_path(tier):
    import hashlib
    dg = hashlib.sha1(json.dumps({k: v[0] for k, v in form_programs(tier).items()}, sort_keys=True).encode()).hexdigest()[:10]
    return os.path.join(os.environ.get("XDG_CACHE_HOME", "."), "c08_classes_%s_%s.json" % (tier, dg))


def compiled(names, tier):
    """compile all forms in one module (cached on disk per source tree); returns name -> (cls, prog, sym).
    Child processes re-import the module the parent built (the generator's statement order is not
    deterministic, so regenerating the source would miss the on-disk cache)."""
    import importlib
    from pyiga import compile as C
    F = form_programs(tier)
    need = [n for n in names if n not in _CLS]
    if need:
        reg = {}
        try:
            with open(_registry_path(tier)) as f:
                reg = json.load(f)
        except Exception:
            reg = {}
        if all(n in reg for n in need):
            try:
                os.makedirs(C.MODDIR, exist_ok=True)
                if C.MODDIR not in sys.path:
                    sys.path.append(C.MODDIR)
                for n in need:
                    mod = importlib.import_module(reg[n][0])
                    _CLS[n] = getattr(mod, reg[n][1])
                need = []
            except Exception:
                need = [n for n in names if n not in _CLS]
        if need:
            allnames = list(F)
            with c01._Quiet():
                classes = C.compile_vforms([vgen.build_vform(F[n][0]) for n in allnames])
            for n, cls in zip(allnames, classes):
                _CLS[n] = cls
                reg[n] = [cls.__module__, cls.__name__]
            tmp = _registry_path(tier) + ".tmp%d" % os.getpid()
            with open(tmp, "w") as f:
                json.dump(reg, f)
            os.replace(tmp, _registry_path(tier))
    return {n: (_CLS[n], F[n][0], F[n][1]) for n in names}


def instance(name, tier, args=None):
    cls, prog, sym = compiled([name], tier)[name]
    geo = vspaces.make_geo(prog, 0)
    a = args if args is not None else vspaces.make_inputs(prog)
    return c01.instantiate(cls, prog, geo, a), prog, sym, geo, a


def dense(A):
    if hasattr(A, "asmatrix"):
        A = A.asmatrix()
    return np.asarray(A.todense()) if hasattr(A, "todense") else np.asarray(A)


# ---------------------------------------------------------------------------------------------------
# (1) configuration lattice, (2) subsets
# ---------------------------------------------------------------------------------------------------

def lattice_problems(case):
    from pyiga import assemble, mlmatrix
    name, tier = case["form"], case["tier"]
    probs = []
    n_cmp = 0
    try:
        if case.get("axes"):
            # the same form on a "twin" space (equal sizes, different sparsity patterns per direction)
            with vspaces.use_axes(form_programs(tier)[name][0]["dim"], case["axes"]):
                asm, prog, sym, geo, args = instance(name, tier)
            name = "%s on axes %s" % (name, "x".join(case["axes"]))
        else:
            asm, prog, sym, geo, args = instance(name, tier)
        vec = any(nc is not None for nc, _ in prog["bfuns"].values())
        if prog["arity"] == 1:
            base = np.asarray(assemble.assemble_entries(asm, layout="blocked"))
            packed = np.asarray(assemble.assemble_entries(asm, layout="packed"))
            n_cmp += 1
            if vec:
                if not np.array_equal(np.moveaxis(packed, -1, 0), base):
                    probs.append(("layout:functional", "%s: packed vector is not the blocked vector with the component axis last" % name))
            elif not np.array_equal(packed, base):
                probs.append(("layout:functional", "%s: layout changes a scalar functional" % name))
            return n_cmp, probs
        ref = dense(assemble.assemble_entries(asm, symmetric=False, format="csr", layout="blocked"))
        scale = max(np.abs(ref).max(), 1e-300)
        if vec:
            cu, cv = prog["bfuns"]["u"][0], prog["bfuns"]["v"][0]
            Nv, Nu = ref.shape[0] // cv, ref.shape[1] // cu
            # packed index = dof * ncomp + comp
            rp = np.array([(i % cv) * Nv + i // cv for i in range(Nv * cv)])
            cp = np.array([(j % cu) * Nu + j // cu for j in range(Nu * cu)])
            ref_packed = ref[np.ix_(rp, cp)]
        for symm in ((False, True) if sym else (False,)):
            for layout in (("blocked", "packed") if vec else ("blocked",)):
                fmts = ["csr", "csc", "coo", "bsr"] + (["mlb"] if vec else [])
                for fmt in fmts:
                    if fmt == "bsr" and vec and layout != "packed" and False:
                        continue
                    try:
                        A = assemble.assemble_entries(asm, symmetric=symm, format=fmt, layout=layout)
                    except Exception as e:
                        if isinstance(e, (NotImplementedError, TypeError)) or (isinstance(e, AssertionError) and "not implemented" in str(e)):
                            continue        # explicit rejection (e.g. lower-triangular assembly in 1D)
                        probs.append(("lattice:exception:%s" % type(e).__name__, "%s symmetric=%s format=%s layout=%s raised %r" % (name, symm, fmt, layout, e)))
                        continue
                    n_cmp += 1
                    if fmt not in ("mlb",) and hasattr(A, "format") and A.format != fmt:
                        probs.append(("lattice:format", "%s: requested format %s, got %s" % (name, fmt, A.format)))
                    got = dense(A)
                    want = ref_packed if (vec and layout == "packed") else ref
                    if got.shape != want.shape or not np.abs(got - want).max() <= RT * scale:
                        kind = "symmetric" if symm else "general"
                        probs.append(("lattice:%s:%s:%s" % (kind, fmt, layout if vec else "scalar"),
                                      "%s: symmetric=%s format=%s layout=%s differs from the reference configuration by %s"
                                      % (name, symm, fmt, layout, np.abs(got - want).max() if got.shape == want.shape else "shape %s vs %s" % (got.shape, want.shape))))
                    if fmt == "mlb" and got.shape == want.shape:
                        # the multi-level banded result is an operator: its products with every unit vector, all kept
                        # until the last one has been computed, are the columns of the reference matrix
                        n_cmp += 1
                        ys = []
                        for j in range(want.shape[1]):
                            e = np.zeros(want.shape[1])
                            e[j] = 1.0
                            ys.append(A.dot(e))
                        Y = np.column_stack(ys)
                        if Y.shape != want.shape or not np.abs(Y - want).max() <= RT * scale:
                            probs.append(("lattice:mlb:operator:%s" % layout,
                                          "%s: symmetric=%s format=mlb layout=%s: the products with all unit vectors (results kept "
                                          "until the end) differ from the reference matrix by %s"
                                          % (name, symm, layout, np.abs(Y - want).max() if Y.shape == want.shape else "shape %s" % (Y.shape,))))
        # (2) subsets
        if not vec:
            kvs0, kvs1 = asm.kvs
            S = mlmatrix.MLStructure.from_kvs(kvs0, kvs1)
            N = ref.shape[0]
            E = np.array([[asm.entry(i, j) for j in range(ref.shape[1])] for i in range(N)])
            n_cmp += N * ref.shape[1]
            if not np.array_equal(E, ref):
                if not np.abs(E - ref).max() <= RT * scale:
                    probs.append(("subset:entry", "%s: entry(i,j) differs from the assembled matrix by %.3g" % (name, np.abs(E - ref).max())))
            rowsets = [[r] for r in range(N)] + [[0, N - 1], list(range(0, N, 3)), [N // 2, 1, N - 2]]
            for rows in rowsets:
                I, J = S.nonzeros_for_rows(rows)
                vals = np.asarray(asm.multi_entries(np.column_stack((I, J))))
                n_cmp += 1
                if not np.abs(vals - ref[I, J]).max() <= RT * scale:
                    probs.append(("subset:rows", "%s: multi_entries on the nonzeros of rows %s differs from the assembled matrix" % (name, rows)))
                    break
                got_rows = set(int(i) for i in I)
                if not got_rows <= set(rows):
                    probs.append(("subset:rows:index", "%s: nonzeros_for_rows(%s) returned rows %s" % (name, rows, sorted(got_rows)[:5])))
                    break
        else:
            kvs0, kvs1 = asm.kvs
            S = mlmatrix.MLStructure.from_kvs(kvs0, kvs1)
            I, J = S.nonzero()
            B = np.asarray(asm.multi_blocks(np.column_stack((I, J))))       # (n, cv, cu)
            n_cmp += 1
            want = np.stack([ref[np.ix_([c * Nv + i for c in range(cv)], [c * Nu + j for c in range(cu)])] for i, j in zip(I, J)])
            if B.shape != want.shape or not np.abs(B - want).max() <= RT * scale:
                probs.append(("subset:blocks", "%s: multi_blocks differs from the blocks of the assembled matrix" % name))
    except Exception as e:
        import traceback
        tb = traceback.extract_tb(e.__traceback__)
        if tb[-1].filename.startswith("/verif/"):
            raise
        probs.append(("lattice:exception:%s" % type(e).__name__, "%s raised %r at %s:%d" % (name, e, tb[-1].filename.split("/")[-1], tb[-1].lineno)))
    return n_cmp, probs


# ---------------------------------------------------------------------------------------------------
# (3) schedules -- runs in a FRESH subprocess (the pool object is created once per process)
# ---------------------------------------------------------------------------------------------------

def orders(k):
    """all k! orders for k <= 4; beyond: every order with at most 2 inversions"""
    if k <= 4:
        return list(itertools.permutations(range(k)))
    out = []
    for p in _few_inversions(k, 2):
        out.append(tuple(p))
    return out


def _few_inversions(k, maxinv):
    base = list(range(k))
    res = {tuple(base)}
    frontier = {tuple(base)}
    for _ in range(maxinv):
        nxt = set()
        for p in frontier:
            for i in range(k - 1):
                q = list(p)
                q[i], q[i + 1] = q[i + 1], q[i]
                nxt.add(tuple(q))
        res |= nxt
        frontier = nxt
    return sorted(res)


SCHED_CHILD = r'''
import sys, json, itertools
sys.path.insert(0, %(verif)r)
import numpy as np
import pyiga
from pyiga import assemble_tools_cy as AT
from props import c08

class Controlled:
    """stands in for ThreadPoolExecutor: map() receives the chunk tasks and runs them in the order chosen by the
    driver, poisoning every OTHER task's output slice before each task"""
    def __init__(self, *a, **k):
        self.order = None
        self.log = []
    def map(self, fn, *iters):
        tasks = list(zip(*iters))
        k = len(tasks)
        order = self.order if self.order is not None and len(self.order) == k else tuple(range(k))
        outs = [t[-1] for t in tasks]
        done = set()
        bad = []
        for pos, ti in enumerate(order):
            marks = {}
            for tj in range(k):
                if tj != ti and tj not in done:
                    marks[tj] = np.full(np.shape(outs[tj]), np.nan)
                    np.copyto(np.asarray(outs[tj]), marks[tj])
            snap = {tj: np.array(outs[tj], copy=True) for tj in done}
            fn(*tasks[ti])
            for tj in range(k):
                if tj == ti:
                    continue
                cur = np.asarray(outs[tj])
                if tj in done:
                    if not np.array_equal(cur, snap[tj], equal_nan=True):
                        bad.append((ti, tj))
                elif not np.all(np.isnan(cur)):
                    bad.append((ti, tj))
            done.add(ti)
        self.log.append({"k": k, "order": list(order), "foreign_writes": bad})
        return iter(())

AT.ThreadPoolExecutor = Controlled
res = c08.sched_body(%(form)r, %(tier)r, AT)
json.dump(res, sys.stdout)
'''


def sched_body(name, tier, AT):
    """executed inside the fresh child with the controlled executor installed"""
    import pyiga
    from pyiga import assemble, mlmatrix
    asm, prog, sym, geo, args = instance(name, tier)
    vec = any(nc is not None for nc, _ in prog["bfuns"].values())
    kvs0, kvs1 = asm.kvs
    S = mlmatrix.MLStructure.from_kvs(kvs0, kvs1)
    I, J = S.nonzero()
    idx = np.column_stack((I, J))
    call = (lambda: np.asarray(asm.multi_blocks(idx))) if vec else (lambda: np.asarray(asm.multi_entries(idx)))
    pyiga.set_max_threads(1)
    ref = call()
    out = {"form": name, "ntasks": len(idx), "schedules": 0, "problems": [], "chunkings": []}
    pool = None
    for n in range(2, 17):
        pyiga.set_max_threads(n)
        first = call()          # creates / uses the controlled pool in natural order
        if pool is None:
            import gc
            pool = [o for o in gc.get_objects() if type(o).__name__ == "Controlled"]
            pool = pool[0] if pool else None
            if pool is None:
                out["problems"].append(["sched:seam", "the controlled executor was not used by multi_entries (seam gone)"])
                return out
        k = pool.log[-1]["k"]
        out["chunkings"].append([n, k])
        if not np.array_equal(first, ref):
            out["problems"].append(["sched:threads:value", "%s: %d threads (natural order) differs bitwise from 1 thread" % (name, n)])
        for order in orders(k):
            pool.order = order
            got = call()
            out["schedules"] += 1
            rec = pool.log[-1]
            if rec["foreign_writes"]:
                out["problems"].append(["sched:footprint", "%s: with %d chunks a task wrote outside its own output slice: %s" % (name, k, rec["foreign_writes"][:3])])
                break
            if not np.array_equal(got, ref):
                out["problems"].append(["sched:order:value", "%s: %d chunks run in order %s give a result that differs bitwise from the single-thread result" % (name, k, list(order))])
                break
        pool.order = None
    pyiga.set_max_threads(1)
    return out


def sched_problems(case):
    verif = os.path.dirname(os.path.dirname(os.path.abspath(__file__)))
    code = SCHED_CHILD % {"verif": verif, "form": case["form"], "tier": case["tier"]}
    r = subprocess.run([sys.executable, "-c", code], capture_output=True, text=True, cwd=verif)
    if r.returncode != 0:
        return 0, [("sched:child-failed", "schedule child for %s exited with %d: %s" % (case["form"], r.returncode, r.stderr[-500:]))], {}
    res = json.loads(r.stdout[r.stdout.index("{"):])
    return res["schedules"], [tuple(p) for p in res["problems"]], res


REAL_CHILD = r'''
import sys, json, hashlib
sys.path.insert(0, %(verif)r)
import numpy as np
import pyiga
pyiga.set_max_threads(%(n)d)
from pyiga import assemble
from props import c08
out = {}
for name in %(forms)r:
    asm, prog, sym, geo, args = c08.instance(name, %(tier)r)
    A = assemble.assemble_entries(asm, symmetric=False)
    d = c08.dense(A) if prog["arity"] == 2 else np.asarray(A)
    out[name] = hashlib.sha256(np.ascontiguousarray(d).tobytes()).hexdigest()
    if sym:
        A = assemble.assemble_entries(asm, symmetric=True)
        out[name + ":sym"] = hashlib.sha256(np.ascontiguousarray(c08.dense(A)).tobytes()).hexdigest()
json.dump(out, sys.stdout)
'''


def real_threads_problems(case):
    """the real pool and real OpenMP, n threads, in a fresh process: bitwise digest of the results"""
    verif = os.path.dirname(os.path.dirname(os.path.abspath(__file__)))
    env = dict(os.environ)
    env["OMP_NUM_THREADS"] = str(case["n"])
    code = REAL_CHILD % {"verif": verif, "n": case["n"], "forms": case["forms"], "tier": case["tier"]}
    r = subprocess.run([sys.executable, "-c", code], capture_output=True, text=True, cwd=verif, env=env)
    if r.returncode != 0:
        return {"__error__": "child exited with %d: %s" % (r.returncode, r.stderr[-400:])}
    return json.loads(r.stdout[r.stdout.index("{"):])


# ---------------------------------------------------------------------------------------------------
# (4) update sequences
# ---------------------------------------------------------------------------------------------------

def update_events():
    evs = []
    for k in (1, 2):
        evs.append(("update", k))
        evs.append(("update_params", k))
        evs.append(("assemble_f", k))
    evs += [("assemble", "csr"), ("assemble", "csc")]
    return evs


def update_seq_problems(case):
    """one Assembler object driven through an event sequence; after every assemble the result must equal a
    fresh construction with the current field and parameter"""
    from pyiga import assemble, bspline
    tier = case["tier"]
    cls, prog, sym = compiled(["reaction_f2D"], tier)["reaction_f2D"]
    geo = vspaces.make_geo(prog, 0)
    kq = bspline.make_knots(2, 0.0, 1.0, 2)
    rng = np.random.RandomState(7)
    fields = {k: bspline.BSplineFunc((kq, kq), 0.1 * rng.uniform(-1, 1, (4, 4))) for k in (0, 1, 2)}
    params = {0: 1.3, 1: 0.7, 2: -2.0}
    kvs0 = vspaces.make_kvs(vspaces.space(2, 0))
    probs = []

    def fresh(fk, pk, fmt):
        a = cls(kvs0, geo=geo, f=fields[fk], p=params[pk])
        return dense(assemble.assemble_entries(a, symmetric=case["symmetric"], format=fmt))
    try:
        A = assemble.Assembler(cls, kvs0, args={"geo": geo, "f": fields[0], "p": params[0]}, symmetric=case["symmetric"], updatable=["f"])
        cur_f, cur_p = 0, 0
        nsteps = 0
        for ev in case["seq"]:
            kind, arg = ev
            if kind == "update":
                A.update(f=fields[arg]); cur_f = arg
            elif kind == "update_params":
                A.asm.update_params(p=params[arg]); cur_p = arg
            elif kind == "assemble_f":
                got = dense(A.assemble(f=fields[arg])); cur_f = arg
                nsteps += 1
                if not np.array_equal(got, fresh(cur_f, cur_p, "csr")):
                    probs.append(("update:assemble(f=)", "after %s: assemble(f=f%d) differs from a fresh assembler with the current data" % (case["seq"], arg)))
                    break
            else:
                got = dense(A.assemble(format=arg))
                nsteps += 1
                if not np.array_equal(got, fresh(cur_f, cur_p, arg)):
                    probs.append(("update:reuse", "after %s: assemble(format=%s) differs from a fresh assembler with the current field f%d and parameter p%d" % (case["seq"], arg, cur_f, cur_p)))
                    break
        # finally always assemble once
        got = dense(A.assemble())
        if not np.array_equal(got, fresh(cur_f, cur_p, "csr")):
            probs.append(("update:final", "after %s the assembler's result differs from a fresh construction" % (case["seq"],)))
    except Exception as e:
        import traceback
        tb = traceback.extract_tb(e.__traceback__)
        if tb[-1].filename.startswith("/verif/"):
            raise
        probs.append(("update:exception:%s" % type(e).__name__, "sequence %s raised %r" % (case["seq"], e)))
    return probs


# ---------------------------------------------------------------------------------------------------

def check_case(case):
    part = case["part"]
    if part == "lattice":
        return lattice_problems(case)[1]
    if part == "sched":
        return sched_problems(case)[1]
    if part == "update":
        return update_seq_problems(case)
    if part == "real":
        base = real_threads_problems(dict(case, n=1))
        got = real_threads_problems(case)
        if "__error__" in got or "__error__" in base:
            return [("threads:real:child-failed", str(got.get("__error__") or base.get("__error__")))]
        return [("threads:real:bitwise", "%s: %d threads differ bitwise from 1 thread" % (k, case["n"])) for k in base if got.get(k) != base[k]][:1]
    raise ValueError(part)


def _w(case):
    part = case["part"]
    if part == "lattice":
        return lattice_problems(case)
    if part == "sched":
        n, probs, res = sched_problems(case)
        return n, probs, res.get("chunkings")
    if part == "update":
        return 1, update_seq_problems(case)
    if part == "real":
        return 1, real_threads_problems(case)
    raise ValueError(part)


def run(ctx):
    out = Outcome()
    tier = ctx.tier
    F = form_programs(tier)
    names = list(F)
    compiled(names, tier)           # one module, cached on disk
    ctx.log("forms compiled/cached: %d" % len(names))
    cases = [{"part": "lattice", "form": n, "tier": tier} for n in names]
    for n in names:
        prg, sym = form_programs(tier)[n]
        if sym and prg["arity"] == 2:
            if prg["dim"] == 2:
                cases.append({"part": "lattice", "form": n, "tier": tier, "axes": ["T1", "T2"]})
            elif prg["dim"] == 3 and prg["bfuns"]["u"][0]:
                cases.append({"part": "lattice", "form": n, "tier": tier, "axes": ["T3", "T1", "T2"]})
    sched_forms = ["mass2D", "convection2D", "vlaplace2D", "mixed23_2D"] + (["mass3D", "stokesB2D", "laplace1D"] if tier == "thorough" else [])
    cases += [{"part": "sched", "form": n, "tier": tier} for n in sched_forms]
    evs = update_events()
    depth = 3
    for L in range(1, depth + 1):
        for seq in itertools.product(evs, repeat=L):
            if tier == "quick" and L == 3 and (hash_seq(seq) % 3):
                continue
            for symm in (False, True):
                cases.append({"part": "update", "seq": [list(e) for e in seq], "symmetric": symm, "tier": tier})
    real_forms = ["mass2D", "laplace3D", "vlaplace2D", "stokesB2D", "mixed23_2D", "vfunctional2D"]
    ns = list(range(1, 17)) if tier == "thorough" else [1, 2, 3, 4, 7, 8, 16]
    cases += [{"part": "real", "n": n, "forms": real_forms, "tier": tier} for n in ns]
    res = par.pmap(_w, cases, min_parallel=2, chunk=1)
    real = {}
    for case, r in zip(cases, res):
        part = case["part"]
        out.part(part, cases=1)
        if part == "real":
            real[case["n"]] = r[1]
            continue
        n, probs = r[0], r[1]
        out.transitions += n
        out.states += 1
        if part == "sched":
            out.traces += n
            out.part("sched", schedules=n)
            out.extra.setdefault("chunkings", {})[case["form"]] = r[2]
        out.nontrivial.add((part, case.get("form") or repr(case.get("seq")), case.get("symmetric")))
        out.outcomes.add((part, len(probs)))
        for key, msg in probs:
            out.add_violation(key, msg, case)
    base = real.get(1, {})
    if "__error__" in base:
        out.add_violation("threads:real:child-failed", base["__error__"], {"part": "real", "n": 1, "forms": real_forms, "tier": tier})
    for n, got in sorted(real.items()):
        out.transitions += 1
        if "__error__" in got:
            out.add_violation("threads:real:child-failed", got["__error__"], {"part": "real", "n": n, "forms": real_forms, "tier": tier})
            continue
        for k in base:
            if got.get(k) != base[k]:
                out.add_violation("threads:real:bitwise", "%s: %d threads (real pool / OpenMP, fresh process) differ bitwise from 1 thread" % (k, n),
                                  {"part": "real", "n": n, "forms": real_forms, "tier": tier})
                break
    out.evaluations = out.transitions
    out.sample(cases[0]); out.sample([c for c in cases if c["part"] == "update"][40]); out.sample([c for c in cases if c["part"] == "sched"][0])
    out.rule = ("(1) forms x symmetric x {csr,csc,coo,bsr,mlb} x {blocked,packed} vs the reference configuration; (2) every single "
                "entry, every single row + multi-row sets, all blocks; (3) controlled executor: every thread count 2..16 x every "
                "order of the chunk tasks (all k! for k<=4, <=2 inversions beyond) with poisoned foreign slices, bitwise vs 1 "
                "thread, plus real pool/OpenMP in fresh processes; (4) all update/assemble event sequences to depth 3 (quick: a "
                "fixed third of depth 3) vs fresh construction. Non-trivial = distinct (part, form/sequence, symmetric).")
    out.assumptions += ["instruction-level interleavings inside nogil C code are not driven; they are covered by the dynamically "
                        "checked independence of the chunk tasks (disjoint write footprints, order-independent bitwise results)",
                        "the free-running real-thread runs are supplementary evidence for state invisible to the Python-level footprint check"]
    return out


def hash_seq(seq):
    return sum((i + 1) * (len(str(e))) for i, e in enumerate(seq))
